use palette::{convert::FromColorUnclamped, Hsluv, Okhsl, Oklab, Xyz, Luv, Lchuv, white_point::D65};
fn main() {
    let h = Hsluv::<D65, f64>::new(59.575389445989636, 100.0226784936911, 99.97025886962776);
    let lch = Lchuv::<D65,f64>::from_color_unclamped(h);
    let luv = Luv::<D65,f64>::from_color_unclamped(lch);
    let xyz = Xyz::<D65,f64>::from_color_unclamped(luv);
    let lab = Oklab::<f64>::from_color_unclamped(xyz);
    let ok = Okhsl::<f64>::from_color_unclamped(lab);
    println!("{:?}\n{:?}\n{:?}\n{:?}\n{:?}", lch, luv, xyz, lab, ok);
    let lab2 = Oklab::<f64>::from_color_unclamped(ok);
    let xyz2 = Xyz::<D65,f64>::from_color_unclamped(lab2);
    let luv2 = Luv::<D65,f64>::from_color_unclamped(xyz2);
    let lch2 = Lchuv::<D65,f64>::from_color_unclamped(luv2);
    let h2 = Hsluv::<D65,f64>::from_color_unclamped(lch2);
    println!("back:\n{:?}\n{:?}\n{:?}\n{:?}\n{:?}", lab2, xyz2, luv2, lch2, h2);
    let ok_direct = Okhsl::<f64>::from_color_unclamped(h);
    println!("direct {:?} -> {:?}", ok_direct, Hsluv::<D65,f64>::from_color_unclamped(ok_direct));
}
