fn main() {
    let ok = pv::reference::spaces::linsrgb_to_oklab([0.0,0.0,1.0]);
    let h0 = ok[2].atan2(ok[1]);
    for d in [-0.2, -0.1, -0.03, -1e-2, -1e-3, -1e-5] {
        let h: f64 = h0 + d;
        let (a,b) = (h.cos(), h.sin());
        let (k0,k1,k2,k3,k4) = (1.19086277, 1.76576728, 0.59662641, 0.75515197, 0.56771245);
        let (wl,wm,ws) = (4.0767416621, -3.3077115913, 0.2309699292);
        let mut s = k0 + k1 * a + k2 * b + k3 * a * a + k4 * a * b;
        let k_l = 0.3963377774 * a + 0.2158037573 * b;
        let k_m = -0.1055613458 * a - 0.0638541728 * b;
        let k_s = -0.0894841775 * a - 1.2914855480 * b;
        print!("d {:e}: poly {} ", d, s);
        for _ in 0..5 {
            let (l_, m_, s_) = (1.0 + s * k_l, 1.0 + s * k_m, 1.0 + s * k_s);
            let (l, m, sv) = (l_ * l_ * l_, m_ * m_ * m_, s_ * s_ * s_);
            let (l_ds, m_ds, s_ds) = (3.0 * k_l * l_ * l_, 3.0 * k_m * m_ * m_, 3.0 * k_s * s_ * s_);
            let (l_ds2, m_ds2, s_ds2) = (6.0 * k_l * k_l * l_, 6.0 * k_m * k_m * m_, 6.0 * k_s * k_s * s_);
            let f = wl * l + wm * m + ws * sv;
            let f1 = wl * l_ds + wm * m_ds + ws * s_ds;
            let f2 = wl * l_ds2 + wm * m_ds2 + ws * s_ds2;
            s -= f * f1 / (f1 * f1 - 0.5 * f * f2);
            print!("-> {} (f {:e}) ", s, f);
        }
        println!();
    }
}
