use palette::{convert::FromColorUnclamped, encoding, rgb::Rgb, Hsv, Hsl, Srgb};
fn main() {
    let a = Rgb::<encoding::AdobeRgb, f64>::new(0.0, 1.0, 1.0);
    let s = Srgb::<f64>::from_color_unclamped(a);
    println!("adobe cyan -> srgb {:?}", s);
    println!("-> hsv {:?}", Hsv::<encoding::Srgb, f64>::from_color_unclamped(s));
    println!("-> hsl {:?}", Hsl::<encoding::Srgb, f64>::from_color_unclamped(s));
    let h = Hsv::<encoding::AdobeRgb, f64>::new(180.0, 1.0, 1.0);
    println!("hsv<adobe> -> hsv<srgb> {:?}", Hsv::<encoding::Srgb, f64>::from_color_unclamped(h));
    let r = Srgb::<f64>::new(-0.5, 1.0, 0.7);
    println!("srgb {:?} -> hsv {:?}", r, Hsv::<encoding::Srgb, f64>::from_color_unclamped(r));
    println!(" -> back {:?}", Srgb::<f64>::from_color_unclamped(Hsv::<encoding::Srgb, f64>::from_color_unclamped(r)));
}
