use palette::{FromColor, Hsluv, Lchuv, Luv, white_point::D65, convert::FromColorUnclamped};
fn main() {
    for l in [0.0f64, 1e-9, 1e-7, 100.0 - 1e-7, 100.0 - 1e-9, 100.0] {
        let mut nan = 0; let mut inf = 0; let mut big = 0; let mut maxc: f64 = 0.0; let mut minc: f64 = 1e300;
        for hi in 0..3600 {
            let h = hi as f64 * 0.1;
            let c = Lchuv::<D65, f64>::from_color_unclamped(Hsluv::<D65, f64>::new(h, 100.0, l));
            if c.chroma.is_nan() { nan += 1 } else if c.chroma.is_infinite() { inf += 1 } else { maxc = maxc.max(c.chroma); minc = minc.min(c.chroma); }
            let s = Hsluv::<D65, f64>::from_color_unclamped(Lchuv::<D65, f64>::new(l, 0.0, h));
            if !s.saturation.is_finite() { big += 1 }
        }
        println!("l={:e}: Hsluv(h,100,l)->Lchuv chroma nan={} inf={} finite range [{:e},{:e}];  Lchuv(l,0,h)->Hsluv nonfinite={}", l, nan, inf, minc, maxc, big);
    }
    let s = Hsluv::<D65, f64>::from_color_unclamped(Lchuv::<D65, f64>::new(100.0, 0.0, 90.0));
    println!("{:?}", s);
    let s = Hsluv::<D65, f32>::from_color_unclamped(Lchuv::<D65, f32>::new(100.0, 0.0, 90.0));
    println!("{:?}", s);
    let s = Lchuv::<D65, f32>::from_color_unclamped(Hsluv::<D65, f32>::new(0.0, 100.0, 0.0));
    println!("{:?}", s);
    let s = Hsluv::<D65, f64>::from_color_unclamped(Luv::<D65, f64>::new(100.0, 0.0, 0.0));
    println!("{:?}", s);
    let s = Hsluv::<D65, f64>::from_color_unclamped(Luv::<D65, f64>::new(0.0, 0.0, 0.0));
    println!("{:?}", s);
}
