//! C18 — struct-of-arrays colour collections behave like a vector of colours.
use palette::encoding::Srgb as ESrgb;
use palette::white_point::D65;
use palette::{Alpha, Hsv, Lch, Oklab, Srgb, SrgbLuma};
use proptest::prelude::*;
use pv::ensure;
use pv::runner::{no_panic, Fail, Harness, Obs, PropResult};
use serde::{Deserialize, Serialize};

/// a colour as raw f32 bit patterns (colour components in array order, alpha last); 5 words, the
/// interpreter uses the first K
pub type Col = [u32; 5];

#[derive(Debug, Clone, Serialize, Deserialize, PartialEq)]
pub enum R {
    Full,
    To(usize),
    ToIncl(usize),
    From(usize),
    Range(usize, usize),
    RangeIncl(usize, usize),
}

#[derive(Debug, Clone, Serialize, Deserialize)]
pub enum Op {
    Push(Col),
    Pop,
    Extend(Vec<Col>),
    Collect(Vec<Col>),
    Clear,
    WithCapacity(usize),
    /// drain(range), then `script` (true = next, false = next_back), then drop or forget
    Drain { r: R, script: Vec<bool>, forget: bool },
    Get(usize),
    GetRange(R),
    GetMutWrite(usize, Col),
    GetMutRangeWrite(R, Col),
    /// iterate by reference following the script (true = next, false = next_back), checking len/size_hint at every step
    Iter(Vec<bool>),
    IterRev,
    IterMutWrite(u32),
    IterMutRevWrite(u32),
    /// consume a clone by value (IntoIterator for the owned collection)
    IntoIterOwned(bool),
    /// iterate slice / mutable slice / boxed slice / array views of the same data
    Views,
}

#[derive(Debug, Clone, Serialize, Deserialize)]
pub struct Program {
    pub ty: usize,
    pub init: Vec<Col>,
    pub ops: Vec<Op>,
}

fn model_range(r: &R, len: usize) -> Option<std::ops::Range<usize>> {
    // what slice::get accepts; None = out of range / inverted
    let (s, e) = match *r {
        R::Full => (0, len),
        R::To(e) => (0, e),
        R::ToIncl(e) => (0, e.checked_add(1)?),
        R::From(s) => (s, len),
        R::Range(s, e) => (s, e),
        R::RangeIncl(s, e) => (s, e.checked_add(1)?),
    };
    if s <= e && e <= len {
        Some(s..e)
    } else {
        None
    }
}

macro_rules! with_range {
    ($r:expr, $x:ident => $e:expr) => {
        match $r {
            R::Full => { let $x = ..; $e }
            R::To(e) => { let $x = ..*e; $e }
            R::ToIncl(e) => { let $x = ..=*e; $e }
            R::From(s) => { let $x = *s..; $e }
            R::Range(s, e) => { let $x = *s..*e; $e }
            R::RangeIncl(s, e) => { let $x = *s..=*e; $e }
        }
    };
}

macro_rules! soa_impl {
    ($fname:ident, $name:expr, $k:expr, $V:ty, $S:ty, $SL:ty, $BX:ty, $ARR:ty,
     lens: |$lv:ident| $lens:expr,
     mk: |$b:ident| $mk:expr,
     bits: |$c:ident| $bits:expr,
     slices: |$sv:ident| $slices:expr,
     boxed: |$bv:ident| $boxed:expr,
     array: |$av:ident| $array:expr) => {
        fn $fname(p: &Program, obs: &mut Obs) -> PropResult {
            const K: usize = $k;
            let mk = |$b: &Col| -> $S { $mk };
            let bits = |$c: $S| -> Vec<u32> { $bits };
            let lens = |$lv: &$V| -> Vec<usize> { $lens };
            let key = |c: &Col| -> Vec<u32> { c[..K].to_vec() };
            let mut model: Vec<Vec<u32>> = p.init.iter().map(key).collect();
            let mut soa: $V = p.init.iter().map(|c| mk(c)).collect();
            let name = $name;
            let mut kinds = std::collections::HashSet::new();
            let mut interesting = false;
            macro_rules! same_state {
                ($step:expr) => {{
                    let l = lens(&soa);
                    ensure!(l.iter().all(|x| *x == model.len()), "{} after step {} ({:?}): component collections have lengths {:?}, a Vec of colours has length {}", name, $step, p.ops.get($step), l, model.len());
                    let got: Vec<Vec<u32>> = (&soa).into_iter().map(|c| bits(c.copied())).collect();
                    ensure!(got == model, "{} after step {} ({:?}): contents {:?} differ from the Vec of colours {:?}", name, $step, p.ops.get($step), got, model);
                }};
            }
            same_state!(usize::MAX);
            for (step, op) in p.ops.iter().enumerate() {
                kinds.insert(std::mem::discriminant(op));
                match op {
                    Op::Push(c) => {
                        soa.push(mk(c));
                        model.push(key(c));
                    }
                    Op::Pop => {
                        let got = soa.pop().map(|c| bits(c));
                        let want = model.pop();
                        ensure!(got == want, "{} step {}: pop returned {:?}, Vec::pop returns {:?}", name, step, got, want);
                    }
                    Op::Extend(cs) => {
                        soa.extend(cs.iter().map(|c| mk(c)));
                        model.extend(cs.iter().map(key));
                    }
                    Op::Collect(cs) => {
                        soa = cs.iter().map(|c| mk(c)).collect();
                        model = cs.iter().map(key).collect();
                    }
                    Op::Clear => {
                        soa.clear();
                        model.clear();
                    }
                    Op::WithCapacity(n) => {
                        soa = <$V>::with_capacity(*n);
                        model = Vec::with_capacity(*n);
                    }
                    Op::Drain { r, script, forget } => {
                        if !model.is_empty() {
                            interesting = true;
                        }
                        // the model first: does Vec::drain accept the range?
                        let mut m2 = model.clone();
                        let want = no_panic(|| {
                            let mut out = Vec::new();
                            with_range!(r, x => {
                                let mut d = m2.drain(x);
                                for front in script {
                                    let hint = d.len();
                                    out.push((if *front { d.next() } else { d.next_back() }, hint));
                                }
                                if *forget { std::mem::forget(d); } else { drop(d); }
                            });
                            (out, m2)
                        });
                        let got = no_panic(|| {
                            let mut out = Vec::new();
                            with_range!(r, x => {
                                let mut d = soa.drain(x);
                                for front in script {
                                    let hint = d.len();
                                    let sh = d.size_hint();
                                    assert!(sh == (hint, Some(hint)), "size_hint {:?} vs len {}", sh, hint);
                                    out.push((if *front { d.next() } else { d.next_back() }.map(|c| bits(c)), hint));
                                }
                                if *forget { std::mem::forget(d); } else { drop(d); }
                            });
                            out
                        });
                        match (want, got) {
                            (Ok((w, m2)), Ok(g)) => {
                                ensure!(g == w, "{} step {}: drain({:?}) yielded {:?} (item, len before), Vec::drain yields {:?}", name, step, r, g, w);
                                model = m2;
                            }
                            (Err(_), Err(_)) => {
                                // both reject the range: nothing may have been removed from any component
                            }
                            (Ok(_), Err(e)) => return Err(Fail::new(format!("{} step {}: drain({:?}) panicked ({}) but Vec::drain accepts the range (len {})", name, step, r, e, model.len()))),
                            (Err(_), Ok(g)) => return Err(Fail::new(format!("{} step {}: drain({:?}) yielded {:?} but Vec::drain panics for len {}", name, step, r, g, model.len()))),
                        }
                    }
                    Op::Get(i) => {
                        if *i >= model.len() && !model.is_empty() {
                            interesting = true;
                        }
                        let got = soa.get(*i).map(|c| bits(c.copied()));
                        let want = model.get(*i).cloned();
                        ensure!(got == want, "{} step {}: get({}) = {:?}, Vec::get gives {:?}", name, step, i, got, want);
                    }
                    Op::GetRange(r) => {
                        let want: Option<Vec<Vec<u32>>> = model_range(r, model.len()).map(|x| model[x].to_vec());
                        if want.is_none() && !model.is_empty() {
                            interesting = true;
                        }
                        let got: Option<Vec<Vec<u32>>> = with_range!(r, x => soa.get(x).map(|s| s.into_iter().map(|c| bits(c.copied())).collect()));
                        ensure!(got == want, "{} step {}: get({:?}) = {:?}, slice::get gives {:?}", name, step, r, got, want);
                    }
                    Op::GetMutWrite(i, c) => {
                        match soa.get_mut(*i) {
                            Some(mut m) => {
                                ensure!(*i < model.len(), "{} step {}: get_mut({}) is Some for length {}", name, step, i, model.len());
                                m.set(mk(c));
                                model[*i] = key(c);
                            }
                            None => ensure!(*i >= model.len(), "{} step {}: get_mut({}) is None for length {}", name, step, i, model.len()),
                        }
                    }
                    Op::GetMutRangeWrite(r, c) => {
                        let want = model_range(r, model.len());
                        let got = with_range!(r, x => match soa.get_mut(x) {
                            Some(s) => {
                                let mut n = 0;
                                for mut m in s {
                                    m.set(mk(c));
                                    n += 1;
                                }
                                Some(n)
                            }
                            None => None,
                        });
                        ensure!(got == want.clone().map(|x| x.len()), "{} step {}: get_mut({:?}) covered {:?} colours, slice::get_mut covers {:?}", name, step, r, got, want.clone().map(|x| x.len()));
                        if let Some(x) = want {
                            for m in &mut model[x] {
                                *m = key(c);
                            }
                        }
                    }
                    Op::Iter(script) => {
                        let mut it = soa.iter();
                        let mut mit = model.iter();
                        ensure!(it.len() == mit.len(), "{} step {}: iter().len() = {} expected {}", name, step, it.len(), mit.len());
                        for front in script {
                            let (g, w) = if *front { (it.next().map(|c| bits(c.copied())), mit.next().cloned()) } else { (it.next_back().map(|c| bits(c.copied())), mit.next_back().cloned()) };
                            ensure!(g == w, "{} step {}: interleaved iteration yielded {:?}, a Vec yields {:?}", name, step, g, w);
                            ensure!(it.len() == mit.len() && it.size_hint() == mit.size_hint(), "{} step {}: iterator len {} / size_hint {:?}, a Vec gives {} / {:?}", name, step, it.len(), it.size_hint(), mit.len(), mit.size_hint());
                        }
                        let rest: Vec<Vec<u32>> = it.map(|c| bits(c.copied())).collect();
                        let wrest: Vec<Vec<u32>> = mit.cloned().collect();
                        ensure!(rest == wrest, "{} step {}: rest of the iteration {:?} expected {:?}", name, step, rest, wrest);
                        ensure!(soa.iter().count() == model.len(), "{} step {}: iter().count()", name, step);
                    }
                    Op::IterRev => {
                        let got: Vec<Vec<u32>> = soa.iter().rev().map(|c| bits(c.copied())).collect();
                        let want: Vec<Vec<u32>> = model.iter().rev().cloned().collect();
                        ensure!(got == want, "{} step {}: iter().rev() yielded {:?}, a Vec yields {:?}", name, step, got, want);
                    }
                    Op::IterMutWrite(mask) => {
                        for mut m in soa.iter_mut() {
                            let mut b = bits(m.copied());
                            b[0] ^= mask;
                            let mut c: Col = [0; 5];
                            c[..K].copy_from_slice(&b);
                            m.set(mk(&c));
                        }
                        for m in model.iter_mut() {
                            m[0] ^= mask;
                        }
                    }
                    Op::IterMutRevWrite(mask) => {
                        // write a position-dependent value while walking backwards
                        for (i, mut m) in soa.iter_mut().rev().enumerate() {
                            let mut b = bits(m.copied());
                            b[K - 1] ^= mask.wrapping_add(i as u32);
                            let mut c: Col = [0; 5];
                            c[..K].copy_from_slice(&b);
                            m.set(mk(&c));
                        }
                        for (i, m) in model.iter_mut().rev().enumerate() {
                            m[K - 1] ^= mask.wrapping_add(i as u32);
                        }
                    }
                    Op::IntoIterOwned(rev) => {
                        let copy: $V = (&soa).into_iter().map(|c| c.copied()).collect();
                        let got: Vec<Vec<u32>> = if *rev { copy.into_iter().rev().map(|c| bits(c)).collect() } else { copy.into_iter().map(|c| bits(c)).collect() };
                        let want: Vec<Vec<u32>> = if *rev { model.iter().rev().cloned().collect() } else { model.clone() };
                        ensure!(got == want, "{} step {}: owned into_iter (rev = {}) yielded {:?} expected {:?}", name, step, rev, got, want);
                    }
                    Op::Views => {
                        {
                            let $sv = &soa;
                            let sl: $SL = $slices;
                            let got: Vec<Vec<u32>> = sl.into_iter().map(|c| bits(c.copied())).collect();
                            ensure!(got == model, "{} step {}: slice view iterates {:?} expected {:?}", name, step, got, model);
                        }
                        {
                            let $bv: $V = (&soa).into_iter().map(|c| c.copied()).collect();
                            let mut bx: $BX = $boxed;
                            let got: Vec<Vec<u32>> = (&bx).into_iter().rev().map(|c| bits(c.copied())).collect();
                            let want: Vec<Vec<u32>> = model.iter().rev().cloned().collect();
                            ensure!(got == want, "{} step {}: boxed-slice view (reversed) iterates {:?} expected {:?}", name, step, got, want);
                            let n = (&mut bx).into_iter().count();
                            ensure!(n == model.len(), "{} step {}: boxed-slice mutable iteration count {}", name, step, n);
                        }
                        if model.len() >= 2 {
                            let $av = &soa;
                            let arr: $ARR = $array;
                            let got: Vec<Vec<u32>> = (&arr).into_iter().map(|c| bits(c.copied())).collect();
                            ensure!(got == model[..2], "{} step {}: array view iterates {:?} expected {:?}", name, step, got, &model[..2]);
                            let got: Vec<Vec<u32>> = arr.into_iter().rev().map(|c| bits(c)).collect();
                            let want: Vec<Vec<u32>> = model[..2].iter().rev().cloned().collect();
                            ensure!(got == want, "{} step {}: owned array (reversed) iterates {:?} expected {:?}", name, step, got, want);
                        }
                    }
                }
                same_state!(step);
            }
            obs.nontrivial_if(kinds.len() >= 3 && interesting);
            Ok(())
        }
    };
}

fn f(b: u32) -> f32 {
    f32::from_bits(b)
}

soa_impl!(run_rgb, "Rgb<Vec<f32>>", 3, Srgb<Vec<f32>>, Srgb<f32>, Srgb<&[f32]>, Srgb<Box<[f32]>>, Srgb<[f32; 2]>,
    lens: |v| vec![v.red.len(), v.green.len(), v.blue.len()],
    mk: |b| Srgb::new(f(b[0]), f(b[1]), f(b[2])),
    bits: |c| vec![c.red.to_bits(), c.green.to_bits(), c.blue.to_bits()],
    slices: |v| Srgb::new(&v.red[..], &v.green[..], &v.blue[..]),
    boxed: |v| Srgb::new(v.red.into_boxed_slice(), v.green.into_boxed_slice(), v.blue.into_boxed_slice()),
    array: |v| Srgb::new([v.red[0], v.red[1]], [v.green[0], v.green[1]], [v.blue[0], v.blue[1]]));
soa_impl!(run_rgba, "Rgba<Vec<f32>>", 4, Alpha<Srgb<Vec<f32>>, Vec<f32>>, Alpha<Srgb<f32>, f32>, Alpha<Srgb<&[f32]>, &[f32]>, Alpha<Srgb<Box<[f32]>>, Box<[f32]>>, Alpha<Srgb<[f32; 2]>, [f32; 2]>,
    lens: |v| vec![v.color.red.len(), v.color.green.len(), v.color.blue.len(), v.alpha.len()],
    mk: |b| Alpha { color: Srgb::new(f(b[0]), f(b[1]), f(b[2])), alpha: f(b[3]) },
    bits: |c| vec![c.color.red.to_bits(), c.color.green.to_bits(), c.color.blue.to_bits(), c.alpha.to_bits()],
    slices: |v| Alpha { color: Srgb::new(&v.color.red[..], &v.color.green[..], &v.color.blue[..]), alpha: &v.alpha[..] },
    boxed: |v| Alpha { color: Srgb::new(v.color.red.into_boxed_slice(), v.color.green.into_boxed_slice(), v.color.blue.into_boxed_slice()), alpha: v.alpha.into_boxed_slice() },
    array: |v| Alpha { color: Srgb::new([v.color.red[0], v.color.red[1]], [v.color.green[0], v.color.green[1]], [v.color.blue[0], v.color.blue[1]]), alpha: [v.alpha[0], v.alpha[1]] });
soa_impl!(run_luma, "Luma<Vec<f32>>", 1, SrgbLuma<Vec<f32>>, SrgbLuma<f32>, SrgbLuma<&[f32]>, SrgbLuma<Box<[f32]>>, SrgbLuma<[f32; 2]>,
    lens: |v| vec![v.luma.len()],
    mk: |b| SrgbLuma::new(f(b[0])),
    bits: |c| vec![c.luma.to_bits()],
    slices: |v| SrgbLuma::new(&v.luma[..]),
    boxed: |v| SrgbLuma::new(v.luma.into_boxed_slice()),
    array: |v| SrgbLuma::new([v.luma[0], v.luma[1]]));
soa_impl!(run_lumaa, "Lumaa<Vec<f32>>", 2, Alpha<SrgbLuma<Vec<f32>>, Vec<f32>>, Alpha<SrgbLuma<f32>, f32>, Alpha<SrgbLuma<&[f32]>, &[f32]>, Alpha<SrgbLuma<Box<[f32]>>, Box<[f32]>>, Alpha<SrgbLuma<[f32; 2]>, [f32; 2]>,
    lens: |v| vec![v.color.luma.len(), v.alpha.len()],
    mk: |b| Alpha { color: SrgbLuma::new(f(b[0])), alpha: f(b[1]) },
    bits: |c| vec![c.color.luma.to_bits(), c.alpha.to_bits()],
    slices: |v| Alpha { color: SrgbLuma::new(&v.color.luma[..]), alpha: &v.alpha[..] },
    boxed: |v| Alpha { color: SrgbLuma::new(v.color.luma.into_boxed_slice()), alpha: v.alpha.into_boxed_slice() },
    array: |v| Alpha { color: SrgbLuma::new([v.color.luma[0], v.color.luma[1]]), alpha: [v.alpha[0], v.alpha[1]] });
// hue first
soa_impl!(run_hsv, "Hsv<Vec<f32>>", 3, Hsv<ESrgb, Vec<f32>>, Hsv<ESrgb, f32>, Hsv<ESrgb, &[f32]>, Hsv<ESrgb, Box<[f32]>>, Hsv<ESrgb, [f32; 2]>,
    lens: |v| vec![v.hue.iter().count(), v.saturation.len(), v.value.len()],
    mk: |b| Hsv::new(f(b[0]), f(b[1]), f(b[2])),
    bits: |c| vec![c.hue.into_inner().to_bits(), c.saturation.to_bits(), c.value.to_bits()],
    slices: |v| v.get(..).unwrap(),
    boxed: |v| Hsv::new(v.hue.into_inner().into_boxed_slice(), v.saturation.into_boxed_slice(), v.value.into_boxed_slice()),
    array: |v| { let h = v.hue.clone().into_inner(); Hsv::new([h[0], h[1]], [v.saturation[0], v.saturation[1]], [v.value[0], v.value[1]]) });
soa_impl!(run_hsva, "Hsva<Vec<f32>>", 4, Alpha<Hsv<ESrgb, Vec<f32>>, Vec<f32>>, Alpha<Hsv<ESrgb, f32>, f32>, Alpha<Hsv<ESrgb, &[f32]>, &[f32]>, Alpha<Hsv<ESrgb, Box<[f32]>>, Box<[f32]>>, Alpha<Hsv<ESrgb, [f32; 2]>, [f32; 2]>,
    lens: |v| vec![v.color.hue.iter().count(), v.color.saturation.len(), v.color.value.len(), v.alpha.len()],
    mk: |b| Alpha { color: Hsv::new(f(b[0]), f(b[1]), f(b[2])), alpha: f(b[3]) },
    bits: |c| vec![c.color.hue.into_inner().to_bits(), c.color.saturation.to_bits(), c.color.value.to_bits(), c.alpha.to_bits()],
    slices: |v| v.get(..).unwrap(),
    boxed: |v| Alpha { color: Hsv::new(v.color.hue.into_inner().into_boxed_slice(), v.color.saturation.into_boxed_slice(), v.color.value.into_boxed_slice()), alpha: v.alpha.into_boxed_slice() },
    array: |v| { let h = v.color.hue.clone().into_inner(); Alpha { color: Hsv::new([h[0], h[1]], [v.color.saturation[0], v.color.saturation[1]], [v.color.value[0], v.color.value[1]]), alpha: [v.alpha[0], v.alpha[1]] } });
// hue last
soa_impl!(run_lch, "Lch<Vec<f32>>", 3, Lch<D65, Vec<f32>>, Lch<D65, f32>, Lch<D65, &[f32]>, Lch<D65, Box<[f32]>>, Lch<D65, [f32; 2]>,
    lens: |v| vec![v.l.len(), v.chroma.len(), v.hue.iter().count()],
    mk: |b| Lch::new(f(b[0]), f(b[1]), f(b[2])),
    bits: |c| vec![c.l.to_bits(), c.chroma.to_bits(), c.hue.into_inner().to_bits()],
    slices: |v| v.get(..).unwrap(),
    boxed: |v| Lch::new(v.l.into_boxed_slice(), v.chroma.into_boxed_slice(), v.hue.into_inner().into_boxed_slice()),
    array: |v| { let h = v.hue.clone().into_inner(); Lch::new([v.l[0], v.l[1]], [v.chroma[0], v.chroma[1]], [h[0], h[1]]) });
soa_impl!(run_lcha, "Lcha<Vec<f32>>", 4, Alpha<Lch<D65, Vec<f32>>, Vec<f32>>, Alpha<Lch<D65, f32>, f32>, Alpha<Lch<D65, &[f32]>, &[f32]>, Alpha<Lch<D65, Box<[f32]>>, Box<[f32]>>, Alpha<Lch<D65, [f32; 2]>, [f32; 2]>,
    lens: |v| vec![v.color.l.len(), v.color.chroma.len(), v.color.hue.iter().count(), v.alpha.len()],
    mk: |b| Alpha { color: Lch::new(f(b[0]), f(b[1]), f(b[2])), alpha: f(b[3]) },
    bits: |c| vec![c.color.l.to_bits(), c.color.chroma.to_bits(), c.color.hue.into_inner().to_bits(), c.alpha.to_bits()],
    slices: |v| v.get(..).unwrap(),
    boxed: |v| Alpha { color: Lch::new(v.color.l.into_boxed_slice(), v.color.chroma.into_boxed_slice(), v.color.hue.into_inner().into_boxed_slice()), alpha: v.alpha.into_boxed_slice() },
    array: |v| { let h = v.color.hue.clone().into_inner(); Alpha { color: Lch::new([v.color.l[0], v.color.l[1]], [v.color.chroma[0], v.color.chroma[1]], [h[0], h[1]]), alpha: [v.alpha[0], v.alpha[1]] } });
// no phantom type
soa_impl!(run_oklab, "Oklab<Vec<f32>>", 3, Oklab<Vec<f32>>, Oklab<f32>, Oklab<&[f32]>, Oklab<Box<[f32]>>, Oklab<[f32; 2]>,
    lens: |v| vec![v.l.len(), v.a.len(), v.b.len()],
    mk: |b| Oklab::new(f(b[0]), f(b[1]), f(b[2])),
    bits: |c| vec![c.l.to_bits(), c.a.to_bits(), c.b.to_bits()],
    slices: |v| Oklab::new(&v.l[..], &v.a[..], &v.b[..]),
    boxed: |v| Oklab::new(v.l.into_boxed_slice(), v.a.into_boxed_slice(), v.b.into_boxed_slice()),
    array: |v| Oklab::new([v.l[0], v.l[1]], [v.a[0], v.a[1]], [v.b[0], v.b[1]]));
soa_impl!(run_oklaba, "Oklaba<Vec<f32>>", 4, Alpha<Oklab<Vec<f32>>, Vec<f32>>, Alpha<Oklab<f32>, f32>, Alpha<Oklab<&[f32]>, &[f32]>, Alpha<Oklab<Box<[f32]>>, Box<[f32]>>, Alpha<Oklab<[f32; 2]>, [f32; 2]>,
    lens: |v| vec![v.color.l.len(), v.color.a.len(), v.color.b.len(), v.alpha.len()],
    mk: |b| Alpha { color: Oklab::new(f(b[0]), f(b[1]), f(b[2])), alpha: f(b[3]) },
    bits: |c| vec![c.color.l.to_bits(), c.color.a.to_bits(), c.color.b.to_bits(), c.alpha.to_bits()],
    slices: |v| Alpha { color: Oklab::new(&v.color.l[..], &v.color.a[..], &v.color.b[..]), alpha: &v.alpha[..] },
    boxed: |v| Alpha { color: Oklab::new(v.color.l.into_boxed_slice(), v.color.a.into_boxed_slice(), v.color.b.into_boxed_slice()), alpha: v.alpha.into_boxed_slice() },
    array: |v| Alpha { color: Oklab::new([v.color.l[0], v.color.l[1]], [v.color.a[0], v.color.a[1]], [v.color.b[0], v.color.b[1]]), alpha: [v.alpha[0], v.alpha[1]] });

const RUNNERS: [fn(&Program, &mut Obs) -> PropResult; 10] = [run_rgb, run_rgba, run_luma, run_lumaa, run_hsv, run_hsva, run_lch, run_lcha, run_oklab, run_oklaba];

pub fn run(p: &Program, obs: &mut Obs) -> PropResult {
    for op in &p.ops {
        obs.class(match op {
            Op::Push(_) => "push",
            Op::Pop => "pop",
            Op::Extend(_) => "extend",
            Op::Collect(_) => "collect",
            Op::Clear => "clear",
            Op::WithCapacity(_) => "with_capacity",
            Op::Drain { forget: true, .. } => "drain+forget",
            Op::Drain { r: R::ToIncl(_), .. } | Op::Drain { r: R::RangeIncl(..), .. } => "drain(inclusive)",
            Op::Drain { .. } => "drain",
            Op::Get(_) => "get(index)",
            Op::GetRange(_) => "get(range)",
            Op::GetMutWrite(..) => "get_mut(index)+write",
            Op::GetMutRangeWrite(..) => "get_mut(range)+write",
            Op::Iter(_) => "iter interleaved",
            Op::IterRev => "iter().rev()",
            Op::IterMutWrite(_) => "iter_mut+write",
            Op::IterMutRevWrite(_) => "iter_mut().rev()+write",
            Op::IntoIterOwned(_) => "into_iter owned",
            Op::Views => "views",
        });
    }
    RUNNERS[p.ty](p, obs)
}

fn col() -> BoxedStrategy<Col> {
    // small distinguishable values so that order mistakes are visible; occasional NaN payloads
    proptest::array::uniform5(prop_oneof![6 => (0u32..64).prop_map(|k| (k as f32).to_bits()), 2 => any::<u32>(), 1 => Just(f32::NAN.to_bits() | 5)]).boxed()
}
fn range() -> BoxedStrategy<R> {
    let i = || 0usize..12;
    prop_oneof![2 => Just(R::Full), 2 => i().prop_map(R::To), 2 => i().prop_map(R::ToIncl), 2 => i().prop_map(R::From), 4 => (i(), i()).prop_map(|(a, b)| R::Range(a, b)), 4 => (i(), i()).prop_map(|(a, b)| R::RangeIncl(a, b)), 1 => Just(R::ToIncl(usize::MAX)), 1 => (i()).prop_map(|a| R::RangeIncl(a, usize::MAX))].boxed()
}
fn op() -> BoxedStrategy<Op> {
    let script = || proptest::collection::vec(any::<bool>(), 0..6);
    prop_oneof![
        6 => col().prop_map(Op::Push),
        3 => Just(Op::Pop),
        2 => proptest::collection::vec(col(), 0..5).prop_map(Op::Extend),
        1 => proptest::collection::vec(col(), 0..8).prop_map(Op::Collect),
        1 => Just(Op::Clear),
        1 => (0usize..6).prop_map(Op::WithCapacity),
        5 => (range(), script(), prop_oneof![4 => Just(false), 1 => Just(true)]).prop_map(|(r, script, forget)| Op::Drain { r, script, forget }),
        3 => (0usize..12).prop_map(Op::Get),
        3 => range().prop_map(Op::GetRange),
        2 => (0usize..12, col()).prop_map(|(i, c)| Op::GetMutWrite(i, c)),
        2 => (range(), col()).prop_map(|(r, c)| Op::GetMutRangeWrite(r, c)),
        3 => script().prop_map(Op::Iter),
        2 => Just(Op::IterRev),
        2 => any::<u32>().prop_map(Op::IterMutWrite),
        2 => any::<u32>().prop_map(Op::IterMutRevWrite),
        1 => any::<bool>().prop_map(Op::IntoIterOwned),
        2 => Just(Op::Views),
    ]
    .boxed()
}

fn main() {
    let mut h = Harness::new("C18");
    h.rule("generated programs = initial collection (0..8 colours) + up to 40 (thorough 200) operations from {push, pop, extend, collect, clear, with_capacity, drain(range) consumed by a generated next/next_back script and then dropped or mem::forget-ten, get(index|range), get_mut(index|range)+write, iter with interleaved next/next_back and len/size_hint at every step, iter().rev(), iter_mut(+write, also reversed), owned into_iter, slice/boxed-slice/array views} with ranges of all six kinds incl. empty, reversed, out-of-range and usize::MAX ends; 10 collection types (Rgb, Luma, Hsv [hue first], Lch [hue last], Oklab [no phantom], each bare and Alpha) with f32 bit patterns incl. NaN. Oracle: a Vec of colours subjected to the same operations: after every step all component collections (hue and alpha included) have the model's length and the contents match bitwise in order; return values, yielded sequences, lengths, size hints match; an operation panics iff the Vec operation panics and the state is unchanged then. Non-trivial = at least 3 distinct operation kinds including a drain or an out-of-range access on a non-empty collection; distinct by hash.");
    h.assume("reference model = Vec<colour bits>; debug assertions of the crate are off in this (release) build, so disagreements surface through the model comparison");
    let miri = std::env::var("PV_MIRI").is_ok();
    let maxops = if miri { 30 } else if h.is_thorough() { 200 } else { 40 };
    let n = if miri { 40 } else { h.n(1_500_000, 20_000_000) };
    h.prop(
        "programs",
        n,
        move || (0usize..10, proptest::collection::vec(col(), 0..8), proptest::collection::vec(op(), 0..maxops)).prop_map(|(ty, init, ops)| Program { ty, init, ops }),
        run,
    );
    if !miri {
        for c in ["drain(inclusive)", "drain+forget", "iter().rev()", "iter_mut().rev()+write", "get(range)", "views"] {
            h.require_class("programs", c, 1000);
        }
    }
    h.finish();
}
