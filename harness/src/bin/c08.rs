//! C08 — blending and compositing follow the W3C formulas and Porter-Duff identities.
use palette::blend::{Blend, BlendWith, Compose, Equation, Equations, Parameter, Parameters, PreAlpha, Premultiply};
use palette::white_point::D65;
use palette::{Alpha, Lab, LinSrgb, LinSrgba, SrgbLuma, Xyz};
use proptest::prelude::*;
use pv::ensure;
use pv::runner::{Fail, Harness, Obs, PropResult};
use serde::{Deserialize, Serialize};

// ---------------- W3C reference (f64) ----------------
const MODES: [&str; 11] = ["multiply", "screen", "overlay", "darken", "lighten", "dodge", "burn", "hard_light", "soft_light", "difference", "exclusion"];
const OPS: [&str; 6] = ["over", "inside", "outside", "atop", "xor", "plus"];

/// B(Cb, Cs) of the W3C Compositing and Blending spec; returns (value, branch label)
fn b_fn(mode: usize, cb: f64, cs: f64) -> (f64, &'static str) {
    fn hard_light(cb: f64, cs: f64) -> (f64, &'static str) {
        if cs <= 0.5 {
            (cb * 2.0 * cs, "multiply-half")
        } else {
            (cb + (2.0 * cs - 1.0) - cb * (2.0 * cs - 1.0), "screen-half")
        }
    }
    match mode {
        0 => (cb * cs, "-"),
        1 => (cb + cs - cb * cs, "-"),
        2 => hard_light(cs, cb),
        3 => (cb.min(cs), "-"),
        4 => (cb.max(cs), "-"),
        5 => {
            if cb == 0.0 {
                (0.0, "backdrop-zero")
            } else if cs == 1.0 {
                (1.0, "source-one")
            } else {
                ((cb / (1.0 - cs)).min(1.0), if cb / (1.0 - cs) >= 1.0 { "saturated" } else { "quotient" })
            }
        }
        6 => {
            if cb == 1.0 {
                (1.0, "backdrop-one")
            } else if cs == 0.0 {
                (0.0, "source-zero")
            } else {
                (1.0 - ((1.0 - cb) / cs).min(1.0), if (1.0 - cb) / cs >= 1.0 { "saturated" } else { "quotient" })
            }
        }
        7 => hard_light(cb, cs),
        8 => {
            if cs <= 0.5 {
                (cb - (1.0 - 2.0 * cs) * cb * (1.0 - cb), "source-low")
            } else {
                let d = if cb <= 0.25 { ((16.0 * cb - 12.0) * cb + 4.0) * cb } else { cb.sqrt() };
                (cb + (2.0 * cs - 1.0) * (d - cb), if cb <= 0.25 { "source-high-poly" } else { "source-high-sqrt" })
            }
        }
        9 => ((cb - cs).abs(), "-"),
        10 => (cb + cs - 2.0 * cb * cs, "-"),
        _ => unreachable!(),
    }
}

/// Conditioning of B in its arguments: dodge divides by (1 - Cs), burn by Cs. An input error of
/// `eps` (one rounding of the component, or of the premultiply/unpremultiply round trip the
/// Alpha and PreAlpha forms go through) moves the result by about eps * cond.
fn cond(mode: usize, cb: f64, cs: f64) -> f64 {
    let c = match mode {
        5 => cb / (1.0 - cs).abs().max(1e-300).powi(2) + 1.0 / (1.0 - cs).abs().max(1e-300) + 1.0,
        6 => (1.0 - cb) / cs.abs().max(1e-300).powi(2) + 1.0 / cs.abs().max(1e-300) + 1.0,
        _ => 1.0,
    };
    c.min(1e300)
}

/// premultiplied result of a separable blend: source (cs premultiplied, as) over backdrop (cb, ab)
fn ref_blend(mode: usize, s: [f64; 4], d: [f64; 4], obs: Option<&mut Obs>) -> [f64; 4] {
    // s, d: non-premultiplied colour + alpha
    let (al_s, al_d) = (s[3], d[3]);
    let mut out = [0.0; 4];
    let mut branch = "-";
    for i in 0..3 {
        let (b, br) = b_fn(mode, d[i], s[i]);
        branch = br;
        out[i] = s[i] * al_s * (1.0 - al_d) + al_s * al_d * b + (1.0 - al_s) * d[i] * al_d;
    }
    if let Some(o) = obs {
        o.class(pv::runner::intern(&format!("{}:{}", MODES[mode], branch)));
    }
    out[3] = al_s + al_d - al_s * al_d;
    out
}

/// Porter-Duff on premultiplied inputs
fn ref_compose(op: usize, sp: [f64; 4], dp: [f64; 4]) -> [f64; 4] {
    let (al_s, al_d) = (sp[3], dp[3]);
    let (fa, fb) = match op {
        0 => (1.0, 1.0 - al_s),
        1 => (al_d, 0.0),
        2 => (1.0 - al_d, 0.0),
        3 => (al_d, 1.0 - al_s),
        4 => (1.0 - al_d, 1.0 - al_s),
        5 => (1.0, 1.0),
        _ => unreachable!(),
    };
    let mut out = [0.0; 4];
    for i in 0..3 {
        out[i] = sp[i] * fa + dp[i] * fb;
    }
    out[3] = (al_s * fa + al_d * fb).clamp(0.0, 1.0);
    out
}

fn premul(c: [f64; 4]) -> [f64; 4] {
    [c[0] * c[3], c[1] * c[3], c[2] * c[3], c[3]]
}
fn unpremul(c: [f64; 4]) -> [f64; 4] {
    if c[3].is_normal() {
        [c[0] / c[3], c[1] / c[3], c[2] / c[3], c[3]]
    } else {
        [0.0, 0.0, 0.0, c[3]]
    }
}

#[derive(Debug, Clone, Serialize, Deserialize)]
struct Case {
    s: [f64; 4],
    d: [f64; 4],
}

fn maxdiff(a: &[f64], b: &[f64]) -> f64 {
    a.iter().zip(b).map(|(x, y)| if x.is_nan() || y.is_nan() { f64::INFINITY } else { (x - y).abs() }).fold(0.0, f64::max)
}

macro_rules! all_modes {
    ($a:expr, $b:expr) => {{
        let (a, b) = ($a, $b);
        [a.multiply(b), a.screen(b), a.overlay(b), a.darken(b), a.lighten(b), a.dodge(b), a.burn(b), a.hard_light(b), a.soft_light(b), a.difference(b), a.exclusion(b)]
    }};
}
macro_rules! all_ops {
    ($a:expr, $b:expr) => {{
        let (a, b) = ($a, $b);
        [a.over(b), a.inside(b), a.outside(b), a.atop(b), a.xor(b), a.plus(b)]
    }};
}

fn in_range(v: &[f64], tol: f64) -> bool {
    v.iter().all(|x| *x >= -tol && *x <= 1.0 + tol)
}

fn plus_key(op: usize, sp: [f64; 4], dp: [f64; 4]) -> bool {
    op == 5 && (0..3).any(|i| sp[i] + dp[i] > 1.0 || sp[i] + dp[i] > (sp[3] + dp[3]).min(1.0))
}

/// f64 LinSrgb in the three input forms against the reference
fn point_f64(c: &Case, obs: &mut Obs) -> PropResult {
    let (s, d) = (c.s, c.d);
    obs.nontrivial_if(s[3] > 0.0 && s[3] < 1.0 && d[3] > 0.0 && d[3] < 1.0);
    let tol = 1e-12;
    let mut deferred: Option<Fail> = None;
    let sa = LinSrgba::<f64>::new(s[0], s[1], s[2], s[3]);
    let da = LinSrgba::<f64>::new(d[0], d[1], d[2], d[3]);
    let (sp, dp) = (sa.premultiply(), da.premultiply());
    let p4 = |x: PreAlpha<LinSrgb<f64>>| [x.color.red, x.color.green, x.color.blue, x.alpha];
    let a4 = |x: LinSrgba<f64>| [x.red, x.green, x.blue, x.alpha];
    ensure!(maxdiff(&p4(sp), &premul(s)) == 0.0, "premultiply({:?}) = {:?}", s, p4(sp));
    // ---- blend modes ----
    let got_pre = all_modes!(sp, dp);
    let got_alpha = all_modes!(sa, da);
    let got_opaque = all_modes!(sa.color, da.color);
    for m in 0..11 {
        // PreAlpha inputs: the colour the functions see is the unpremultiplied one
        let (su, du) = (unpremul(premul(s)), unpremul(premul(d)));
        let want = ref_blend(m, su, du, Some(obs));
        let g = p4(got_pre[m]);
        let ga = a4(got_alpha[m]);
        let wa = unpremul(want);
        let scale = if want[3] > 0.0 { 1.0 / want[3] } else { 1.0 };
        for i in 0..4 {
            // well-conditioned: 1e-12; dodge/burn: plus the propagated rounding of their divisor
            let k = if i < 3 { cond(m, du[i], su[i]) } else { 1.0 };
            let t = (tol + 1e-15 * k * su[3] * du[3]).min(1.0);
            let e = (g[i] - want[i]).abs();
            if k <= 1.0 {
                obs.err("blend_pre_f64", e);
            }
            ensure!(e <= t, "PreAlpha {}: source {:?} backdrop {:?} = {:?} but the W3C formula gives {:?} (component {}, tolerance {:e})", MODES[m], s, d, g, want, i, t);
            // Alpha inputs: same, unpremultiplied at the end
            let ta = (1e-9 + 4e-12 * scale + 1e-15 * k * scale).min(1.0);
            ensure!((ga[i] - wa[i]).abs() <= ta, "Alpha {}: source {:?} backdrop {:?} = {:?} but the W3C formula (unpremultiplied) gives {:?} (component {}, tolerance {:e})", MODES[m], s, d, ga, wa, i, ta);
        }
        ensure!(in_range(&g, tol), "PreAlpha {}: result {:?} outside [0,1] for source {:?} backdrop {:?}", MODES[m], g, s, d);
        // opaque inputs reduce to the plain blend function
        let go = got_opaque[m];
        for i in 0..3 {
            let w = b_fn(m, d[i], s[i]).0;
            let gi = [go.red, go.green, go.blue][i];
            ensure!((gi - w).abs() <= tol, "opaque {}: B(backdrop {}, source {}) = {} expected {}", MODES[m], d[i], s[i], gi, w);
            ensure!(gi >= -tol && gi <= 1.0 + tol, "opaque {} result {} outside [0,1]", MODES[m], gi);
        }
        // commutative modes
        if matches!(m, 0 | 1 | 3 | 4 | 9 | 10) {
            let rev = p4(match m {
                0 => dp.multiply(sp),
                1 => dp.screen(sp),
                3 => dp.darken(sp),
                4 => dp.lighten(sp),
                9 => dp.difference(sp),
                _ => dp.exclusion(sp),
            });
            ensure!(maxdiff(&g, &rev) <= 1e-15, "{} is not symmetric: {:?} vs {:?}", MODES[m], g, rev);
        }
    }
    // ---- Porter-Duff ----
    let got_pre = all_ops!(sp, dp);
    let got_alpha = all_ops!(sa, da);
    let got_opaque = all_ops!(sa.color, da.color);
    for o in 0..6 {
        let want = ref_compose(o, premul(s), premul(d));
        let g = p4(got_pre[o]);
        let e = maxdiff(&g, &want);
        obs.err("compose_pre_f64", e);
        ensure!(e <= tol, "PreAlpha {}: source {:?} backdrop {:?} = {:?} but Porter-Duff gives {:?}", OPS[o], s, d, g, want);
        if !in_range(&g, tol) {
            let msg = format!("PreAlpha {}: result {:?} outside [0,1] for source {:?} backdrop {:?}", OPS[o], g, s, d);
            if plus_key(o, premul(s), premul(d)) {
                // known finding: reported after all other clauses of this case have been checked
                deferred = Some(Fail::keyed("C08:plus-colour-unsaturated", msg));
            } else {
                return Err(Fail::new(msg));
            }
        }
        let ga = a4(got_alpha[o]);
        let wa = unpremul(want);
        let scale = if want[3] > 0.0 { 1.0 / want[3] } else { 1.0 };
        ensure!(maxdiff(&ga, &wa) <= 1e-9 + 4e-12 * scale, "Alpha {}: source {:?} backdrop {:?} = {:?} but Porter-Duff (unpremultiplied) gives {:?}", OPS[o], s, d, ga, wa);
        // opaque form == Alpha form with alpha 1
        let wo = unpremul(ref_compose(o, [s[0], s[1], s[2], 1.0], [d[0], d[1], d[2], 1.0]));
        let go = [got_opaque[o].red, got_opaque[o].green, got_opaque[o].blue];
        ensure!(maxdiff(&go, &wo[..3]) <= tol, "opaque {}: {:?} expected {:?}", OPS[o], go, &wo[..3]);
    }
    // xor and plus are symmetric
    ensure!(maxdiff(&p4(sp.xor(dp)), &p4(dp.xor(sp))) <= 1e-15 && maxdiff(&p4(sp.plus(dp)), &p4(dp.plus(sp))) <= 1e-15, "xor / plus not symmetric");
    // ---- identities in premultiplied terms ----
    let transparent = PreAlpha { color: LinSrgb::<f64>::new(0.0, 0.0, 0.0), alpha: 0.0 };
    ensure!(maxdiff(&p4(transparent.over(dp)), &p4(dp)) <= 1e-15, "transparent source over backdrop {:?} = {:?}", p4(dp), p4(transparent.over(dp)));
    let opaque_src = PreAlpha { color: sa.color, alpha: 1.0 };
    ensure!(maxdiff(&p4(opaque_src.over(dp)), &[s[0], s[1], s[2], 1.0]) <= 1e-15, "opaque source over anything must be the source: {:?}", p4(opaque_src.over(dp)));
    // ---- premultiply / unpremultiply ----
    let back = a4(sp.unpremultiply());
    if s[3].is_normal() {
        for i in 0..3 {
            ensure!((back[i] - s[i]).abs() <= 2.0 * pv::gen::ulp64(s[i].max(1e-300)), "unpremultiply(premultiply({:?})) = {:?}", s, back);
        }
        ensure!(back[3] == s[3], "alpha changed by premultiply round trip");
    } else {
        ensure!(back[..3] == [0.0, 0.0, 0.0] && back[3] == s[3], "alpha 0 must unpremultiply to a zero colour: {:?}", back);
    }
    let via_from: LinSrgba<f64> = sp.into();
    ensure!(a4(via_from) == back, "From<PreAlpha> for Alpha differs from unpremultiply");
    // every route out of the premultiplied form: PreAlpha::unpremultiply, Premultiply::unpremultiply, From for the bare colour
    let bare: LinSrgb<f64> = sp.into();
    ensure!([bare.red, bare.green, bare.blue] == [back[0], back[1], back[2]], "LinSrgb::from(PreAlpha {:?}) = {:?} but unpremultiply gives {:?}", p4(sp), bare, &back[..3]);
    let (c2, a2) = <LinSrgb<f64> as palette::blend::Premultiply>::unpremultiply(sp);
    ensure!([c2.red, c2.green, c2.blue, a2] == back, "Premultiply::unpremultiply differs from PreAlpha::unpremultiply");
    let pre2 = <LinSrgb<f64> as palette::blend::Premultiply>::premultiply(LinSrgb::new(s[0], s[1], s[2]), s[3]);
    ensure!(p4(pre2) == p4(sp), "Premultiply::premultiply differs from Alpha::premultiply");
    let pre3: PreAlpha<LinSrgb<f64>> = sa.into();
    ensure!(p4(pre3) == p4(sp), "From<Alpha> for PreAlpha differs from premultiply");
    {
        // the same for the other colour types that implement Premultiply
        macro_rules! routes {
            ($C:ty, $new:expr, $name:expr) => {{
                let c: $C = $new;
                let pre = <$C as palette::blend::Premultiply>::premultiply(c, s[3]);
                let un = pre.unpremultiply();
                let bare: $C = pre.into();
                ensure!(bare == un.color, "{}::from(PreAlpha) = {:?} but unpremultiply gives {:?} (alpha {})", $name, bare, un.color, s[3]);
                let (c2, _) = <$C as palette::blend::Premultiply>::unpremultiply(pre);
                ensure!(c2 == un.color, "{}: Premultiply::unpremultiply differs from PreAlpha::unpremultiply", $name);
            }};
        }
        routes!(palette::Xyz<palette::white_point::D65, f64>, palette::Xyz::new(s[0], s[1], s[2]), "Xyz");
        routes!(palette::LinLuma<palette::white_point::D65, f64>, palette::LinLuma::new(s[0]), "LinLuma");
        routes!(Lab<D65, f64>, Lab::new(s[0] * 100.0, s[1] * 100.0 - 50.0, s[2] * 100.0 - 50.0), "Lab");
        routes!(palette::Oklab<f64>, palette::Oklab::new(s[0], s[1] - 0.5, s[2] - 0.5), "Oklab");
    }
    if let Some(f) = deferred {
        return Err(f);
    }
    Ok(())
}

/// other precisions / colour types: f32 LinSrgb, f64 Xyz and Luma (Blend), Lab (Compose)
fn point_other(c: &Case, obs: &mut Obs) -> PropResult {
    let (s, d) = (c.s, c.d);
    obs.nontrivial_if(s[3] > 0.0 && s[3] < 1.0 && d[3] > 0.0 && d[3] < 1.0);
    let mut deferred: Option<Fail> = None;
    // f32
    let sf = [s[0] as f32, s[1] as f32, s[2] as f32, s[3] as f32];
    let df = [d[0] as f32, d[1] as f32, d[2] as f32, d[3] as f32];
    let (sw, dw) = ([sf[0] as f64, sf[1] as f64, sf[2] as f64, sf[3] as f64], [df[0] as f64, df[1] as f64, df[2] as f64, df[3] as f64]);
    let sa = LinSrgba::<f32>::new(sf[0], sf[1], sf[2], sf[3]);
    let da = LinSrgba::<f32>::new(df[0], df[1], df[2], df[3]);
    let p4 = |x: PreAlpha<LinSrgb<f32>>| [x.color.red as f64, x.color.green as f64, x.color.blue as f64, x.alpha as f64];
    let got = all_modes!(sa.premultiply(), da.premultiply());
    let p = |x: [f64; 4]| { let q = [(x[0] as f32 * x[3] as f32) as f64, (x[1] as f32 * x[3] as f32) as f64, (x[2] as f32 * x[3] as f32) as f64, x[3]]; q };
    for m in 0..11 {
        let (su, du) = (unpremul(p(sw)), unpremul(p(dw)));
        // near a branch point the f32 and f64 paths may take different (continuous) branches; the
        // functions are continuous there except dodge/burn at their clamps, which are covered by tolerance
        let want = ref_blend(m, su, du, None);
        let g = p4(got[m]);
        for i in 0..4 {
            let k = if i < 3 { cond(m, du[i], su[i]) } else { 1.0 };
            let t = (4e-6 + 3e-7 * k * su[3] * du[3]).min(1.0);
            let e = (g[i] - want[i]).abs();
            if k <= 1.0 {
                obs.err("blend_pre_f32", e);
            }
            ensure!(e <= t, "PreAlpha<f32> {}: source {:?} backdrop {:?} = {:?} but the W3C formula gives {:?} (component {}, tolerance {:e})", MODES[m], sf, df, g, want, i, t);
        }
        ensure!(in_range(&g, 1e-6), "PreAlpha<f32> {}: result {:?} outside [0,1]", MODES[m], g);
    }
    let got = all_ops!(sa.premultiply(), da.premultiply());
    for o in 0..6 {
        let want = ref_compose(o, p(sw), p(dw));
        let g = p4(got[o]);
        ensure!(maxdiff(&g, &want) <= 2e-6, "PreAlpha<f32> {}: source {:?} backdrop {:?} = {:?} but Porter-Duff gives {:?}", OPS[o], sf, df, g, want);
        if !in_range(&g, 1e-6) {
            let msg = format!("PreAlpha<f32> {}: result {:?} outside [0,1]", OPS[o], g);
            if plus_key(o, p(sw), p(dw)) {
                deferred = Some(Fail::keyed("C08:plus-colour-unsaturated", msg));
            } else {
                return Err(Fail::new(msg));
            }
        }
    }
    // Xyz f64 (three channels) and Luma f64 (one channel): same per-component functions
    let xs = Alpha::<Xyz<D65, f64>, f64>::new(s[0], s[1], s[2], s[3]);
    let xd = Alpha::<Xyz<D65, f64>, f64>::new(d[0], d[1], d[2], d[3]);
    let got = all_modes!(xs.premultiply(), xd.premultiply());
    let gotl = all_modes!(Alpha::<SrgbLuma<f64>, f64>::new(s[0], s[3]).premultiply(), Alpha::<SrgbLuma<f64>, f64>::new(d[0], d[3]).premultiply());
    for m in 0..11 {
        let want = ref_blend(m, unpremul(premul(s)), unpremul(premul(d)), None);
        let g = [got[m].color.x, got[m].color.y, got[m].color.z, got[m].alpha];
        let (su, du) = (unpremul(premul(s)), unpremul(premul(d)));
        for i in 0..4 {
            let k = if i < 3 { cond(m, du[i], su[i]) } else { 1.0 };
            let t = (1e-12 + 1e-15 * k * su[3] * du[3]).min(1.0);
            ensure!((g[i] - want[i]).abs() <= t, "PreAlpha<Xyz> {}: {:?} expected {:?}", MODES[m], g, want);
        }
        let t0 = (1e-12 + 1e-15 * cond(m, du[0], su[0]) * su[3] * du[3]).min(1.0);
        ensure!((gotl[m].color.luma - want[0]).abs() <= t0 && (gotl[m].alpha - want[3]).abs() <= 1e-12, "PreAlpha<Luma> {}: ({}, {}) expected ({}, {})", MODES[m], gotl[m].color.luma, gotl[m].alpha, want[0], want[3]);
    }
    let got = all_ops!(xs.premultiply(), xd.premultiply());
    for o in 0..6 {
        let want = ref_compose(o, premul(s), premul(d));
        let g = [got[o].color.x, got[o].color.y, got[o].color.z, got[o].alpha];
        ensure!(maxdiff(&g, &want) <= 1e-12, "PreAlpha<Xyz> {}: {:?} expected {:?}", OPS[o], g, want);
    }
    // Lab only composes; components are not confined to [0,1], the formulas are the same
    let lab = |t: [f64; 4]| [100.0 * t[0], 255.0 * t[1] - 128.0, 255.0 * t[2] - 128.0, t[3]];
    let (ls, ld) = (lab(s), lab(d));
    let got = all_ops!(Alpha::<Lab<D65, f64>, f64>::new(ls[0], ls[1], ls[2], ls[3]).premultiply(), Alpha::<Lab<D65, f64>, f64>::new(ld[0], ld[1], ld[2], ld[3]).premultiply());
    for o in 0..6 {
        let want = ref_compose(o, premul(ls), premul(ld));
        let g = [got[o].color.l, got[o].color.a, got[o].color.b, got[o].alpha];
        ensure!(maxdiff(&g, &want) <= 1e-10, "PreAlpha<Lab> {}: {:?} expected {:?}", OPS[o], g, want);
    }
    if let Some(f) = deferred {
        return Err(f);
    }
    Ok(())
}

// ---------------- BlendWith: closures and OpenGL-style equations ----------------
#[derive(Debug, Clone, Serialize, Deserialize)]
struct EqCase {
    s: [f64; 4],
    d: [f64; 4],
    ceq: u8,
    aeq: u8,
    params: [u8; 4],
}
const PARAMS: [Parameter; 10] = [
    Parameter::One, Parameter::Zero, Parameter::SourceColor, Parameter::OneMinusSourceColor, Parameter::DestinationColor,
    Parameter::OneMinusDestinationColor, Parameter::SourceAlpha, Parameter::OneMinusSourceAlpha, Parameter::DestinationAlpha, Parameter::OneMinusDestinationAlpha,
];
const EQS: [Equation; 5] = [Equation::Add, Equation::Subtract, Equation::ReverseSubtract, Equation::Min, Equation::Max];

/// model of the documented equation table on premultiplied inputs; channel 3 is alpha
fn model_param(p: usize, sp: [f64; 4], dp: [f64; 4], ch: usize) -> f64 {
    match p {
        0 => 1.0,
        1 => 0.0,
        2 => sp[ch],
        3 => 1.0 - sp[ch],
        4 => dp[ch],
        5 => 1.0 - dp[ch],
        6 => sp[3],
        7 => 1.0 - sp[3],
        8 => dp[3],
        _ => 1.0 - dp[3],
    }
}
fn model_eq(eq: usize, s: f64, d: f64) -> f64 {
    match eq {
        0 => s + d,
        1 => s - d,
        2 => d - s,
        3 => s.min(d),
        _ => s.max(d),
    }
}

fn eq_point(c: &EqCase, obs: &mut Obs) -> PropResult {
    obs.nontrivial();
    let (s, d) = (c.s, c.d);
    let (sp, dp) = (premul(s), premul(d));
    let eqs = Equations {
        color_equation: EQS[c.ceq as usize],
        alpha_equation: EQS[c.aeq as usize],
        color_parameters: Parameters { source: PARAMS[c.params[0] as usize], destination: PARAMS[c.params[1] as usize] },
        alpha_parameters: Parameters { source: PARAMS[c.params[2] as usize], destination: PARAMS[c.params[3] as usize] },
    };
    let sa = LinSrgba::<f64>::new(s[0], s[1], s[2], s[3]).premultiply();
    let da = LinSrgba::<f64>::new(d[0], d[1], d[2], d[3]).premultiply();
    let got = sa.blend_with(da, eqs);
    let g = [got.color.red, got.color.green, got.color.blue, got.alpha];
    let mut want = [0.0; 4];
    for ch in 0..3 {
        want[ch] = if c.ceq >= 3 {
            model_eq(c.ceq as usize, sp[ch], dp[ch])
        } else {
            model_eq(c.ceq as usize, sp[ch] * model_param(c.params[0] as usize, sp, dp, ch), dp[ch] * model_param(c.params[1] as usize, sp, dp, ch))
        };
    }
    want[3] = if c.aeq >= 3 { model_eq(c.aeq as usize, sp[3], dp[3]) } else { model_eq(c.aeq as usize, sp[3] * model_param(c.params[2] as usize, sp, dp, 3), dp[3] * model_param(c.params[3] as usize, sp, dp, 3)) };
    ensure!(maxdiff(&g, &want) <= 1e-12, "blend_with({:?}) on premultiplied {:?} / {:?} = {:?} but the equation table gives {:?}", eqs, sp, dp, g, want);
    // a closure receives exactly the premultiplied operands
    let got = sa.blend_with(da, |a: PreAlpha<LinSrgb<f64>>, b: PreAlpha<LinSrgb<f64>>| PreAlpha { color: LinSrgb::new(a.color.red, b.color.green, a.color.blue * b.alpha), alpha: a.alpha * 0.5 + b.alpha * 0.25 });
    let w = [sp[0], dp[1], sp[2] * dp[3], sp[3] * 0.5 + dp[3] * 0.25];
    ensure!(maxdiff(&[got.color.red, got.color.green, got.color.blue, got.alpha], &w) <= 1e-15, "blend_with(closure) did not pass the premultiplied operands through");
    // source-alpha / one-minus-source-alpha on *non*-premultiplied colours is "over"
    let over_eq = Equations::from_parameters(Parameter::One, Parameter::OneMinusSourceAlpha);
    let g = sa.blend_with(da, over_eq);
    let o = sa.over(da);
    ensure!(maxdiff(&[g.color.red, g.color.green, g.color.blue, g.alpha], &[o.color.red, o.color.green, o.color.blue, o.alpha]) <= 1e-12, "Equations(One, OneMinusSourceAlpha) differs from over");
    // the Alpha-wrapped form goes through premultiply / unpremultiply
    let ga = LinSrgba::<f64>::new(s[0], s[1], s[2], s[3]).blend_with(LinSrgba::<f64>::new(d[0], d[1], d[2], d[3]), over_eq);
    let wa = unpremul([o.color.red, o.color.green, o.color.blue, o.alpha]);
    ensure!(maxdiff(&[ga.red, ga.green, ga.blue, ga.alpha], &wa) <= 1e-9, "Alpha::blend_with differs from the premultiplied route");
    Ok(())
}

fn comp() -> BoxedStrategy<f64> {
    prop_oneof![
        5 => pv::gen::unit(),
        // branch points of the modes: 2s = 1, 4d = 1 and their neighbours
        2 => (prop_oneof![Just(0.5), Just(0.25)], -3i64..=3).prop_map(|(v, n)| pv::gen::next_up64(v, n)),
        1 => prop_oneof![Just(0.0), Just(1.0)],
        4 => 0.0..=1.0f64,
    ]
    .boxed()
}
fn alpha() -> BoxedStrategy<f64> {
    prop_oneof![2 => Just(0.0), 2 => Just(1.0), 1 => Just(0.5), 8 => 0.0..=1.0f64, 1 => Just(1e-9), 1 => Just(1.0 - 1e-9), 1 => Just(1e-310)].boxed()
}
fn case() -> BoxedStrategy<Case> {
    ([comp(), comp(), comp(), alpha()], [comp(), comp(), comp(), alpha()]).prop_map(|(s, d)| Case { s, d }).boxed()
}

fn main() {
    let mut h = Harness::new("C08");
    h.rule("source and backdrop colour components and alphas in [0,1]^8 (weights on 0, 1, 0.5, 0.25 +- ulps = the branch points 2s=1 and 4d=1, tiny and subnormal alpha), complete 5-level grid {0,1/4,1/2,3/4,1}^8 in the thorough tier; 11 blend modes x 6 Porter-Duff operators x PreAlpha / Alpha / opaque inputs for LinSrgb f64, PreAlpha for LinSrgb f32, Xyz, Luma, Lab (compose); BlendWith with closures and the full Equations table. Oracle: W3C Compositing and Blending formulas in f64 (co = cs(1-ab) + as*ab*B(Cb,Cs) + (1-as)cb; Porter-Duff Fa/Fb table), range [0,1], opaque reduction, over/transparent identities, symmetry, premultiply round trip. Non-trivial = both alphas strictly inside (0,1); per-branch counters for every mode.");
    h.assume("self = source, other = backdrop as the trait documentation says; unpremultiply treats a non-normal alpha as zero (documented by IsValidDivisor)");
    let n = h.n(3_000_000, 60_000_000);
    h.prop("w3c_linsrgb_f64", n, case, point_f64);
    let n = h.n(2_000_000, 40_000_000);
    h.prop("w3c_other_types", n, case, point_other);
    let n = h.n(2_000_000, 40_000_000);
    h.prop(
        "blend_with_equations",
        n,
        || (case(), 0u8..5, 0u8..5, [0u8..10, 0u8..10, 0u8..10, 0u8..10]).prop_map(|(c, ceq, aeq, params)| EqCase { s: c.s, d: c.d, ceq, aeq, params }),
        eq_point,
    );
    // complete 5-level grid: thorough = all 5^8, quick = the 5^4 x 5^4 pairs with stride 7
    let levels = [0.0, 0.25, 0.5, 0.75, 1.0];
    let stride = if h.is_thorough() { 1 } else { 7 };
    h.sweep::<Case, _, _>("grid_5_levels", h.is_thorough(), 625, point_f64, |i, obs| {
        let dec = |mut k: usize| {
            let mut v = [0.0; 4];
            for j in 0..4 {
                v[j] = levels[k % 5];
                k /= 5;
            }
            v
        };
        let s = dec(i);
        let mut k = i % stride;
        while k < 625 {
            let c = Case { s, d: dec(k) };
            if let Err(f) = point_f64(&c, obs) {
                obs.report(&c, f);
            }
            obs.evals += 1;
            if obs.take_nontrivial() {
                obs.sweep_nontrivial += 1;
            }
            k += stride;
        }
    });
    for m in ["dodge:backdrop-zero", "dodge:source-one", "dodge:saturated", "dodge:quotient", "burn:backdrop-one", "burn:source-zero", "burn:saturated", "burn:quotient", "soft_light:source-low", "soft_light:source-high-poly", "soft_light:source-high-sqrt", "hard_light:multiply-half", "hard_light:screen-half", "overlay:multiply-half", "overlay:screen-half"] {
        h.require_class("w3c_linsrgb_f64", m, 1000);
    }
    h.finish();
}
