//! C14 — white stays white and neutrals stay neutral across spaces and adaptations.
#![allow(deprecated, clippy::type_complexity)]
use palette::cam16::{Cam16, Parameters, StaticWp};
use palette::chromatic_adaptation::{adaptation_matrix, AdaptFrom, AdaptFromUnclamped, AdaptInto, AdaptIntoUnclamped, Method, TransformMatrix};
use palette::convert::{Convert, ConvertOnce, FromColorUnclamped, Matrix3};
use palette::encoding::{self as enc, Linear};
use palette::lms::matrix::{Bradford, UnitMatrix, VonKries, WithLmsMatrix};
use palette::rgb::{Rgb, RgbSpace, RgbStandard};
use palette::white_point::{self as wpt, Any, WhitePoint};
use palette::lms::Lms;
use palette::luma::Luma;
use palette::{Hsl, Hsluv, Hsv, Hwb, Lab, Lch, Lchuv, Luv, Okhsl, Okhsv, Okhwb, Oklab, Oklch, Xyz, Yxy};
use proptest::prelude::*;
use pv::cam::Vc;
use pv::reference::spaces as rf;
use pv::runner::{Fail, Harness, Obs, PropResult};
use pv::{ensure, fail};
use serde::{Deserialize, Serialize};

type DciWhite = enc::DciP3;
type P3Plus = enc::DciP3Plus<enc::P3Gamma>;

// ------------------------------------------------------------------------------------------
// measurements of one grey level in one standard
#[derive(Default)]
struct GreyOut {
    /// (space / quantity, value, tolerance): chroma-like quantities that must vanish
    measures: Vec<(&'static str, f64, f64)>,
    /// RGB after going to the named space and back
    backs: Vec<(&'static str, [f64; 3])>,
    /// lightness-like quantities with their expected value (only filled for white, g == 1)
    lights: Vec<(&'static str, f64, f64, f64)>,
}
impl GreyOut {
    fn m(&mut self, n: &'static str, v: f64, tol: f64) {
        self.measures.push((n, v, tol));
    }
}

macro_rules! ok_part {
    (no, $S:ty, $T:ty, $c:ident, $o:ident, $f32:expr, $g:expr) => {};
    (yes, $S:ty, $T:ty, $c:ident, $o:ident, $f32:expr, $g:expr) => {{
        let t = if $f32 { 1.5e-4 } else { 1e-4 };
        let lab = Oklab::<$T>::from_color_unclamped($c);
        $o.m("Oklab |a|", (lab.a as f64).abs(), t);
        $o.m("Oklab |b|", (lab.b as f64).abs(), t);
        if $g == 1.0 {
            $o.lights.push(("Oklab L of white", lab.l as f64, 1.0, t));
        }
        let lch = Oklch::<$T>::from_color_unclamped($c);
        $o.m("Oklch chroma", lch.chroma as f64, t * 1.5);
        // Okhsl / Okhsv / Okhwb: measured as the Oklab chroma they convert back to (raw saturation is
        // chroma divided by a gamut width that vanishes at black and white)
        let hsl = Okhsl::<$T>::from_color_unclamped($c);
        let l2 = Oklab::<$T>::from_color_unclamped(hsl);
        $o.m("Okhsl -> Oklab chroma", (l2.a as f64).hypot(l2.b as f64), 2.0 * t);
        let hsv = Okhsv::<$T>::from_color_unclamped($c);
        let l3 = Oklab::<$T>::from_color_unclamped(hsv);
        $o.m("Okhsv -> Oklab chroma", (l3.a as f64).hypot(l3.b as f64), 2.0 * t);
        let hwb = Okhwb::<$T>::from_color_unclamped($c);
        let l4 = Oklab::<$T>::from_color_unclamped(Okhsv::<$T>::from_color_unclamped(hwb));
        $o.m("Okhwb -> Oklab chroma", (l4.a as f64).hypot(l4.b as f64), 2.0 * t);
        let r = Rgb::<$S, $T>::from_color_unclamped(lab);
        $o.backs.push(("Oklab", [r.red as f64, r.green as f64, r.blue as f64]));
        let r = Rgb::<$S, $T>::from_color_unclamped(lch);
        $o.backs.push(("Oklch", [r.red as f64, r.green as f64, r.blue as f64]));
        let r = Rgb::<$S, $T>::from_color_unclamped(hsl);
        $o.backs.push(("Okhsl", [r.red as f64, r.green as f64, r.blue as f64]));
        let r = Rgb::<$S, $T>::from_color_unclamped(hsv);
        $o.backs.push(("Okhsv", [r.red as f64, r.green as f64, r.blue as f64]));
        let r = Rgb::<$S, $T>::from_color_unclamped(hwb);
        $o.backs.push(("Okhwb", [r.red as f64, r.green as f64, r.blue as f64]));
    }};
}

macro_rules! grey_fn {
    ($S:ty, $Wp:ty, $L:ty, $T:ty, $d65:tt) => {{
        fn f(g: f64) -> GreyOut {
            type T = $T;
            let f32_ = std::mem::size_of::<T>() == 4;
            let gt = g as T;
            let g = gt as f64;
            let c = Rgb::<$S, T>::new(gt, gt, gt);
            let mut o = GreyOut::default();
            let w = <$Wp as WhitePoint<f64>>::get_xyz();
            macro_rules! back {
                ($n:expr, $v:expr) => {{
                    let r = Rgb::<$S, T>::from_color_unclamped($v);
                    o.backs.push(($n, [r.red as f64, r.green as f64, r.blue as f64]));
                }};
            }
            let xyz = Xyz::<$Wp, T>::from_color_unclamped(c);
            let (x, y, z) = (xyz.x as f64, xyz.y as f64, xyz.z as f64);
            let s = y.abs().max(1e-300);
            o.m("Xyz: X/Xn vs Y (relative)", (x / w.x - y).abs() / s, if f32_ { 2e-6 } else { 3e-7 });
            o.m("Xyz: Z/Zn vs Y (relative)", (z / w.z - y).abs() / s, if f32_ { 2e-6 } else { 3e-7 });
            back!("Xyz", xyz);
            if g == 1.0 {
                o.lights.push(("X of white", x, w.x, if f32_ { 2e-6 } else { 3e-7 }));
                o.lights.push(("Y of white", y, 1.0, if f32_ { 2e-6 } else { 3e-7 }));
                o.lights.push(("Z of white", z, w.z, if f32_ { 2e-6 } else { 3e-7 }));
            }
            let yxy = Yxy::<$Wp, T>::from_color_unclamped(c);
            if g > 0.0 {
                let ws = w.x + w.y + w.z;
                o.m("Yxy: x vs white's", (yxy.x as f64 - w.x / ws).abs(), if f32_ { 2e-6 } else { 3e-7 });
                o.m("Yxy: y vs white's", (yxy.y as f64 - w.y / ws).abs(), if f32_ { 2e-6 } else { 3e-7 });
            }
            back!("Yxy", yxy);
            let t = if f32_ { 2e-3 } else { 1e-4 };
            let lab = Lab::<$Wp, T>::from_color_unclamped(c);
            o.m("Lab |a*|", (lab.a as f64).abs(), t);
            o.m("Lab |b*|", (lab.b as f64).abs(), t);
            back!("Lab", lab);
            let lch = Lch::<$Wp, T>::from_color_unclamped(c);
            o.m("Lch chroma", lch.chroma as f64, 1.5 * t);
            back!("Lch", lch);
            let luv = Luv::<$Wp, T>::from_color_unclamped(c);
            o.m("Luv |u*|", (luv.u as f64).abs(), t);
            o.m("Luv |v*|", (luv.v as f64).abs(), t);
            back!("Luv", luv);
            let lchuv = Lchuv::<$Wp, T>::from_color_unclamped(c);
            o.m("Lchuv chroma", lchuv.chroma as f64, 1.5 * t);
            back!("Lchuv", lchuv);
            let hsluv = Hsluv::<$Wp, T>::from_color_unclamped(c);
            let l2 = Lchuv::<$Wp, T>::from_color_unclamped(hsluv);
            o.m("Hsluv -> Lchuv chroma", l2.chroma as f64, 1.5 * t);
            back!("Hsluv", hsluv);
            if g == 1.0 {
                o.lights.push(("Lab L* of white", lab.l as f64, 100.0, t));
                o.lights.push(("Lch L* of white", lch.l as f64, 100.0, t));
                o.lights.push(("Luv L* of white", luv.l as f64, 100.0, t));
                o.lights.push(("Lchuv L* of white", lchuv.l as f64, 100.0, t));
                o.lights.push(("Hsluv l of white", hsluv.l as f64, 100.0, t));
            }
            let hsl = Hsl::<$S, T>::from_color_unclamped(c);
            o.m("Hsl saturation (exact)", (hsl.saturation as f64).abs(), 0.0);
            o.m("Hsl lightness vs grey level", (hsl.lightness as f64 - g).abs(), 0.0);
            back!("Hsl", hsl);
            let hsv = Hsv::<$S, T>::from_color_unclamped(c);
            o.m("Hsv saturation (exact)", (hsv.saturation as f64).abs(), 0.0);
            o.m("Hsv value vs grey level", (hsv.value as f64 - g).abs(), 0.0);
            back!("Hsv", hsv);
            let hwb = Hwb::<$S, T>::from_color_unclamped(c);
            o.m("Hwb whiteness + blackness vs 1", (hwb.whiteness as f64 + hwb.blackness as f64 - 1.0).abs(), if f32_ { 1.2e-7 } else { 2.3e-16 });
            back!("Hwb", hwb);
            let luma = Luma::<$L, T>::from_color_unclamped(c);
            // (1e-7 from the 7-digit luminance row; 7e-7 at the sRGB knee, whose two published constants do not meet exactly)
            o.m("Luma vs grey level", (luma.luma as f64 - g).abs() / g.abs().max(1e-300), if f32_ { 3e-6 } else { 1e-6 });
            let r = Rgb::<$S, T>::from_color_unclamped(luma);
            o.backs.push(("Luma", [r.red as f64, r.green as f64, r.blue as f64]));
            // cone responses relative to the white point's
            {
                let l = Lms::<Bradford, T>::from_color_unclamped(xyz.with_white_point::<Any>());
                let b = rf::mul(&rf::BRADFORD, [w.x, w.y, w.z]);
                let (l0, l1, l2) = (l.long as f64 / b[0], l.medium as f64 / b[1], l.short as f64 / b[2]);
                o.m("Lms<Bradford>: cone ratios to white differ (relative)", ((l0 - l1).abs().max((l1 - l2).abs())) / s, if f32_ { 3e-6 } else { 5e-7 });
                let l = Lms::<VonKries, T>::from_color_unclamped(xyz.with_white_point::<Any>());
                let b = rf::mul(&rf::VON_KRIES, [w.x, w.y, w.z]);
                let (l0, l1, l2) = (l.long as f64 / b[0], l.medium as f64 / b[1], l.short as f64 / b[2]);
                o.m("Lms<VonKries>: cone ratios to white differ (relative)", ((l0 - l1).abs().max((l1 - l2).abs())) / s, if f32_ { 3e-6 } else { 5e-7 });
            }
            ok_part!($d65, $S, T, c, o, f32_, g);
            o
        }
        f as fn(f64) -> GreyOut
    }};
}

struct Mats {
    from_rgb64: [f64; 9],
    from_xyz64: [f64; 9],
    from_rgb32: [f64; 9],
    from_xyz32: [f64; 9],
    hard: Option<([f64; 9], [f64; 9])>,
    derived64: [f64; 9],
    derived32: [f64; 9],
}
fn a9_32(a: [f32; 9]) -> [f64; 9] {
    let mut o = [0.0; 9];
    for i in 0..9 {
        o[i] = a[i] as f64;
    }
    o
}
macro_rules! mats_fn {
    ($S:ty, $Wp:ty) => {{
        fn f() -> Mats {
            type L = Linear<<$S as RgbStandard>::Space>;
            type Sp = <$S as RgbStandard>::Space;
            Mats {
                from_rgb64: Xyz::<$Wp, f64>::matrix_from_rgb::<L>().into_array(),
                from_xyz64: Rgb::<L, f64>::matrix_from_xyz().into_array(),
                from_rgb32: a9_32(Xyz::<$Wp, f32>::matrix_from_rgb::<L>().into_array()),
                from_xyz32: a9_32(Rgb::<L, f32>::matrix_from_xyz().into_array()),
                hard: match (<Sp as RgbSpace>::rgb_to_xyz_matrix(), <Sp as RgbSpace>::xyz_to_rgb_matrix()) {
                    (Some(a), Some(b)) => Some((a, b)),
                    _ => None,
                },
                derived64: palette::matrix::rgb_to_xyz_matrix::<Sp, f64>(),
                derived32: a9_32(palette::matrix::rgb_to_xyz_matrix::<Sp, f32>()),
            }
        }
        f as fn() -> Mats
    }};
}

struct StdEntry {
    name: &'static str,
    /// name in the reference tables (primaries / white / transfer function)
    refstd: &'static str,
    linear: bool,
    grey64: fn(f64) -> GreyOut,
    grey32: fn(f64) -> GreyOut,
    mats: fn() -> Mats,
}
macro_rules! std_entry {
    ($name:expr, $ref:expr, true, $S:ty, $Wp:ty, $d:tt) => {
        StdEntry { name: $name, refstd: $ref, linear: true, grey64: grey_fn!($S, $Wp, Linear<$Wp>, f64, $d), grey32: grey_fn!($S, $Wp, Linear<$Wp>, f32, $d), mats: mats_fn!($S, $Wp) }
    };
    ($name:expr, $ref:expr, false, $S:ty, $Wp:ty, $d:tt) => {
        StdEntry { name: $name, refstd: $ref, linear: false, grey64: grey_fn!($S, $Wp, $S, f64, $d), grey32: grey_fn!($S, $Wp, $S, f32, $d), mats: mats_fn!($S, $Wp) }
    };
}
fn standards() -> Vec<StdEntry> {
    vec![
        std_entry!("Srgb", "Srgb", false, enc::Srgb, wpt::D65, yes),
        std_entry!("Linear<Srgb>", "Srgb", true, Linear<enc::Srgb>, wpt::D65, yes),
        std_entry!("AdobeRgb", "AdobeRgb", false, enc::AdobeRgb, wpt::D65, yes),
        std_entry!("Linear<AdobeRgb>", "AdobeRgb", true, Linear<enc::AdobeRgb>, wpt::D65, yes),
        std_entry!("Rec709", "Rec709", false, enc::Rec709, wpt::D65, yes),
        std_entry!("Rec2020", "Rec2020", false, enc::Rec2020, wpt::D65, yes),
        std_entry!("Linear<Rec2020>", "Rec2020", true, Linear<enc::Rec2020>, wpt::D65, yes),
        std_entry!("DisplayP3", "DisplayP3", false, enc::DisplayP3, wpt::D65, yes),
        std_entry!("Linear<DisplayP3>", "DisplayP3", true, Linear<enc::DisplayP3>, wpt::D65, yes),
        std_entry!("DciP3", "DciP3", false, enc::DciP3, DciWhite, no),
        std_entry!("Linear<DciP3>", "DciP3", true, Linear<enc::DciP3>, DciWhite, no),
        std_entry!("DciP3Plus<P3Gamma>", "DciP3Plus", false, P3Plus, DciWhite, no),
        std_entry!("Linear<DciP3Plus>", "DciP3Plus", true, Linear<P3Plus>, DciWhite, no),
        std_entry!("ProPhotoRgb", "ProPhoto", false, enc::ProPhotoRgb, wpt::D50, no),
        std_entry!("Linear<ProPhotoRgb>", "ProPhoto", true, Linear<enc::ProPhotoRgb>, wpt::D50, no),
        // user-defined spaces as (primaries, white point) tuples: always the derived matrix
        std_entry!("Linear<(Srgb, D65)>", "Srgb", true, Linear<(enc::Srgb, wpt::D65)>, wpt::D65, yes),
        std_entry!("Linear<(Srgb, D50)>", "(Srgb,D50)", true, Linear<(enc::Srgb, wpt::D50)>, wpt::D50, no),
        std_entry!("Linear<(AdobeRgb, E)>", "(AdobeRgb,E)", true, Linear<(enc::AdobeRgb, wpt::E)>, wpt::E, no),
        std_entry!("Linear<(Rec2020, A)>", "(Rec2020,A)", true, Linear<(enc::Rec2020, wpt::A)>, wpt::A, no),
        std_entry!("Linear<(DciP3, F11)>", "(DciP3,F11)", true, Linear<(enc::DciP3, wpt::F11)>, wpt::F11, no),
        std_entry!("Linear<(ProPhotoRgb, C)>", "(ProPhoto,C)", true, Linear<(enc::ProPhotoRgb, wpt::C)>, wpt::C, no),
    ]
}
fn ref_standard(name: &str) -> rf::RgbStd {
    if let Some(rest) = name.strip_prefix('(') {
        let (p, w) = rest.trim_end_matches(')').split_once(',').unwrap();
        let mut s = rf::standard(p);
        s.white = rf::WHITES.iter().find(|x| x.0 == w).unwrap().0;
        s
    } else {
        rf::standard(name)
    }
}
fn flat(m: &rf::M3) -> [f64; 9] {
    [m[0][0], m[0][1], m[0][2], m[1][0], m[1][1], m[1][2], m[2][0], m[2][1], m[2][2]]
}
fn unflat(a: &[f64; 9]) -> rf::M3 {
    [[a[0], a[1], a[2]], [a[3], a[4], a[5]], [a[6], a[7], a[8]]]
}
fn maxdiff(a: &[f64; 9], b: &[f64; 9]) -> f64 {
    (0..9).map(|i| (a[i] - b[i]).abs()).fold(0.0, f64::max)
}
const IDENT: [f64; 9] = [1.0, 0.0, 0.0, 0.0, 1.0, 0.0, 0.0, 0.0, 1.0];

// ------------------------------------------------------------------------------------------
// white point constants
macro_rules! white_table {
    ($($W:ident),*) => { vec![$( (stringify!($W), { let x = <wpt::$W as WhitePoint<f64>>::get_xyz(); [x.x, x.y, x.z] }, { let x = <wpt::$W as WhitePoint<f32>>::get_xyz(); [x.x, x.y, x.z] }) ),*] };
}
fn palette_whites() -> Vec<(&'static str, [f64; 3], [f32; 3])> {
    let mut v = white_table!(A, B, C, D50, D55, D65, D75, E, F2, F7, F11, D50Degree10, D55Degree10, D65Degree10, D75Degree10);
    let x = <DciWhite as WhitePoint<f64>>::get_xyz();
    let y = <DciWhite as WhitePoint<f32>>::get_xyz();
    v.push(("DciP3", [x.x, x.y, x.z], [y.x, y.y, y.z]));
    v
}

// ------------------------------------------------------------------------------------------
// chromatic adaptation tables
#[derive(Default, Clone)]
struct AdaptOut {
    mat_nn: [f64; 9],
    mat_ss: [f64; 9],
    from: [f64; 3],
    into: [f64; 3],
    by_matrix: [f64; 3],
}
macro_rules! adapt_one {
    ($A:ty, $B:ty, $M:ty, $T:ty, $xyz:expr) => {{
        type T = $T;
        let x = Xyz::<$A, T>::new($xyz[0] as T, $xyz[1] as T, $xyz[2] as T);
        let m_nn = adaptation_matrix::<T, $A, $B, $M>(None, None);
        let m_ss = adaptation_matrix::<T, $A, $B, $M>(Some(<$A as WhitePoint<T>>::get_xyz().with_white_point()), Some(<$B as WhitePoint<T>>::get_xyz().with_white_point()));
        let from = Xyz::<$B, T>::adapt_from_unclamped_with::<$M>(x);
        let into: Xyz<$B, T> = x.adapt_into_unclamped_with::<$M>();
        let bm: Xyz<$B, T> = m_nn.convert(x);
        let a = |m: [T; 9]| {
            let mut o = [0.0f64; 9];
            for i in 0..9 {
                o[i] = m[i] as f64;
            }
            o
        };
        AdaptOut { mat_nn: a(m_nn.into_array()), mat_ss: a(m_ss.into_array()), from: [from.x as f64, from.y as f64, from.z as f64], into: [into.x as f64, into.y as f64, into.z as f64], by_matrix: [bm.x as f64, bm.y as f64, bm.z as f64] }
    }};
}
type AdaptFn = fn(u8, bool, [f64; 3]) -> AdaptOut;
macro_rules! adapt_entry {
    ($A:ident, $B:ident) => {{
        fn f(m: u8, f32_: bool, xyz: [f64; 3]) -> AdaptOut {
            match (m, f32_) {
                (0, false) => adapt_one!(wpt::$A, wpt::$B, Bradford, f64, xyz),
                (1, false) => adapt_one!(wpt::$A, wpt::$B, VonKries, f64, xyz),
                (2, false) => adapt_one!(wpt::$A, wpt::$B, UnitMatrix, f64, xyz),
                (0, true) => adapt_one!(wpt::$A, wpt::$B, Bradford, f32, xyz),
                (1, true) => adapt_one!(wpt::$A, wpt::$B, VonKries, f32, xyz),
                _ => adapt_one!(wpt::$A, wpt::$B, UnitMatrix, f32, xyz),
            }
        }
        f as AdaptFn
    }};
}
macro_rules! cross {
    ($e:ident; $($a:ident),*) => { cross!(@rows $e [$($a),*] [$($a),*]) };
    (@rows $e:ident [$($a:ident),*] $all:tt) => { vec![$( cross!(@row $e $a $all) ),*] };
    (@row $e:ident $a:ident [$($b:ident),*]) => { vec![$( $e!($a, $b) ),*] };
}
fn new_api_table() -> Vec<Vec<AdaptFn>> {
    cross!(adapt_entry; A, B, C, D50, D55, D65, D75, E, F2, F7, F11, D50Degree10, D55Degree10, D65Degree10, D75Degree10)
}
// the deprecated API also takes white points that are not Xyz meta types (DCI white)
mod w16 {
    pub use palette::encoding::DciP3;
    pub use palette::white_point::*;
}
#[derive(Default, Clone)]
struct OldOut {
    from: [f64; 3],
    into: [f64; 3],
}
type OldFn = fn(u8, bool, [f64; 3]) -> OldOut;
fn method(m: u8) -> Method {
    match m {
        0 => Method::Bradford,
        1 => Method::VonKries,
        _ => Method::XyzScaling,
    }
}
macro_rules! old_entry {
    ($A:ident, $B:ident) => {{
        fn f(m: u8, f32_: bool, xyz: [f64; 3]) -> OldOut {
            if f32_ {
                let x = Xyz::<w16::$A, f32>::new(xyz[0] as f32, xyz[1] as f32, xyz[2] as f32);
                let a = <Xyz<w16::$B, f32> as AdaptFrom<_, w16::$A, w16::$B, f32>>::adapt_from_using(x, method(m));
                let b: Xyz<w16::$B, f32> = <Xyz<w16::$A, f32> as AdaptInto<_, w16::$A, w16::$B, f32>>::adapt_into_using(x, method(m));
                OldOut { from: [a.x as f64, a.y as f64, a.z as f64], into: [b.x as f64, b.y as f64, b.z as f64] }
            } else {
                let x = Xyz::<w16::$A, f64>::new(xyz[0], xyz[1], xyz[2]);
                let a = <Xyz<w16::$B, f64> as AdaptFrom<_, w16::$A, w16::$B, f64>>::adapt_from_using(x, method(m));
                let b: Xyz<w16::$B, f64> = <Xyz<w16::$A, f64> as AdaptInto<_, w16::$A, w16::$B, f64>>::adapt_into_using(x, method(m));
                OldOut { from: [a.x, a.y, a.z], into: [b.x, b.y, b.z] }
            }
        }
        f as OldFn
    }};
}
fn old_api_table() -> Vec<Vec<OldFn>> {
    cross!(old_entry; A, B, C, D50, D55, D65, D75, E, F2, F7, F11, D50Degree10, D55Degree10, D65Degree10, D75Degree10, DciP3)
}
const WNAMES: [&str; 16] = ["A", "B", "C", "D50", "D55", "D65", "D75", "E", "F2", "F7", "F11", "D50Degree10", "D55Degree10", "D65Degree10", "D75Degree10", "DciP3"];
const MNAMES: [&str; 3] = ["Bradford", "VonKries", "UnitMatrix (XYZ scaling)"];
fn cone(m: u8) -> rf::M3 {
    match m {
        0 => rf::BRADFORD,
        1 => rf::VON_KRIES,
        _ => rf::UNIT,
    }
}

#[derive(Debug, Clone, Serialize, Deserialize)]
struct AdaptCase {
    a: usize,
    b: usize,
    m: u8,
    f32_: bool,
    xyz: [f64; 3],
}
struct Tables {
    new: Vec<Vec<AdaptFn>>,
    old: Vec<Vec<OldFn>>,
}
fn scale3(v: [f64; 3]) -> f64 {
    v[0].abs().max(v[1].abs()).max(v[2].abs()).max(1e-3)
}
fn d3(a: [f64; 3], b: [f64; 3]) -> f64 {
    (a[0] - b[0]).abs().max((a[1] - b[1]).abs()).max((a[2] - b[2]).abs())
}
fn adapt_point(t: &Tables, c: &AdaptCase, obs: &mut Obs) -> PropResult {
    let (wa, wb) = (rf::white(WNAMES[c.a]), rf::white(WNAMES[c.b]));
    let xyz = if c.f32_ { [c.xyz[0] as f32 as f64, c.xyz[1] as f32 as f64, c.xyz[2] as f32 as f64] } else { c.xyz };
    let sc = scale3(xyz);
    let (tol, tight) = if c.f32_ { (3e-6, 2e-6) } else { (3e-6, 1e-12) };
    let cfg = format!("{} -> {} with {} ({})", WNAMES[c.a], WNAMES[c.b], MNAMES[c.m as usize], if c.f32_ { "f32" } else { "f64" });
    obs.nontrivial_if(c.a != c.b && xyz != [0.0; 3]);
    obs.class(if c.a == c.b { "equal white points" } else { "different white points" });
    let want_m = rf::adaptation_matrix(&cone(c.m), wa, wb);
    let want = rf::mul(&want_m, xyz);
    // deprecated API: every pair of the 16 white points
    let old = (t.old[c.a][c.b])(c.m, c.f32_, xyz);
    obs.err("deprecated API vs reference von Kries construction (relative)", d3(old.from, want) / sc);
    ensure!(d3(old.from, want) <= tol * sc, "AdaptFrom::adapt_from_using {}: XYZ {:?} -> {:?}, the von Kries construction M^-1 diag(dst/src) M gives {:?}", cfg, xyz, old.from, want);
    ensure!(old.from == old.into, "AdaptInto and AdaptFrom disagree for {}: {:?} vs {:?}", cfg, old.into, old.from);
    let back = (t.old[c.b][c.a])(c.m, c.f32_, old.from);
    obs.err("deprecated API there and back (relative)", d3(back.from, xyz) / sc);
    ensure!(d3(back.from, xyz) <= (if c.f32_ { 1e-5 } else { 2e-6 }) * sc, "adapting {} and back does not return the colour: {:?} -> {:?} -> {:?}", cfg, xyz, old.from, back.from);
    // the white point itself
    let wfrom = (t.old[c.a][c.b])(c.m, c.f32_, wa);
    obs.err("deprecated API: source white -> destination white", d3(wfrom.from, wb));
    ensure!(d3(wfrom.from, wb) <= if c.f32_ { 4e-6 } else { 1e-6 }, "source white {:?} adapts to {:?}, not to the destination white {:?} ({})", wa, wfrom.from, wb, cfg);
    // generate_transform_matrix of the deprecated Method
    {
        let m = method(c.m).generate_transform_matrix(Xyz::<Any, f64>::new(wa[0], wa[1], wa[2]), Xyz::new(wb[0], wb[1], wb[2]));
        obs.err("Method::generate_transform_matrix vs reference", maxdiff(&m, &flat(&want_m)));
        ensure!(maxdiff(&m, &flat(&want_m)) <= 3e-6, "Method::generate_transform_matrix {}: {:?} differs from the von Kries construction {:?}", cfg, m, flat(&want_m));
    }
    if c.a == 15 || c.b == 15 {
        obs.class("pair with the DCI white (deprecated API only: DciP3 is not an Xyz meta type)");
        return Ok(());
    }
    let new = (t.new[c.a][c.b])(c.m, c.f32_, xyz);
    ensure!(new.from == new.into, "AdaptIntoUnclamped and AdaptFromUnclamped disagree for {}", cfg);
    if c.a == c.b {
        ensure!(new.from == xyz, "adaptation between equal white points changed the colour: {} {:?} -> {:?}", cfg, xyz, new.from);
        obs.err("adaptation_matrix between equal white points vs identity", maxdiff(&new.mat_nn, &IDENT));
        ensure!(maxdiff(&new.mat_nn, &IDENT) <= 2e-6, "adaptation_matrix::<{0}, {0}> is not the identity: {1:?}", WNAMES[c.a], new.mat_nn);
    } else {
        // trait == matrix application (same arithmetic)
        ensure!(d3(new.from, new.by_matrix) <= 1e-15 * sc || new.from == new.by_matrix, "trait and matrix application differ for {}: {:?} vs {:?}", cfg, new.from, new.by_matrix);
    }
    ensure!(new.mat_nn == new.mat_ss, "adaptation_matrix with the white points given explicitly differs from the implicit one for {}", cfg);
    obs.err("adaptation_matrix vs reference von Kries construction", maxdiff(&new.mat_nn, &flat(&want_m)));
    ensure!(maxdiff(&new.mat_nn, &flat(&want_m)) <= tol, "adaptation_matrix {}: {:?} differs from M^-1 diag(dst/src) M = {:?}", cfg, new.mat_nn, flat(&want_m));
    let wimg = rf::mul(&unflat(&new.mat_nn), wa);
    obs.err("adaptation_matrix: source white -> destination white", d3(wimg, wb));
    ensure!(d3(wimg, wb) <= if c.f32_ { 4e-6 } else { 1e-6 }, "adaptation_matrix {} maps the source white to {:?}, not {:?}", cfg, wimg, wb);
    let byw = (t.new[c.a][c.b])(c.m, c.f32_, wa);
    ensure!(d3(byw.from, wb) <= if c.f32_ { 4e-6 } else { 1e-6 }, "adapt_from_unclamped_with {} maps the source white to {:?}, not {:?}", cfg, byw.from, wb);
    if c.a != c.b {
        obs.err("new vs deprecated API (relative)", d3(new.from, old.from) / sc);
        ensure!(d3(new.from, old.from) <= tight * sc, "new and deprecated adaptation APIs disagree for {}: {:?} vs {:?}", cfg, new.from, old.from);
    }
    let back = (t.new[c.b][c.a])(c.m, c.f32_, new.from);
    obs.err("there and back (relative)", d3(back.from, xyz) / sc);
    ensure!(d3(back.from, xyz) <= (if c.f32_ { 1e-5 } else { 2e-6 }) * sc, "adapting {} and back does not return the colour: {:?} -> {:?} -> {:?}", cfg, xyz, new.from, back.from);
    Ok(())
}

// ------------------------------------------------------------------------------------------
#[derive(Debug, Clone, Serialize, Deserialize)]
struct GreyCase {
    std: usize,
    g: f64,
    f32_: bool,
}
fn grey_point(stds: &[StdEntry], c: &GreyCase, obs: &mut Obs) -> PropResult {
    let s = &stds[c.std];
    let o = if c.f32_ { (s.grey32)(c.g) } else { (s.grey64)(c.g) };
    let g = if c.f32_ { c.g as f32 as f64 } else { c.g };
    obs.nontrivial_if(g > 0.0 && g < 1.0);
    obs.class(pv::runner::intern(&format!("standard {}", s.name)));
    let ty = if c.f32_ { "f32" } else { "f64" };
    let tf = if s.linear { rf::Tf::Linear } else { ref_standard(s.refstd).tf };
    // Okhsl next to white is not invertible for colours that reach Oklab through M1 (open finding of C01 / C15)
    let white_tip = rf::decode(tf, g).cbrt() >= 0.999 && g < 1.0;
    for (n, v, tol) in &o.measures {
        if white_tip && n.starts_with("Okhsl") && !(v <= tol) {
            pv::fail_keyed!("C14:okhsl-white-tip", "grey {} in {} ({}): {} = {:e}: within 1e-3 of white Okhsl is not invertible", g, s.name, ty, n, v);
        }
        if c.f32_ {
            obs.err(pv::runner::intern(&format!("f32 {}", n)), *v);
        } else {
            obs.err(n, *v);
        }
        ensure!(v <= tol, "grey {} in {} ({}): {} = {:e}, allowed {:e}", g, s.name, ty, n, v, tol);
    }
    for (n, v, want, tol) in &o.lights {
        ensure!((v - want).abs() <= *tol, "white of {} ({}): {} = {}, expected {} within {:e}", s.name, ty, n, v, want, tol);
    }
    // back to equal components, and to the grey level we started from
    for (n, rgb) in &o.backs {
        let spread = (rgb[0] - rgb[1]).abs().max((rgb[1] - rgb[2]).abs());
        // distance to the grey we started from, in linear light (Luv -> Xyz deliberately maps L* < 1e-5 to black, which a
        // 2.6 gamma would blow up to 2e-4 in the encoded value)
        let lin = |v: f64| rf::decode(tf, v);
        let off = (0..3).map(|i| (lin(rgb[i]) - lin(g)).abs()).fold(0.0, f64::max) / (lin(g).abs() + 1e-2);
        // Oklab is published with 10-digit matrices for a D65 of (0.9505, 1, 1.089): greys of the other standards carry an
        // Oklab chroma of 4e-5 (allowed above), and the Okhsl/Okhsv maps are ill-conditioned in it at the tips of the
        // gamut, so the way back is only neutral to that level
        let ok = n.starts_with("Ok");
        let (tol_spread, tol_off) = if c.f32_ { (2e-4, 3e-4) } else if ok { (2e-4, 2e-4) } else { (1e-6, 4e-6) };
        if c.f32_ {
            obs.err(pv::runner::intern(&format!("f32 back from {}: component spread", n)), spread);
        } else {
            obs.err(pv::runner::intern(&format!("back from {}: component spread", n)), spread);
            obs.err(pv::runner::intern(&format!("back from {}: distance to the grey level", n)), off);
        }
        if white_tip && *n == "Okhsl" && !(spread <= tol_spread && off <= tol_off) {
            pv::fail_keyed!("C14:okhsl-white-tip", "grey {} in {} ({}) -> Okhsl -> RGB {:?}: within 1e-3 of white Okhsl is not invertible", g, s.name, ty, rgb);
        }
        ensure!(spread <= tol_spread, "grey {} in {} ({}) -> {} -> RGB {:?}: components differ by {:e}", g, s.name, ty, n, rgb, spread);
        ensure!(off <= tol_off, "grey {} in {} ({}) -> {} -> RGB {:?}: not the grey we started from", g, s.name, ty, n, rgb);
    }
    Ok(())
}

#[derive(Debug, Clone, Serialize, Deserialize)]
struct MatCase {
    a: [f64; 9],
    b: [f64; 9],
    x: [f64; 3],
    s: [f64; 3],
    f32_: bool,
}
fn det(a: &[f64; 9]) -> f64 {
    a[0] * (a[4] * a[8] - a[5] * a[7]) - a[1] * (a[3] * a[8] - a[5] * a[6]) + a[2] * (a[3] * a[7] - a[4] * a[6])
}
fn norm(a: &[f64; 9]) -> f64 {
    a.iter().fold(0.0f64, |m, v| m.max(v.abs()))
}
macro_rules! mat_point_t {
    ($T:ty, $c:expr, $obs:expr, $eps:expr) => {{
        type T = $T;
        type X = Xyz<Any, T>;
        type Y = Lms<Any, T>;
        type Z = Rgb<Linear<enc::Srgb>, T>;
        let c: &MatCase = $c;
        let cv = |m: &[f64; 9]| {
            let mut o = [0.0 as T; 9];
            for i in 0..9 {
                o[i] = m[i] as T;
            }
            o
        };
        let back = |m: [T; 9]| {
            let mut o = [0.0f64; 9];
            for i in 0..9 {
                o[i] = m[i] as f64;
            }
            o
        };
        let (a, b) = (cv(&c.a), cv(&c.b));
        let (af, bf) = (back(a), back(b));
        let ma = Matrix3::<X, Y>::from_array(a);
        let mb = Matrix3::<Y, Z>::from_array(b);
        let x = X::new(c.x[0] as T, c.x[1] as T, c.x[2] as T);
        let xf = [x.x as f64, x.y as f64, x.z as f64];
        ensure!(ma.into_array() == a, "from_array / into_array changed the matrix");
        // identity, scale
        let id = Matrix3::<X, X>::identity().convert(x);
        ensure!(id == x, "Matrix3::identity().convert({:?}) = {:?}", x, id);
        let sc = Matrix3::<X, X>::scale(c.s[0] as T, c.s[1] as T, c.s[2] as T).convert(x);
        ensure!(sc.x == c.s[0] as T * x.x && sc.y == c.s[1] as T * x.y && sc.z == c.s[2] as T * x.z, "Matrix3::scale({:?}).convert({:?}) = {:?}", c.s, x, sc);
        // convert == reference product
        let y: Y = ma.convert(x);
        let want = rf::mul(&unflat(&af), xf);
        let sca = norm(&af) * scale3(xf);
        $obs.err("Matrix3::convert vs row-major matrix product (relative)", d3([y.long as f64, y.medium as f64, y.short as f64], want) / sca);
        ensure!(d3([y.long as f64, y.medium as f64, y.short as f64], want) <= 8.0 * $eps * sca, "Matrix3::convert: {:?} * {:?} = {:?}, expected {:?}", af, xf, y, want);
        let y2: Y = ma.convert_once(x);
        ensure!(y2 == y, "convert_once and convert differ");
        // then == composition
        let comp = ma.then(mb);
        let z1: Z = comp.convert(x);
        let z2: Z = mb.convert(ma.convert(x));
        let scab = norm(&af) * norm(&bf) * scale3(xf);
        let dz = d3([z1.red as f64, z1.green as f64, z1.blue as f64], [z2.red as f64, z2.green as f64, z2.blue as f64]);
        $obs.err("a.then(b).convert(x) vs b.convert(a.convert(x)) (relative)", dz / scab);
        ensure!(dz <= 40.0 * $eps * scab, "a.then(b).convert(x) = {:?} but b.convert(a.convert(x)) = {:?} (a {:?}, b {:?}, x {:?})", z1, z2, af, bf, xf);
        let want_ab = flat(&rf::matmul(&unflat(&bf), &unflat(&af)));
        ensure!(maxdiff(&back(comp.into_array()), &want_ab) <= 16.0 * $eps * norm(&af) * norm(&bf), "a.then(b) = {:?}, expected b*a = {:?}", comp.into_array(), want_ab);
        // invert
        let inv = ma.invert();
        let invf = back(inv.into_array());
        let want_inv = flat(&rf::inv(&unflat(&af)));
        let cond = norm(&af) * norm(&want_inv);
        $obs.err("invert vs adjugate / determinant (relative to cond * |inverse|)", maxdiff(&invf, &want_inv) / (cond * norm(&want_inv)));
        ensure!(maxdiff(&invf, &want_inv) <= 64.0 * $eps * cond * norm(&want_inv), "invert({:?}) = {:?}, expected {:?}", af, invf, want_inv);
        let prod = back(ma.then(inv).into_array());
        $obs.err("a.then(a.invert()) vs identity (relative to cond)", maxdiff(&prod, &IDENT) / cond);
        ensure!(maxdiff(&prod, &IDENT) <= 64.0 * $eps * cond, "a.then(a.invert()) = {:?} is not the identity (a = {:?}, cond ~ {:e})", prod, af, cond);
        let xb: X = inv.convert(ma.convert(x));
        ensure!(d3([xb.x as f64, xb.y as f64, xb.z as f64], xf) <= 64.0 * $eps * cond * scale3(xf), "invert().convert(convert(x)) = {:?}, x = {:?}", xb, xf);
        Ok(())
    }};
}
fn mat_point(c: &MatCase, obs: &mut Obs) -> PropResult {
    obs.nontrivial_if(c.a != IDENT && c.b != IDENT);
    obs.class(if c.f32_ { "f32" } else { "f64" });
    if c.f32_ {
        mat_point_t!(f32, c, obs, f32::EPSILON as f64)
    } else {
        mat_point_t!(f64, c, obs, f64::EPSILON)
    }
}

// explicit ("dynamic") white points: any XYZ brighter than black may stand for white on either side; both are
// normalised to Y = 1, so only their chromaticity matters
#[derive(Debug, Clone, Serialize, Deserialize)]
struct ExplicitCase {
    src: [f64; 3],
    /// explicit destination white (used when `use_dst`), else the static white point of the destination type
    dst_w: [f64; 3],
    use_dst: bool,
    colour: [f64; 3],
    m: u8,
    dst: u8,
    f32_: bool,
}
struct ExplicitOut {
    /// image of the source white
    white_img: [f64; 3],
    /// static white of the destination type
    w: [f64; 3],
    /// colour adapted there and back with the two explicit whites swapped
    back: [f64; 3],
    /// matrix for (src, src): must be the identity
    same: [f64; 9],
    /// matrix with the destination white's luminance scaled by 2.5: must be the same matrix
    scaled_diff: f64,
}
macro_rules! explicit_t {
    ($T:ty, $M:ty, $D:ty, $c:expr) => {{
        let c: &ExplicitCase = $c;
        let src = Xyz::<wpt::D65, $T>::new(c.src[0] as $T, c.src[1] as $T, c.src[2] as $T);
        let dstw = Xyz::<$D, $T>::new(c.dst_w[0] as $T, c.dst_w[1] as $T, c.dst_w[2] as $T);
        let dst = if c.use_dst { Some(dstw) } else { None };
        let m = adaptation_matrix::<$T, wpt::D65, $D, $M>(Some(src), dst);
        let out: Xyz<$D, $T> = m.convert(src);
        let w = <$D as WhitePoint<f64>>::get_xyz();
        // there and back with the roles swapped
        let col = Xyz::<wpt::D65, $T>::new(c.colour[0] as $T, c.colour[1] as $T, c.colour[2] as $T);
        let there: Xyz<$D, $T> = m.convert(col);
        let back_m = adaptation_matrix::<$T, $D, wpt::D65, $M>(Some(if c.use_dst { dstw } else { <$D as WhitePoint<$T>>::get_xyz().with_white_point() }), Some(src));
        let back: Xyz<wpt::D65, $T> = back_m.convert(there);
        let same = adaptation_matrix::<$T, wpt::D65, wpt::D65, $M>(Some(src), Some(src)).into_array();
        let scaled = adaptation_matrix::<$T, wpt::D65, $D, $M>(Some(src), Some(dstw * (2.5 as $T))).into_array();
        let unscaled = adaptation_matrix::<$T, wpt::D65, $D, $M>(Some(src), Some(dstw)).into_array();
        let mut same64 = [0.0f64; 9];
        let mut sd: f64 = 0.0;
        for i in 0..9 {
            same64[i] = same[i] as f64;
            sd = sd.max((scaled[i] as f64 - unscaled[i] as f64).abs());
        }
        ExplicitOut { white_img: [out.x as f64, out.y as f64, out.z as f64], w: [w.x, w.y, w.z], back: [back.x as f64, back.y as f64, back.z as f64], same: same64, scaled_diff: sd }
    }};
}
fn explicit_point(c: &ExplicitCase, obs: &mut Obs) -> PropResult {
    let o = match (c.f32_, c.m, c.dst) {
        (false, 0, 0) => explicit_t!(f64, Bradford, wpt::D65, c),
        (false, 1, 0) => explicit_t!(f64, VonKries, wpt::D65, c),
        (false, _, 0) => explicit_t!(f64, UnitMatrix, wpt::D65, c),
        (false, 0, _) => explicit_t!(f64, Bradford, wpt::D50, c),
        (false, 1, _) => explicit_t!(f64, VonKries, wpt::D50, c),
        (false, _, _) => explicit_t!(f64, UnitMatrix, wpt::D50, c),
        (true, 0, 0) => explicit_t!(f32, Bradford, wpt::D65, c),
        (true, 1, 0) => explicit_t!(f32, VonKries, wpt::D65, c),
        (true, _, 0) => explicit_t!(f32, UnitMatrix, wpt::D65, c),
        (true, 0, _) => explicit_t!(f32, Bradford, wpt::D50, c),
        (true, 1, _) => explicit_t!(f32, VonKries, wpt::D50, c),
        (true, _, _) => explicit_t!(f32, UnitMatrix, wpt::D50, c),
    };
    obs.nontrivial();
    obs.class(if c.use_dst { "explicit destination white" } else { "static destination white" });
    let y = if c.f32_ { c.src[1] as f32 as f64 } else { c.src[1] };
    // both whites are normalised to Y = 1 before use, so the image of src is Y_src * (destination white / its Y)
    let dw = if c.use_dst { [c.dst_w[0] / c.dst_w[1], 1.0, c.dst_w[2] / c.dst_w[1]] } else { o.w };
    let want = [dw[0] * y, dw[1] * y, dw[2] * y];
    let tol = if c.f32_ { 3e-5 } else { 4e-6 };
    let cfg = format!("adaptation_matrix(Some({:?}), {}) with {} ({})", c.src, if c.use_dst { format!("Some({:?})", c.dst_w) } else { "None".into() }, MNAMES[c.m as usize], if c.f32_ { "f32" } else { "f64" });
    obs.err("explicit whites: source white -> destination white (relative)", d3(o.white_img, want) / y);
    ensure!(d3(o.white_img, want) <= tol * y * scale3(dw), "{} maps its own source white to {:?}, expected {:?}", cfg, o.white_img, want);
    obs.err("explicit whites: equal white points vs identity", maxdiff(&o.same, &IDENT));
    ensure!(maxdiff(&o.same, &IDENT) <= if c.f32_ { 2e-5 } else { 3e-6 }, "adaptation_matrix(Some(w), Some(w)) with w = {:?} and {} is not the identity: {:?}", c.src, MNAMES[c.m as usize], o.same);
    let sc = scale3(c.colour);
    obs.err("explicit whites: there and back (relative)", d3(o.back, c.colour) / sc);
    ensure!(d3(o.back, c.colour) <= (if c.f32_ { 1e-4 } else { 1e-5 }) * sc, "{}: adapting {:?} there and back (whites swapped) returns {:?}", cfg, c.colour, o.back);
    obs.err("explicit whites: matrix changes with the luminance of the destination white", o.scaled_diff);
    ensure!(o.scaled_diff <= if c.f32_ { 2e-5 } else { 1e-12 }, "{}: scaling the destination white's luminance by 2.5 changes the matrix by {:e} (white points are documented to be normalised)", cfg, o.scaled_diff);
    Ok(())
}

// CAM16: the adopted white has J = 100
#[derive(Debug, Clone, Serialize, Deserialize)]
struct CamCase {
    w: usize,
    vc: Vc,
    f32_: bool,
}
fn cam_point(c: &CamCase, obs: &mut Obs) -> PropResult {
    let w = rf::white(WNAMES[c.w]);
    obs.nontrivial_if(!c.vc.is_default());
    let j = if c.f32_ {
        let p = pv::cam::dynamic32(&c.vc, w);
        Cam16::from_xyz(Xyz::<Any, f32>::new(w[0] as f32, w[1] as f32, w[2] as f32), p).lightness as f64
    } else {
        let p = pv::cam::dynamic64(&c.vc, w);
        Cam16::from_xyz(Xyz::<Any, f64>::new(w[0], w[1], w[2]), p).lightness
    };
    obs.err(if c.f32_ { "f32 CAM16 J of the adopted white vs 100" } else { "CAM16 J of the adopted white vs 100" }, (j - 100.0).abs());
    ensure!((j - 100.0).abs() <= if c.f32_ { 2e-3 } else { 1e-9 }, "CAM16 lightness of the adopted white {} ({:?}) = {} under {:?}", WNAMES[c.w], w, j, c.vc);
    if c.w == 5 || c.w == 3 {
        // static white point types
        let j = if c.w == 5 {
            let mut p = Parameters::<StaticWp<wpt::D65>, f64>::default_static_wp(c.vc.la);
            p.background_luminance = c.vc.yb;
            Cam16::from_xyz(Xyz::<wpt::D65, f64>::new(w[0], w[1], w[2]), p).lightness
        } else {
            let mut p = Parameters::<StaticWp<wpt::D50>, f64>::default_static_wp(c.vc.la);
            p.background_luminance = c.vc.yb;
            Cam16::from_xyz(Xyz::<wpt::D50, f64>::new(w[0], w[1], w[2]), p).lightness
        };
        ensure!((j - 100.0).abs() <= 1e-9, "CAM16 lightness of the static white point {} = {}", WNAMES[c.w], j);
    }
    Ok(())
}

// whole-standard adaptation through the deprecated API: grey stays grey between RGB standards
#[derive(Debug, Clone, Serialize, Deserialize)]
struct CrossCase {
    pair: u8,
    g: f64,
    m: u8,
}
fn cross_point(c: &CrossCase, obs: &mut Obs) -> PropResult {
    let g = c.g;
    obs.nontrivial_if(g > 0.0 && g < 1.0);
    macro_rules! go {
        ($A:ty, $WA:ty, $B:ty, $WB:ty, $name:expr) => {{
            let src = Rgb::<$A, f64>::new(g, g, g);
            let dst = <Rgb<$B, f64> as AdaptFrom<_, $WA, $WB, f64>>::adapt_from_using(src, method(c.m));
            let lab = <Lab<$WB, f64> as AdaptFrom<_, $WA, $WB, f64>>::adapt_from_using(src, method(c.m));
            ($name, [dst.red, dst.green, dst.blue], [lab.l, lab.a, lab.b])
        }};
    }
    let (name, rgb, lab) = match c.pair {
        0 => go!(enc::Srgb, wpt::D65, enc::ProPhotoRgb, wpt::D50, "Srgb -> ProPhotoRgb"),
        1 => go!(enc::ProPhotoRgb, wpt::D50, enc::Srgb, wpt::D65, "ProPhotoRgb -> Srgb"),
        2 => go!(enc::Srgb, wpt::D65, enc::DciP3, DciWhite, "Srgb -> DciP3"),
        3 => go!(enc::DciP3, DciWhite, enc::AdobeRgb, wpt::D65, "DciP3 -> AdobeRgb"),
        4 => go!(enc::ProPhotoRgb, wpt::D50, enc::DciP3, DciWhite, "ProPhotoRgb -> DciP3"),
        _ => go!(Linear<enc::Rec2020>, wpt::D65, Linear<enc::ProPhotoRgb>, wpt::D50, "Linear<Rec2020> -> Linear<ProPhotoRgb>"),
    };
    obs.class(name);
    let spread = (rgb[0] - rgb[1]).abs().max((rgb[1] - rgb[2]).abs());
    obs.err("adapted grey: component spread", spread);
    ensure!(spread <= 4e-6, "grey {} adapted {} with {} is {:?}: components differ by {:e}", g, name, MNAMES[c.m as usize], rgb, spread);
    obs.err("adapted grey: Lab chroma", lab[1].hypot(lab[2]));
    ensure!(lab[1].hypot(lab[2]) <= 2e-4, "grey {} adapted {} with {} has Lab {:?}", g, name, MNAMES[c.m as usize], lab);
    if g == 1.0 {
        ensure!((rgb[0] - 1.0).abs() <= 4e-6 && (lab[0] - 100.0).abs() <= 1e-4, "white adapted {} is RGB {:?}, Lab {:?}", name, rgb, lab);
    }
    Ok(())
}

#[derive(Debug, Clone, Serialize, Deserialize)]
struct IdxCase {
    i: usize,
}


// ---- user-defined white points whose Y is not 1 (tristimulus values on a 0-100 scale, or a dim white) ----
// The CIE definitions only use ratios to the reference white (and u'v' are scale free), so white must still be
// L* = 100 with zero a*, b*, u*, v*, greys must be neutral, and the inverse must undo the forward conversion.
#[derive(Debug, Clone, Copy, PartialEq)]
struct WpPercent;
impl<T: palette::num::Real> WhitePoint<T> for WpPercent {
    fn get_xyz() -> Xyz<Any, T> {
        Xyz::new(T::from_f64(95.047), T::from_f64(100.0), T::from_f64(108.883))
    }
}
#[derive(Debug, Clone, Copy, PartialEq)]
struct WpDim;
impl<T: palette::num::Real> WhitePoint<T> for WpDim {
    fn get_xyz() -> Xyz<Any, T> {
        Xyz::new(T::from_f64(0.96422 * 0.25), T::from_f64(0.25), T::from_f64(0.82521 * 0.25))
    }
}
#[derive(Debug, Clone, Serialize, Deserialize)]
struct CustomWpCase {
    wp: u8,
    /// grey level relative to the white (1 = the white itself)
    g: f64,
    /// a chromatic colour relative to the white, for the round trips
    c: [f64; 3],
    f32_: bool,
}
fn custom_wp_point(c: &CustomWpCase, obs: &mut Obs) -> PropResult {
    obs.nontrivial_if(c.g != 1.0);
    macro_rules! run {
        ($W:ty, $T:ty, $w:expr, $tol:expr) => {{
            let w: [f64; 3] = $w;
            let tol: f64 = $tol;
            let name = stringify!($W);
            let ty = stringify!($T);
            let grey = Xyz::<$W, $T>::new((w[0] * c.g) as $T, (w[1] * c.g) as $T, (w[2] * c.g) as $T);
            let want_l = rf::xyz_to_lab([rf::D65[0] * c.g, c.g, rf::D65[2] * c.g], rf::D65)[0];
            let lab = Lab::<$W, $T>::from_color_unclamped(grey);
            ensure!((lab.l as f64 - want_l).abs() <= 100.0 * tol && (lab.a as f64).abs() <= 100.0 * tol && (lab.b as f64).abs() <= 100.0 * tol, "white point {} ({}): grey {} x white -> Lab {:?}, expected L* = {} and a* = b* = 0", name, ty, c.g, lab, want_l);
            let luv = Luv::<$W, $T>::from_color_unclamped(grey);
            ensure!((luv.l as f64 - want_l).abs() <= 100.0 * tol && (luv.u as f64).abs() <= 100.0 * tol && (luv.v as f64).abs() <= 100.0 * tol, "white point {} ({}): grey {} x white -> Luv {:?}, expected L* = {} and u* = v* = 0", name, ty, c.g, luv, want_l);
            let lch = Lch::<$W, $T>::from_color_unclamped(grey);
            let lchuv = Lchuv::<$W, $T>::from_color_unclamped(grey);
            ensure!((lch.chroma as f64).abs() <= 100.0 * tol && (lchuv.chroma as f64).abs() <= 100.0 * tol, "white point {} ({}): grey {} x white has chroma {} (Lch) / {} (Lchuv)", name, ty, c.g, lch.chroma, lchuv.chroma);
            let yxy = Yxy::<$W, $T>::from_color_unclamped(grey);
            let sum = w[0] + w[1] + w[2];
            if c.g > 1e-3 {
                ensure!((yxy.x as f64 - w[0] / sum).abs() <= tol && (yxy.y as f64 - w[1] / sum).abs() <= tol, "white point {} ({}): grey {} x white -> xy ({}, {}) but the white's chromaticity is ({}, {})", name, ty, c.g, yxy.x, yxy.y, w[0] / sum, w[1] / sum);
            }
            // there and back for a chromatic colour (relative to the white)
            let col = Xyz::<$W, $T>::new((w[0] * c.c[0]) as $T, (w[1] * c.c[1]) as $T, (w[2] * c.c[2]) as $T);
            let scale = w[1];
            if c.c[1] > 1e-3 {
                let b1 = Xyz::<$W, $T>::from_color_unclamped(Lab::<$W, $T>::from_color_unclamped(col));
                let b2 = Xyz::<$W, $T>::from_color_unclamped(Luv::<$W, $T>::from_color_unclamped(col));
                let b3 = Xyz::<$W, $T>::from_color_unclamped(Yxy::<$W, $T>::from_color_unclamped(col));
                for (nm, b) in [("Lab", b1), ("Luv", b2), ("Yxy", b3)] {
                    let d = ((b.x - col.x) as f64).abs().max(((b.y - col.y) as f64).abs()).max(((b.z - col.z) as f64).abs()) / scale;
                    ensure!(d <= 10.0 * tol, "white point {} ({}): Xyz {:?} -> {} -> Xyz {:?} (relative error {:e})", name, ty, col, nm, b, d);
                }
                // scale independence: the same colour relative to the unit-luminance white of the same chromaticity
                let unit: [f64; 3] = [w[0] / w[1], 1.0, w[2] / w[1]];
                let want = rf::xyz_to_luv([unit[0] * c.c[0], c.c[1], unit[2] * c.c[2]], unit);
                let got = Luv::<$W, $T>::from_color_unclamped(col);
                ensure!((got.l as f64 - want[0]).abs() <= 200.0 * tol && (got.u as f64 - want[1]).abs() <= 400.0 * tol && (got.v as f64 - want[2]).abs() <= 400.0 * tol, "white point {} ({}): Luv of {:?} = {:?} but CIE L*u*v* relative to that white is {:?}", name, ty, col, got, want);
                let want = rf::xyz_to_lab([unit[0] * c.c[0], c.c[1], unit[2] * c.c[2]], unit);
                let got = Lab::<$W, $T>::from_color_unclamped(col);
                ensure!((got.l as f64 - want[0]).abs() <= 200.0 * tol && (got.a as f64 - want[1]).abs() <= 400.0 * tol && (got.b as f64 - want[2]).abs() <= 400.0 * tol, "white point {} ({}): Lab of {:?} = {:?} but CIE L*a*b* relative to that white is {:?}", name, ty, col, got, want);
            }
        }};
    }
    // a user-defined RGB space (primaries, white point) over such a white: the matrix is derived at run time from the
    // primaries and must put RGB (1, 1, 1) on the white point itself (Y = 0.25 here), greys on multiples of it, and
    // agree with the derivation from the published primaries
    {
        type DimSpace = Linear<(enc::Srgb, WpDim)>;
        let w = [0.96422 * 0.25, 0.25, 0.82521 * 0.25];
        let col = |p: [f64; 2]| [p[0] / p[1], 1.0, (1.0 - p[0] - p[1]) / p[1]];
        let prim = rf::SRGB_PRIM;
        let (r, g, b) = (col(prim[0]), col(prim[1]), col(prim[2]));
        let m = [[r[0], g[0], b[0]], [r[1], g[1], b[1]], [r[2], g[2], b[2]]];
        let sc = rf::mul(&rf::inv(&m), w);
        let want_m = [[sc[0] * r[0], sc[1] * g[0], sc[2] * b[0]], [sc[0] * r[1], sc[1] * g[1], sc[2] * b[1]], [sc[0] * r[2], sc[1] * g[2], sc[2] * b[2]]];
        for rgb in [[1.0, 1.0, 1.0], [c.g, c.g, c.g], c.c] {
            let want = rf::mul(&want_m, rgb);
            if c.f32_ {
                let x = Xyz::<WpDim, f32>::from_color_unclamped(Rgb::<DimSpace, f32>::new(rgb[0] as f32, rgb[1] as f32, rgb[2] as f32));
                let d = (x.x as f64 - want[0]).abs().max((x.y as f64 - want[1]).abs()).max((x.z as f64 - want[2]).abs());
                ensure!(d <= 2e-6, "Rgb<Linear<(Srgb, dim white)>, f32> {:?} -> Xyz {:?}, the matrix derived from the primaries and the white point gives {:?}", rgb, x, want);
                let back = Rgb::<DimSpace, f32>::from_color_unclamped(x);
                let d = (back.red as f64 - rgb[0]).abs().max((back.green as f64 - rgb[1]).abs()).max((back.blue as f64 - rgb[2]).abs());
                ensure!(d <= 2e-5, "Rgb<Linear<(Srgb, dim white)>, f32> {:?} -> Xyz -> Rgb {:?}", rgb, back);
            } else {
                let x = Xyz::<WpDim, f64>::from_color_unclamped(Rgb::<DimSpace, f64>::new(rgb[0], rgb[1], rgb[2]));
                let d = (x.x - want[0]).abs().max((x.y - want[1]).abs()).max((x.z - want[2]).abs());
                ensure!(d <= 1e-12, "Rgb<Linear<(Srgb, dim white)>> {:?} -> Xyz {:?}, the matrix derived from the primaries and the white point gives {:?}", rgb, x, want);
                let back = Rgb::<DimSpace, f64>::from_color_unclamped(x);
                let d = (back.red - rgb[0]).abs().max((back.green - rgb[1]).abs()).max((back.blue - rgb[2]).abs());
                ensure!(d <= 1e-10, "Rgb<Linear<(Srgb, dim white)>> {:?} -> Xyz -> Rgb {:?}", rgb, back);
                // white of the space -> L* = 100, neutral
                if rgb == [1.0, 1.0, 1.0] {
                    let lab = Lab::<WpDim, f64>::from_color_unclamped(x);
                    ensure!((lab.l - 100.0).abs() <= 1e-9 && lab.a.abs() <= 1e-9 && lab.b.abs() <= 1e-9, "white of Linear<(Srgb, dim white)> -> Lab {:?}", lab);
                }
            }
        }
    }
    let percent = [95.047, 100.0, 108.883];
    let dim = [0.96422 * 0.25, 0.25, 0.82521 * 0.25];
    match (c.wp, c.f32_) {
        (0, false) => run!(WpPercent, f64, percent, 1e-11),
        (0, true) => run!(WpPercent, f32, percent, 2e-5),
        (_, false) => run!(WpDim, f64, dim, 1e-11),
        (_, true) => run!(WpDim, f32, dim, 2e-5),
    }
    Ok(())
}

fn main() {
    let mut h = Harness::new("C14");
    h.rule("Complete enumeration of the configuration axes (16 white points; 21 RGB standards incl. linear forms and user-defined (primaries, white) tuples; 16x16 white point pairs x Bradford / von Kries / XYZ scaling x f32/f64 through the deprecated API and 15x15 through the new API) x generated inputs (grey levels over [0,1] incl. thresholds and neighbours; XYZ colours; random 3x3 matrices with |det| >= 1e-3; viewing conditions). Oracles: published white point tables (exact); RGB white -> XYZ white, L* = 100, zero a* b* u* v* chroma, Oklab (1,0,0); greys -> vanishing chroma-like quantity in every colourimetric space and back to equal RGB components; hard-coded matrices are mutual inverses and equal the matrix derived from published primaries and white; adaptation == reference von Kries construction, source white -> destination white, identity on equal white points, there and back; Matrix3 algebra against plain row-major products; CAM16 J = 100 for the adopted white. Non-trivial = grey strictly between black and white / different white points / non-identity matrices / non-default viewing conditions; distinct by hash.");
    h.assume("reference tables: CIE 15 / ASTM E308 tristimulus values as printed (Y = 1), primaries of IEC 61966-2-1, Adobe RGB (1998), BT.709, BT.2020, SMPTE RP 431-2 / EG 432-1, ROMM; cone matrices as published (Bradford, Hunt-Pointer-Estevez normalised to D65)");
    if let Err(e) = rf::self_check() {
        println!("reference self-check failed: {}", e);
        std::process::exit(2);
    }
    let stds = standards();
    let whites = palette_whites();

    // ---- white point constants: exact ----
    h.sweep::<IdxCase, _, _>(
        "white_point_constants",
        true,
        16,
        |c, _| {
            let (n, w64, w32) = &palette_whites()[c.i];
            let want = rf::white(n);
            ensure!(*w64 == want, "white point {} = {:?}, published tristimulus values are {:?}", n, w64, want);
            ensure!(*w32 == [want[0] as f32, want[1] as f32, want[2] as f32], "white point {} (f32) = {:?}, published {:?}", n, w32, want);
            Ok(())
        },
        |i, obs| {
            let (n, w64, w32) = &whites[i];
            let want = rf::white(n);
            obs.evals += 1;
            obs.sweep_nontrivial += 1;
            if *w64 != want || *w32 != [want[0] as f32, want[1] as f32, want[2] as f32] {
                obs.report(&IdxCase { i }, Fail::new(format!("white point {} = {:?} (f32 {:?}), published tristimulus values are {:?}", n, w64, w32, want)));
            }
        },
    );

    // ---- matrices of every standard ----
    let mat_check = |i: usize, obs: &mut Obs| -> PropResult {
        let s = &stds[i];
        let m = (s.mats)();
        let rs = ref_standard(s.refstd);
        let want = flat(&rf::rgb_to_xyz_matrix(&rs));
        let want_inv = flat(&rf::inv(&rf::rgb_to_xyz_matrix(&rs)));
        obs.err("matrix_from_rgb vs matrix derived from published primaries and white", maxdiff(&m.from_rgb64, &want));
        ensure!(maxdiff(&m.from_rgb64, &want) <= 5e-7, "{}: Xyz::matrix_from_rgb = {:?}; derived from the published primaries and white point: {:?}", s.name, m.from_rgb64, want);
        obs.err("matrix_from_xyz vs inverse of the derived matrix", maxdiff(&m.from_xyz64, &want_inv));
        ensure!(maxdiff(&m.from_xyz64, &want_inv) <= 2e-6, "{}: Rgb::matrix_from_xyz = {:?}; inverse of the derived matrix: {:?}", s.name, m.from_xyz64, want_inv);
        let prod = flat(&rf::matmul(&unflat(&m.from_xyz64), &unflat(&m.from_rgb64)));
        obs.err("matrix_from_xyz * matrix_from_rgb vs identity", maxdiff(&prod, &IDENT));
        ensure!(maxdiff(&prod, &IDENT) <= 1.5e-6, "{}: matrix_from_xyz * matrix_from_rgb = {:?} is not the identity", s.name, prod);
        let prod = flat(&rf::matmul(&unflat(&m.from_rgb64), &unflat(&m.from_xyz64)));
        ensure!(maxdiff(&prod, &IDENT) <= 1.5e-6, "{}: matrix_from_rgb * matrix_from_xyz = {:?} is not the identity", s.name, prod);
        let derived = m.hard.is_none();
        ensure!(maxdiff(&m.from_rgb32, &m.from_rgb64) <= (if derived { 1e-6 } else { 1.2e-7 }) && maxdiff(&m.from_xyz32, &m.from_xyz64) <= if derived { 4e-6 } else { 6e-7 }, "{}: f32 matrices differ from the f64 ones: {:?} / {:?}", s.name, m.from_rgb32, m.from_xyz32);
        obs.err("palette::matrix::rgb_to_xyz_matrix vs reference derivation", maxdiff(&m.derived64, &want));
        ensure!(maxdiff(&m.derived64, &want) <= 1e-12, "{}: rgb_to_xyz_matrix derived by palette from its primaries = {:?}, from the published primaries = {:?}", s.name, m.derived64, want);
        ensure!(maxdiff(&m.derived32, &want) <= 1e-6, "{}: f32 rgb_to_xyz_matrix = {:?}, expected {:?}", s.name, m.derived32, want);
        if let Some((a, b)) = m.hard {
            ensure!(a == m.from_rgb64 && b == m.from_xyz64, "{}: matrix_from_rgb / matrix_from_xyz do not return the space's hard-coded matrices", s.name);
            // white: rows of rgb->xyz sum to the white point
            let w = rf::white(rs.white);
            let sums = [a[0] + a[1] + a[2], a[3] + a[4] + a[5], a[6] + a[7] + a[8]];
            obs.err("hard-coded matrix row sums vs white point", d3(sums, w));
            ensure!(d3(sums, w) <= 3e-7, "{}: rows of the RGB->XYZ matrix sum to {:?}, white point is {:?}", s.name, sums, w);
        } else {
            ensure!(m.derived64 == m.from_rgb64, "{}: no hard-coded matrix, but matrix_from_rgb differs from the derived matrix", s.name);
        }
        Ok(())
    };
    h.sweep::<IdxCase, _, _>(
        "rgb_matrices_all_standards",
        true,
        stds.len(),
        |c, obs| mat_check(c.i, obs),
        |i, obs| {
            obs.evals += 1;
            obs.sweep_nontrivial += 1;
            if let Err(f) = mat_check(i, obs) {
                obs.report(&IdxCase { i }, f);
            }
        },
    );

    // ---- Lms matrices ----
    h.sweep::<IdxCase, _, _>(
        "cone_matrices",
        true,
        3,
        |c, obs| cone_check(c.i, obs),
        |i, obs| {
            obs.evals += 1;
            obs.sweep_nontrivial += 1;
            if let Err(f) = cone_check(i, obs) {
                obs.report(&IdxCase { i }, f);
            }
        },
    );

    // ---- white and greys of every standard ----
    let nstd = stds.len();
    // white, black and a fixed ladder for every standard and component type (complete on the configuration axes)
    h.sweep::<GreyCase, _, _>(
        "white_and_grey_ladder_all_standards",
        true,
        nstd * 2,
        |c, obs| grey_point(&stds, c, obs),
        |i, obs| {
            let (std, f32_) = (i / 2, i % 2 == 1);
            let steps = 4096;
            for k in 0..=steps {
                let c = GreyCase { std, g: k as f64 / steps as f64, f32_ };
                if let Err(f) = grey_point(&stds, &c, obs) {
                    obs.report(&c, f);
                }
                obs.evals += 1;
                if obs.take_nontrivial() {
                    obs.sweep_nontrivial += 1;
                }
            }
        },
    );
    let n = h.n(300_000, 20_000_000);
    h.prop(
        "greys_generated",
        n,
        || (0..nstd, pv::gen::unit(), any::<bool>()).prop_map(|(std, g, f32_)| GreyCase { std, g, f32_ }),
        |c, obs| grey_point(&stds, c, obs),
    );

    // ---- adaptation ----
    let tables = Tables { new: new_api_table(), old: old_api_table() };
    let xyz_pool = || {
        prop_oneof![
            4 => pv::types::in_gamut_rgb().prop_map(|c| rf::rgb_to_xyz(&rf::standard("Srgb"), c)),
            3 => [0.0..=1.2f64, 0.0..=1.2f64, 0.0..=1.3f64],
            1 => (0usize..16).prop_map(|i| rf::WHITES[i].1),
            1 => (0.0..=1.0f64).prop_map(|g| [0.95047 * g, g, 1.08883 * g]),
            1 => Just([0.0, 0.0, 0.0]),
            1 => [-0.2..=2.0f64, -0.2..=2.0f64, -0.2..=2.0f64],
        ]
    };
    // every configuration with a fixed set of colours
    h.sweep::<AdaptCase, _, _>(
        "adaptation_all_configurations",
        true,
        16 * 16,
        |c, obs| adapt_point(&tables, c, obs),
        |i, obs| {
            let (a, b) = (i / 16, i % 16);
            for m in 0..3u8 {
                for f32_ in [false, true] {
                    for xyz in [[0.3, 0.4, 0.5], [0.95047, 1.0, 1.08883], [0.02, 0.01, 0.9], [0.0, 0.0, 0.0], [0.7, 0.2, 0.05]] {
                        let c = AdaptCase { a, b, m, f32_, xyz };
                        if let Err(f) = adapt_point(&tables, &c, obs) {
                            obs.report(&c, f);
                        }
                        obs.evals += 1;
                        if obs.take_nontrivial() {
                            obs.sweep_nontrivial += 1;
                        }
                    }
                }
            }
        },
    );
    let n = h.n(400_000, 30_000_000);
    h.prop(
        "adaptation_generated",
        n,
        || (0usize..16, 0usize..16, 0u8..3, any::<bool>(), xyz_pool()).prop_map(|(a, b, m, f32_, xyz)| AdaptCase { a, b, m, f32_, xyz }),
        |c, obs| adapt_point(&tables, c, obs),
    );
    let n = h.n(200_000, 10_000_000);
    h.prop(
        "adaptation_explicit_white_points",
        n,
        || {
            let white = || (0.6..=1.3f64, 0.05..=3.0f64, 0.3..=1.6f64).prop_map(|(x, y, z)| [x * y, y, z * y]);
            (white(), white(), any::<bool>(), [0.0..=1.2f64, 0.0..=1.2f64, 0.0..=1.3f64], 0u8..3, 0u8..2, any::<bool>()).prop_map(|(src, dst_w, use_dst, colour, m, dst, f32_)| ExplicitCase { src, dst_w, use_dst, colour, m, dst, f32_ })
        },
        explicit_point,
    );
    let n = h.n(100_000, 5_000_000);
    h.prop("adaptation_between_rgb_standards", n, || (0u8..6, pv::gen::unit(), 0u8..3).prop_map(|(pair, g, m)| CrossCase { pair, g, m }), cross_point);

    // ---- Matrix3 ----
    let n = h.n(400_000, 30_000_000);
    h.prop(
        "matrix3_algebra",
        n,
        || {
            let entry = || prop_oneof![6 => -2.0..=2.0f64, 1 => Just(0.0), 1 => Just(1.0), 1 => -1e-3..=1e-3f64];
            let mat = move || [entry(), entry(), entry(), entry(), entry(), entry(), entry(), entry(), entry()].prop_map(|mut m| {
                // keep the matrix comfortably invertible: push the diagonal if needed
                let mut k = 0;
                while det(&m).abs() < 1e-3 && k < 8 {
                    m[0] += 0.7;
                    m[4] += 1.1;
                    m[8] -= 1.3;
                    k += 1;
                }
                if det(&m).abs() < 1e-3 {
                    m = IDENT;
                }
                m
            });
            (mat(), mat(), [-2.0..=2.0f64, -2.0..=2.0f64, -2.0..=2.0f64], [-3.0..=3.0f64, -3.0..=3.0f64, -3.0..=3.0f64], any::<bool>()).prop_map(|(a, b, x, s, f32_)| MatCase { a, b, x, s, f32_ })
        },
        mat_point,
    );

    // ---- CAM16 adopted white ----
    let n = h.n(100_000, 5_000_000);
    h.prop(
        "cam16_adopted_white",
        n,
        || {
            (0usize..16, (-0.52..=3.48f64).prop_map(|e| 10f64.powf(e)), 0.05..=0.95f64, 0u8..4, 0.0..=20.0f64, 0u8..2, 0.0..=1.0f64, any::<bool>())
                .prop_map(|(w, la, yb, surround, sp, disc, dv, f32_)| CamCase { w, vc: Vc { la, yb, surround, sp, disc, dv }, f32_ })
        },
        cam_point,
    );
    for s in &stds {
        h.require_class("greys_generated", pv::runner::intern(&format!("standard {}", s.name)), 100);
    }
    h.require_class("adaptation_generated", "different white points", 1000);
    h.require_class("adaptation_generated", "equal white points", 1000);
    let n = h.n(200_000, 4_000_000);
    h.prop(
        "user_defined_white_points_with_y_not_1",
        n,
        || {
            let g = prop_oneof![3 => pv::gen::unit(), 2 => Just(1.0), 1 => (0u32..=4096).prop_map(|k| k as f64 / 4096.0), 1 => 0.0..=0.01f64];
            (0u8..2, g, proptest::array::uniform3(0.0..=1.0f64), any::<bool>()).prop_map(|(wp, g, c, f32_)| CustomWpCase { wp, g, c, f32_ })
        },
        custom_wp_point,
    );
    h.finish();
}

fn cone_check(i: usize, obs: &mut Obs) -> PropResult {
    let (name, fwd, inv): (&str, [f64; 9], [f64; 9]) = match i {
        0 => ("Bradford", Lms::<WithLmsMatrix<wpt::D65, Bradford>, f64>::matrix_from_xyz().into_array(), Xyz::<wpt::D65, f64>::matrix_from_lms::<WithLmsMatrix<wpt::D65, Bradford>>().into_array()),
        1 => ("VonKries", Lms::<WithLmsMatrix<wpt::D65, VonKries>, f64>::matrix_from_xyz().into_array(), Xyz::<wpt::D65, f64>::matrix_from_lms::<WithLmsMatrix<wpt::D65, VonKries>>().into_array()),
        _ => ("UnitMatrix", Lms::<WithLmsMatrix<wpt::D65, UnitMatrix>, f64>::matrix_from_xyz().into_array(), Xyz::<wpt::D65, f64>::matrix_from_lms::<WithLmsMatrix<wpt::D65, UnitMatrix>>().into_array()),
    };
    let want = flat(&cone(i as u8));
    ensure!(fwd == want, "{} XYZ->LMS matrix {:?} differs from the published {:?}", name, fwd, want);
    let want_inv = flat(&rf::inv(&cone(i as u8)));
    obs.err("LMS->XYZ matrix vs inverse of the published matrix", maxdiff(&inv, &want_inv));
    ensure!(maxdiff(&inv, &want_inv) <= 1e-6, "{} LMS->XYZ matrix {:?} is not the inverse of the published matrix ({:?})", name, inv, want_inv);
    let prod = flat(&rf::matmul(&unflat(&inv), &unflat(&fwd)));
    ensure!(maxdiff(&prod, &IDENT) <= 1.5e-6, "{}: LMS->XYZ * XYZ->LMS = {:?}", name, prod);
    if false {
        fail!("unreachable");
    }
    Ok(())
}
