//! C03 — clamped, checked and unclamped conversions obey one bounds contract.
use palette::cam16::{Cam16, Cam16Jch, Cam16Jmh, Cam16Jsh, Cam16Qch, Cam16Qmh, Cam16Qsh, Cam16UcsJab, Cam16UcsJmh};
use palette::convert::{FromColorUnclamped, TryFromColor};
use palette::encoding;
use palette::lms::matrix::{Bradford, VonKries};
use palette::lms::Lms;
use palette::white_point::{D50, D65};
use palette::{
    Alpha, Clamp, ClampAssign, FromColor, Hsl, Hsluv, Hsv, Hwb, IsWithinBounds, Lab, Lch, Lchuv, LinSrgb, Luv, Okhsl, Okhsv, Okhwb, Oklab, Oklch, Srgb, SrgbLuma, Xyz, Yxy,
};
use proptest::prelude::*;
use pv::ensure;
use pv::runner::{Fail, Harness, Obs, PropResult};
use serde::{Deserialize, Serialize};

/// how the model treats one component (bounds taken from the public accessors at run time)
#[derive(Clone, Copy, Debug)]
enum Spec {
    Range(f64, Option<f64>),
    Free,
    HwbW,
    HwbB,
}

trait Flt: Copy + std::fmt::Debug + PartialOrd + 'static {
    fn from64(v: f64) -> Self;
    fn to64(self) -> f64;
    fn name() -> &'static str;
    fn add(self, o: Self) -> Self;
    fn div(self, o: Self) -> Self;
    fn ulp(self) -> f64;
}
impl Flt for f32 {
    fn from64(v: f64) -> f32 { v as f32 }
    fn to64(self) -> f64 { self as f64 }
    fn name() -> &'static str { "f32" }
    fn add(self, o: f32) -> f32 { self + o }
    fn div(self, o: f32) -> f32 { self / o }
    fn ulp(self) -> f64 { pv::gen::ulp32(self) as f64 }
}
impl Flt for f64 {
    fn from64(v: f64) -> f64 { v }
    fn to64(self) -> f64 { self }
    fn name() -> &'static str { "f64" }
    fn add(self, o: f64) -> f64 { self + o }
    fn div(self, o: f64) -> f64 { self / o }
    fn ulp(self) -> f64 { pv::gen::ulp64(self) }
}

trait BT: Copy + std::fmt::Debug + Clamp + ClampAssign + IsWithinBounds<Mask = bool> {
    type F: Flt;
    fn from_arr(a: &[f64]) -> Self;
    fn to_arr(&self) -> Vec<f64>;
    fn spec() -> Vec<Spec>;
}

macro_rules! bt3 {
    ($ty:ty, $f:ty, [$($spec:expr),*]) => {
        impl BT for $ty {
            type F = $f;
            fn from_arr(a: &[f64]) -> Self { <$ty>::from([a[0] as $f, a[1] as $f, a[2] as $f]) }
            fn to_arr(&self) -> Vec<f64> { let x: [$f; 3] = (*self).into(); x.iter().map(|v| *v as f64).collect() }
            fn spec() -> Vec<Spec> { vec![$($spec),*] }
        }
    };
}
macro_rules! r {
    ($min:expr, $max:expr) => { Spec::Range($min as f64, Some($max as f64)) };
    ($min:expr) => { Spec::Range($min as f64, None) };
}
macro_rules! both {
    ($m:ident, $($rest:tt)*) => { $m!(f32, $($rest)*); $m!(f64, $($rest)*); };
}

macro_rules! def_rgb { ($f:ty, $S:ty) => { bt3!(palette::rgb::Rgb<$S, $f>, $f, [r!(<palette::rgb::Rgb<$S, $f>>::min_red(), <palette::rgb::Rgb<$S, $f>>::max_red()), r!(<palette::rgb::Rgb<$S, $f>>::min_green(), <palette::rgb::Rgb<$S, $f>>::max_green()), r!(<palette::rgb::Rgb<$S, $f>>::min_blue(), <palette::rgb::Rgb<$S, $f>>::max_blue())]); }; }
both!(def_rgb, encoding::Srgb);
both!(def_rgb, encoding::Linear<encoding::Srgb>);
both!(def_rgb, encoding::AdobeRgb);
macro_rules! def_xyz { ($f:ty, $W:ty) => { bt3!(Xyz<$W, $f>, $f, [r!(<Xyz<$W, $f>>::min_x(), <Xyz<$W, $f>>::max_x()), r!(<Xyz<$W, $f>>::min_y(), <Xyz<$W, $f>>::max_y()), r!(<Xyz<$W, $f>>::min_z(), <Xyz<$W, $f>>::max_z())]); }; }
both!(def_xyz, D65);
both!(def_xyz, D50);
macro_rules! def_yxy { ($f:ty, $W:ty) => { bt3!(Yxy<$W, $f>, $f, [r!(<Yxy<$W, $f>>::min_x(), <Yxy<$W, $f>>::max_x()), r!(<Yxy<$W, $f>>::min_y(), <Yxy<$W, $f>>::max_y()), r!(<Yxy<$W, $f>>::min_luma(), <Yxy<$W, $f>>::max_luma())]); }; }
both!(def_yxy, D65);
macro_rules! def_lab { ($f:ty, $W:ty) => { bt3!(Lab<$W, $f>, $f, [r!(<Lab<$W, $f>>::min_l(), <Lab<$W, $f>>::max_l()), r!(<Lab<$W, $f>>::min_a(), <Lab<$W, $f>>::max_a()), r!(<Lab<$W, $f>>::min_b(), <Lab<$W, $f>>::max_b())]); }; }
both!(def_lab, D65);
macro_rules! def_luv { ($f:ty, $W:ty) => { bt3!(Luv<$W, $f>, $f, [r!(<Luv<$W, $f>>::min_l(), <Luv<$W, $f>>::max_l()), r!(<Luv<$W, $f>>::min_u(), <Luv<$W, $f>>::max_u()), r!(<Luv<$W, $f>>::min_v(), <Luv<$W, $f>>::max_v())]); }; }
both!(def_luv, D65);
macro_rules! def_lch { ($f:ty, $W:ty) => { bt3!(Lch<$W, $f>, $f, [r!(<Lch<$W, $f>>::min_l(), <Lch<$W, $f>>::max_l()), r!(<Lch<$W, $f>>::min_chroma()), Spec::Free]); }; }
both!(def_lch, D65);
macro_rules! def_lchuv { ($f:ty, $W:ty) => { bt3!(Lchuv<$W, $f>, $f, [r!(<Lchuv<$W, $f>>::min_l(), <Lchuv<$W, $f>>::max_l()), r!(<Lchuv<$W, $f>>::min_chroma(), <Lchuv<$W, $f>>::max_chroma()), Spec::Free]); }; }
both!(def_lchuv, D65);
macro_rules! def_hsluv { ($f:ty, $W:ty) => { bt3!(Hsluv<$W, $f>, $f, [Spec::Free, r!(<Hsluv<$W, $f>>::min_saturation(), <Hsluv<$W, $f>>::max_saturation()), r!(<Hsluv<$W, $f>>::min_l(), <Hsluv<$W, $f>>::max_l())]); }; }
both!(def_hsluv, D65);
macro_rules! def_hsl { ($f:ty, $S:ty) => { bt3!(Hsl<$S, $f>, $f, [Spec::Free, r!(<Hsl<$S, $f>>::min_saturation(), <Hsl<$S, $f>>::max_saturation()), r!(<Hsl<$S, $f>>::min_lightness(), <Hsl<$S, $f>>::max_lightness())]); }; }
both!(def_hsl, encoding::Srgb);
macro_rules! def_hsv { ($f:ty, $S:ty) => { bt3!(Hsv<$S, $f>, $f, [Spec::Free, r!(<Hsv<$S, $f>>::min_saturation(), <Hsv<$S, $f>>::max_saturation()), r!(<Hsv<$S, $f>>::min_value(), <Hsv<$S, $f>>::max_value())]); }; }
both!(def_hsv, encoding::Srgb);
macro_rules! def_hwb { ($f:ty, $S:ty) => { bt3!(Hwb<$S, $f>, $f, [Spec::Free, Spec::HwbW, Spec::HwbB]); }; }
both!(def_hwb, encoding::Srgb);
macro_rules! def_ok { ($f:ty) => {
    bt3!(Oklab<$f>, $f, [r!(<Oklab<$f>>::min_l(), <Oklab<$f>>::max_l()), Spec::Free, Spec::Free]);
    bt3!(Oklch<$f>, $f, [r!(<Oklch<$f>>::min_l(), <Oklch<$f>>::max_l()), r!(<Oklch<$f>>::min_chroma()), Spec::Free]);
    bt3!(Okhsl<$f>, $f, [Spec::Free, r!(<Okhsl<$f>>::min_saturation(), <Okhsl<$f>>::max_saturation()), r!(<Okhsl<$f>>::min_lightness(), <Okhsl<$f>>::max_lightness())]);
    // documented slack of 1e-6 above the maximum (MAX_SRGB_SATURATION_INACCURACY), added in the component type
    bt3!(Okhsv<$f>, $f, [Spec::Free, r!(<Okhsv<$f>>::min_saturation(), <Okhsv<$f>>::max_saturation() + (1e-6 as $f)), r!(<Okhsv<$f>>::min_value(), <Okhsv<$f>>::max_value() + (1e-6 as $f))]);
    bt3!(Okhwb<$f>, $f, [Spec::Free, Spec::HwbW, Spec::HwbB]);
    bt3!(Cam16UcsJab<$f>, $f, [r!(<Cam16UcsJab<$f>>::min_lightness(), <Cam16UcsJab<$f>>::max_lightness()), Spec::Free, Spec::Free]);
    bt3!(Cam16UcsJmh<$f>, $f, [r!(<Cam16UcsJmh<$f>>::min_lightness(), <Cam16UcsJmh<$f>>::max_lightness()), r!(<Cam16UcsJmh<$f>>::min_colorfulness()), Spec::Free]);
    bt3!(Cam16Jch<$f>, $f, [r!(0.0), r!(0.0), Spec::Free]);
    bt3!(Cam16Jmh<$f>, $f, [r!(0.0), r!(0.0), Spec::Free]);
    bt3!(Cam16Jsh<$f>, $f, [r!(0.0), r!(0.0), Spec::Free]);
    bt3!(Cam16Qch<$f>, $f, [r!(0.0), r!(0.0), Spec::Free]);
    bt3!(Cam16Qmh<$f>, $f, [r!(0.0), r!(0.0), Spec::Free]);
    bt3!(Cam16Qsh<$f>, $f, [r!(0.0), r!(0.0), Spec::Free]);
    impl BT for Cam16<$f> {
        type F = $f;
        fn from_arr(a: &[f64]) -> Self {
            Cam16 { lightness: a[0] as $f, chroma: a[1] as $f, hue: (a[2] as $f).into(), brightness: a[3] as $f, colorfulness: a[4] as $f, saturation: a[5] as $f }
        }
        fn to_arr(&self) -> Vec<f64> {
            vec![self.lightness as f64, self.chroma as f64, self.hue.into_raw_degrees() as f64, self.brightness as f64, self.colorfulness as f64, self.saturation as f64]
        }
        fn spec() -> Vec<Spec> { vec![r!(0.0), r!(0.0), Spec::Free, r!(0.0), r!(0.0), r!(0.0)] }
    }
    impl BT for SrgbLuma<$f> {
        type F = $f;
        fn from_arr(a: &[f64]) -> Self { SrgbLuma::new(a[0] as $f) }
        fn to_arr(&self) -> Vec<f64> { vec![self.luma as f64] }
        fn spec() -> Vec<Spec> { vec![r!(<SrgbLuma<$f>>::min_luma(), <SrgbLuma<$f>>::max_luma())] }
    }
}; }
def_ok!(f32);
def_ok!(f64);
macro_rules! def_lms { ($f:ty, $M:ty) => { bt3!(Lms<$M, $f>, $f, [r!(<Lms<$M, $f>>::min_long()), r!(<Lms<$M, $f>>::min_medium()), r!(<Lms<$M, $f>>::min_short())]); }; }
both!(def_lms, VonKries);
both!(def_lms, Bradford);

// ------------------------------------------------------------------------------------------
fn model_within(x: &[f64], spec: &[Spec]) -> bool {
    let mut ok = true;
    let (mut w, mut b) = (None, None);
    for (v, s) in x.iter().zip(spec) {
        match s {
            Spec::Range(min, max) => {
                ok &= *v >= *min && max.map_or(true, |m| *v <= m);
            }
            Spec::Free => {}
            Spec::HwbW => w = Some(*v),
            Spec::HwbB => b = Some(*v),
        }
    }
    (ok, w, b).0 && match (w, b) {
        (Some(_), Some(_)) => true,
        _ => true,
    }
}

/// model clamp; Hwb-style components are normalised in the component type F
fn model_clamp<F: Flt>(x: &[f64], spec: &[Spec]) -> Vec<f64> {
    let mut out: Vec<f64> = x.to_vec();
    let (mut wi, mut bi) = (None, None);
    for (i, s) in spec.iter().enumerate() {
        match s {
            Spec::Range(min, max) => {
                let mut v = x[i];
                if v < *min {
                    v = *min;
                }
                if let Some(m) = max {
                    if v > *m {
                        v = *m;
                    }
                }
                out[i] = v;
            }
            Spec::Free => {}
            Spec::HwbW => wi = Some(i),
            Spec::HwbB => bi = Some(i),
        }
    }
    if let (Some(wi), Some(bi)) = (wi, bi) {
        let w = F::from64(x[wi].max(0.0));
        let b = F::from64(x[bi].max(0.0));
        let sum = b.add(w);
        if sum.to64() > 1.0 {
            out[wi] = w.div(sum).to64();
            out[bi] = b.div(sum).to64();
        } else {
            out[wi] = w.to64();
            out[bi] = b.to64();
        }
    }
    out
}

fn hwb_within<F: Flt>(x: &[f64], spec: &[Spec]) -> Option<bool> {
    let wi = spec.iter().position(|s| matches!(s, Spec::HwbW))?;
    let bi = spec.iter().position(|s| matches!(s, Spec::HwbB))?;
    let (w, b) = (F::from64(x[wi]), F::from64(x[bi]));
    Some(x[wi] >= 0.0 && x[wi] <= 1.0 && x[bi] >= 0.0 && x[bi] <= 1.0 && w.add(b).to64() <= 1.0)
}

fn same(a: &[f64], b: &[f64]) -> bool {
    a.len() == b.len() && a.iter().zip(b).all(|(x, y)| x == y || (x.is_nan() && y.is_nan()))
}

fn check_bare<C: BT>(name: &str, comps: &[f64], obs: &mut Obs) -> PropResult {
    let spec = C::spec();
    let x = C::from_arr(comps);
    let xin = x.to_arr();
    if xin.iter().any(|v| !v.is_finite()) {
        obs.class("overflowed-to-non-finite (skipped)");
        return Ok(());
    }
    let is_hwb = spec.iter().any(|s| matches!(s, Spec::HwbW));
    let want_within = match hwb_within::<C::F>(&xin, &spec) {
        Some(b) => b,
        None => model_within(&xin, &spec),
    };
    // classes: below / above per bounded component
    let (mut below, mut above) = (false, false);
    for (v, s) in xin.iter().zip(&spec) {
        match s {
            Spec::Range(min, max) => {
                below |= *v < *min;
                above |= max.map_or(false, |m| *v > m);
            }
            Spec::HwbW | Spec::HwbB => {
                below |= *v < 0.0;
                above |= *v > 1.0;
            }
            Spec::Free => {}
        }
    }
    obs.nontrivial_if(below || above || (is_hwb && !want_within));
    obs.class(if below && above { "mixed: one below, another above" } else if below { "below only" } else if above { "above only" } else if want_within { "in bounds" } else { "hwb sum > 1 only" });
    let within = x.is_within_bounds();
    ensure!(within == want_within, "{}<{}>{:?}.is_within_bounds() = {} but the documented bounds say {}", name, C::F::name(), xin, within, want_within);
    let c = x.clamp();
    let cv = c.to_arr();
    let want = model_clamp::<C::F>(&xin, &spec);
    if !c.is_within_bounds() {
        // a normalised whiteness+blackness that rounds to 1+ulp is a rounding-level question with its own key
        let key = if is_hwb && same(&cv, &want) { "C03:hwb-normalise-ulp" } else { "C03:clamp-not-within-bounds" };
        return Err(Fail::keyed(key, format!("{}<{}>{:?}.clamp() = {:?} reports !is_within_bounds()", name, C::F::name(), xin, cv)));
    }
    let hwb_sum_overflow = is_hwb && {
        let wi = spec.iter().position(|s| matches!(s, Spec::HwbW)).unwrap();
        let bi = spec.iter().position(|s| matches!(s, Spec::HwbB)).unwrap();
        !C::F::from64(xin[wi].max(0.0)).add(C::F::from64(xin[bi].max(0.0))).to64().is_finite()
    };
    if hwb_sum_overflow {
        // whiteness + blackness overflows the component type: the normalised pair is not
        // computable by the documented rule either; only the bounds clauses apply
        obs.class("hwb sum overflows (model equality skipped)");
    } else if is_hwb {
        for (g, w) in cv.iter().zip(&want) {
            // (absolute tolerance of 2 ulp of 1.0: the result only has to be the normalised pair
            //  to within the rounding of a sum that must not exceed 1)
            ensure!((g - w).abs() <= 2.0 * C::F::from64(1.0).ulp(), "{}<{}>{:?}.clamp() = {:?} but the documented rule (clamp to >= 0, then divide both by their sum if it exceeds 1) gives {:?}", name, C::F::name(), xin, cv, want);
        }
    } else {
        ensure!(same(&cv, &want), "{}<{}>{:?}.clamp() = {:?} but clamping to the bounds from the min/max accessors gives {:?}", name, C::F::name(), xin, cv, want);
    }
    if want_within {
        ensure!(same(&cv, &xin), "{}<{}>{:?} is within bounds but clamp() changed it to {:?}", name, C::F::name(), xin, cv);
    }
    let cc = c.clamp().to_arr();
    ensure!(same(&cc, &cv), "{}<{}>: clamp is not idempotent: {:?} -> {:?} -> {:?}", name, C::F::name(), xin, cv, cc);
    let mut y = x;
    y.clamp_assign();
    ensure!(same(&y.to_arr(), &cv), "{}<{}>{:?}: clamp_assign gives {:?} but clamp gives {:?}", name, C::F::name(), xin, y.to_arr(), cv);
    // slices
    let mut sl = [x, c, x];
    let sl_within = sl[..].is_within_bounds();
    ensure!(sl_within == want_within, "[{}]::is_within_bounds() = {} for elements [x, clamp(x), x] with x within = {}", name, sl_within, want_within);
    ensure!(sl[1..2].is_within_bounds() && sl[..0].is_within_bounds(), "slice is_within_bounds on clamped/empty slice");
    sl[..].clamp_assign();
    for e in sl.iter() {
        ensure!(same(&e.to_arr(), &cv), "[{}]::clamp_assign differs from element-wise clamp: {:?} vs {:?}", name, e.to_arr(), cv);
    }
    Ok(())
}

// Does `T: IsWithinBounds` / `B: TryFromColor<A>` exist at all? Asked through autoref specialisation at the concrete types
// (inside the entry macros), so that a tree without the impl still builds and the absence is reported as what it is: on the
// pinned tree `Alpha<C, f32>` had no usable impl and `.is_within_bounds()` silently fell through Deref to the colour.
struct Wr<'a, T: ?Sized>(&'a T);
trait SpecWithin {
    fn within(&self) -> Option<bool>;
}
impl<'a, T: ?Sized + IsWithinBounds<Mask = bool>> SpecWithin for Wr<'a, T> {
    fn within(&self) -> Option<bool> {
        Some(IsWithinBounds::is_within_bounds(self.0))
    }
}
trait FallWithin {
    fn within(&self) -> Option<bool>;
}
impl<'a, T: ?Sized> FallWithin for &Wr<'a, T> {
    fn within(&self) -> Option<bool> {
        None
    }
}
struct Tw<A, B>(A, std::marker::PhantomData<B>);
trait SpecTry<B> {
    fn try_it(self) -> Option<Result<B, B>>;
}
impl<A, B: TryFromColor<A>> SpecTry<B> for Tw<A, B> {
    fn try_it(self) -> Option<Result<B, B>> {
        Some(B::try_from_color(self.0).map_err(|e| e.color()))
    }
}
trait FallTry<B> {
    fn try_it(self) -> Option<Result<B, B>>;
}
impl<A, B> FallTry<B> for &Tw<A, B> {
    fn try_it(self) -> Option<Result<B, B>> {
        None
    }
}
/// what the probes found for one Alpha value: (is_within_bounds of the value, of the clamped value, of the slice [value, clamped])
type AlphaWithin = fn(&[f64]) -> Option<(bool, bool, bool)>;

fn check_alpha<C: BT>(name: &str, comps: &[f64], obs: &mut Obs, probe: AlphaWithin) -> PropResult
where
    Alpha<C, C::F>: Clamp + ClampAssign + Copy,
{
    // (On the pinned tree Alpha<C, f32|f64> had no usable IsWithinBounds impl - it asked for `T: IsWithinBounds`, which no
    //  component type provides - and a method call silently fell through Deref to the colour's predicate, ignoring alpha;
    //  repaired in /repo, see known_findings.txt. The predicate is called on the Alpha type explicitly here.)
    let n = comps.len() - 1;
    let x = C::from_arr(&comps[..n]);
    if x.to_arr().iter().any(|v| !v.is_finite()) {
        return Ok(());
    }
    let a = <C::F as Flt>::from64(comps[n]);
    let a64 = Flt::to64(a);
    if !a64.is_finite() {
        return Ok(());
    }
    let col_within = x.is_within_bounds();
    let alpha_within = (0.0..=1.0).contains(&a64);
    obs.nontrivial_if(!col_within || !alpha_within);
    obs.class(match (col_within, alpha_within) {
        (true, true) => "alpha form: both in",
        (true, false) => "alpha form: only alpha out",
        (false, true) => "alpha form: only colour out",
        (false, false) => "alpha form: both out",
    });
    let xa = Alpha { color: x, alpha: a };
    let Some((within, clamped_within, slice_within)) = probe(comps) else {
        pv::fail!("Alpha<{}, {}> does not implement IsWithinBounds: .is_within_bounds() on it resolves through Deref to the colour's predicate and ignores alpha (colour {:?} with alpha {} reports {})", name, <C::F as Flt>::name(), &comps[..n], a64, col_within);
    };
    ensure!(within == (col_within && alpha_within), "Alpha<{}>{:?}: is_within_bounds = {} but the colour is {} its bounds and alpha {} is {} [0, 1]", name, comps, within, if col_within { "within" } else { "outside" }, a64, if alpha_within { "within" } else { "outside" });
    let c = xa.clamp();
    ensure!(clamped_within, "Alpha<{}>{:?}: the clamped value does not report itself within bounds", name, comps);
    let want_a = a64.clamp(0.0, 1.0);
    ensure!(same(&c.color.to_arr(), &x.clamp().to_arr()), "Alpha<{}>::clamp: colour {:?} differs from the bare clamp {:?}", name, c.color.to_arr(), x.clamp().to_arr());
    ensure!(Flt::to64(c.alpha) == want_a, "Alpha<{}>::clamp: alpha {} -> {} expected {}", name, a64, Flt::to64(c.alpha), want_a);
    if col_within && alpha_within {
        ensure!(same(&c.color.to_arr(), &x.to_arr()) && Flt::to64(c.alpha) == a64, "Alpha<{}>: in-bounds value changed by clamp", name);
    }
    let mut y = xa;
    y.clamp_assign();
    ensure!(same(&y.color.to_arr(), &c.color.to_arr()) && Flt::to64(y.alpha) == Flt::to64(c.alpha), "Alpha<{}>: clamp_assign differs from clamp", name);
    let cc = c.clamp();
    ensure!(same(&cc.color.to_arr(), &c.color.to_arr()) && Flt::to64(cc.alpha) == Flt::to64(c.alpha), "Alpha<{}>: clamp not idempotent", name);
    let mut sl = [xa, c];
    ensure!(slice_within == within, "[Alpha<{}>]::is_within_bounds differs from the element-wise predicate", name);
    sl[..].clamp_assign();
    ensure!(same(&sl[0].color.to_arr(), &c.color.to_arr()) && Flt::to64(sl[0].alpha) == Flt::to64(c.alpha), "[Alpha<{}>]::clamp_assign differs from clamp", name);
    Ok(())
}

type CheckFn = fn(&str, &[f64], &mut Obs) -> PropResult;
struct TypeEntry {
    name: &'static str,
    n: usize,
    spec: fn() -> Vec<Spec>,
    bare: CheckFn,
    alpha: CheckFn,
}
macro_rules! entry {
    ($name:literal, $ty:ty) => {
        TypeEntry {
            name: $name,
            n: 0,
            spec: <$ty as BT>::spec,
            bare: check_bare::<$ty>,
            alpha: |name, comps, obs| {
                check_alpha::<$ty>(name, comps, obs, |comps: &[f64]| {
                    let n = comps.len() - 1;
                    let xa = Alpha { color: <$ty as BT>::from_arr(&comps[..n]), alpha: <<$ty as BT>::F as Flt>::from64(comps[n]) };
                    let c = xa.clamp();
                    let sl = [xa, c];
                    Some(((&Wr(&xa)).within()?, (&Wr(&c)).within()?, (&Wr(&sl[..])).within()?))
                })
            },
        }
    };
}
macro_rules! entries {
    ($($name:literal => $ty32:ty, $ty64:ty;)*) => { vec![$(entry!($name, $ty32), entry!($name, $ty64)),*] };
}

fn types() -> Vec<TypeEntry> {
    let mut v = entries! {
        "Srgb" => Srgb<f32>, Srgb<f64>;
        "LinSrgb" => LinSrgb<f32>, LinSrgb<f64>;
        "Rgb<AdobeRgb>" => palette::rgb::Rgb<encoding::AdobeRgb, f32>, palette::rgb::Rgb<encoding::AdobeRgb, f64>;
        "Luma" => SrgbLuma<f32>, SrgbLuma<f64>;
        "Xyz<D65>" => Xyz<D65, f32>, Xyz<D65, f64>;
        "Xyz<D50>" => Xyz<D50, f32>, Xyz<D50, f64>;
        "Yxy" => Yxy<D65, f32>, Yxy<D65, f64>;
        "Lab" => Lab<D65, f32>, Lab<D65, f64>;
        "Luv" => Luv<D65, f32>, Luv<D65, f64>;
        "Lch" => Lch<D65, f32>, Lch<D65, f64>;
        "Lchuv" => Lchuv<D65, f32>, Lchuv<D65, f64>;
        "Hsluv" => Hsluv<D65, f32>, Hsluv<D65, f64>;
        "Hsl" => Hsl<encoding::Srgb, f32>, Hsl<encoding::Srgb, f64>;
        "Hsv" => Hsv<encoding::Srgb, f32>, Hsv<encoding::Srgb, f64>;
        "Hwb" => Hwb<encoding::Srgb, f32>, Hwb<encoding::Srgb, f64>;
        "Oklab" => Oklab<f32>, Oklab<f64>;
        "Oklch" => Oklch<f32>, Oklch<f64>;
        "Okhsl" => Okhsl<f32>, Okhsl<f64>;
        "Okhsv" => Okhsv<f32>, Okhsv<f64>;
        "Okhwb" => Okhwb<f32>, Okhwb<f64>;
        "Lms<VonKries>" => Lms<VonKries, f32>, Lms<VonKries, f64>;
        "Lms<Bradford>" => Lms<Bradford, f32>, Lms<Bradford, f64>;
        "Cam16" => Cam16<f32>, Cam16<f64>;
        "Cam16Jch" => Cam16Jch<f32>, Cam16Jch<f64>;
        "Cam16Jmh" => Cam16Jmh<f32>, Cam16Jmh<f64>;
        "Cam16Jsh" => Cam16Jsh<f32>, Cam16Jsh<f64>;
        "Cam16Qch" => Cam16Qch<f32>, Cam16Qch<f64>;
        "Cam16Qmh" => Cam16Qmh<f32>, Cam16Qmh<f64>;
        "Cam16Qsh" => Cam16Qsh<f32>, Cam16Qsh<f64>;
        "Cam16UcsJab" => Cam16UcsJab<f32>, Cam16UcsJab<f64>;
        "Cam16UcsJmh" => Cam16UcsJmh<f32>, Cam16UcsJmh<f64>;
    };
    for e in v.iter_mut() {
        e.n = (e.spec)().len();
    }
    v
}

#[derive(Debug, Clone, Serialize, Deserialize)]
struct ClampCase {
    ty: usize,
    alpha_form: bool,
    comps: Vec<f64>,
}

/// one component "far out" relative to [min, max] (max = None -> unbounded above)
fn far_out(min: f64, max: Option<f64>) -> BoxedStrategy<f64> {
    let hi = max.unwrap_or(min + 100.0);
    let range = (hi - min).abs().max(1e-3);
    prop_oneof![
        3 => Just(min - 1e6 * range),
        3 => (0.0..=1.0f64).prop_map(move |t| min - range * (1e-3 + 5.0 * t)),
        2 => Just(pv::gen::next_up64(min, -1)),
        2 => Just(min - 1e-9 * range),
        2 => Just(min),
        6 => (0.0..=1.0f64).prop_map(move |t| min + range * t),
        2 => Just(hi),
        2 => Just(pv::gen::next_up64(hi, 1)),
        2 => Just(hi + 1e-9 * range),
        1 => Just(hi + 5e-7),
        1 => Just(hi + 1e-6),
        1 => Just(hi + 2e-6),
        3 => (0.0..=1.0f64).prop_map(move |t| hi + range * (1e-3 + 5.0 * t)),
        3 => Just(hi + 1e6 * range),
        1 => Just(-3.0e38),
        1 => Just(3.0e38),
        1 => Just(-0.0),
        1 => Just(0.5 * (min + hi)),
    ]
    .boxed()
}

fn comp_strategy(s: &Spec) -> BoxedStrategy<f64> {
    match s {
        Spec::Range(min, max) => far_out(*min, *max),
        Spec::Free => prop_oneof![3 => pv::gen::hue(), 2 => -200.0..=200.0f64, 1 => Just(1e9), 1 => Just(-1e9)].boxed(),
        Spec::HwbW | Spec::HwbB => prop_oneof![6 => far_out(0.0, Some(1.0)), 2 => 0.0..=0.5f64, 1 => Just(0.5), 1 => Just(0.3), 1 => Just(0.7)].boxed(),
    }
}

fn clamp_case(types: &'static [TypeEntry]) -> BoxedStrategy<ClampCase> {
    (0..types.len(), any::<bool>())
        .prop_flat_map(move |(ty, alpha_form)| {
            let spec = (types[ty].spec)();
            let mut comps: Vec<BoxedStrategy<f64>> = spec.iter().map(comp_strategy).collect();
            if alpha_form {
                comps.push(far_out(0.0, Some(1.0)));
            }
            comps.prop_map(move |comps| ClampCase { ty, alpha_form, comps })
        })
        .boxed()
}

// ---------------- conversions: from_color == unclamped + clamp, try_from_color ----------------
trait Arr3: Copy {
    fn from3(a: [f64; 3]) -> Self;
    fn to_v(&self) -> Vec<f64>;
}
impl<C: BT> Arr3 for C {
    fn from3(a: [f64; 3]) -> Self { C::from_arr(&a) }
    fn to_v(&self) -> Vec<f64> { self.to_arr() }
}

/// checked conversion of a transparent colour, through the probe: None = no such impl; Some((ok, colour components, alpha))
type AlphaTry = fn(&[f64]) -> Option<(bool, Vec<f64>, f64)>;

fn check_conv<A, B>(names: (&str, &str), comps: &[f64], obs: &mut Obs, alpha_try: AlphaTry) -> PropResult
where
    A: BT,
    B: BT + FromColorUnclamped<A> + FromColor<A> + TryFromColor<A>,
    Alpha<B, B::F>: FromColorUnclamped<Alpha<A, A::F>> + FromColor<Alpha<A, A::F>> + Clamp + Copy,
    Alpha<A, A::F>: Copy,
{
    let a = A::from_arr(&comps[..3]);
    if a.to_arr().iter().any(|v| !v.is_finite()) {
        return Ok(());
    }
    let u = B::from_color_unclamped(a);
    let uv = u.to_arr();
    if uv.iter().any(|v| !v.is_finite()) {
        obs.class("unclamped result not finite (C07's concern; skipped)");
        return Ok(());
    }
    let within = u.is_within_bounds();
    obs.nontrivial_if(!within);
    obs.class(if within { "unclamped result within bounds" } else { "unclamped result out of bounds" });
    let clamped = B::from_color(a).to_arr();
    let want = u.clamp().to_arr();
    ensure!(same(&clamped, &want), "{}::from_color({}{:?}) = {:?} but from_color_unclamped(..).clamp() = {:?}", names.1, names.0, a.to_arr(), clamped, want);
    match B::try_from_color(a) {
        Ok(v) => {
            ensure!(within, "{}::try_from_color({}{:?}) = Ok({:?}) although the unclamped result {:?} is out of bounds", names.1, names.0, a.to_arr(), v.to_arr(), uv);
            ensure!(same(&v.to_arr(), &uv), "{}::try_from_color Ok value {:?} differs from the unclamped result {:?}", names.1, v.to_arr(), uv);
        }
        Err(e) => {
            let ev = e.color().to_arr();
            ensure!(!within, "{}::try_from_color({}{:?}) = Err although the unclamped result {:?} is within bounds", names.1, names.0, a.to_arr(), uv);
            ensure!(same(&ev, &uv), "{}::try_from_color error carries {:?}, unclamped result is {:?}", names.1, ev, uv);
        }
    }
    // Alpha-wrapped: from_color == from_color_unclamped + clamp (colour and alpha)
    if comps.len() > 3 {
        let al = <A::F as Flt>::from64(comps[3]);
        let aa = Alpha { color: a, alpha: al };
        let ua = <Alpha<B, B::F>>::from_color_unclamped(aa).clamp();
        let ca = <Alpha<B, B::F>>::from_color(aa);
        ensure!(same(&ua.color.to_arr(), &ca.color.to_arr()) && Flt::to64(ua.alpha) == Flt::to64(ca.alpha), "Alpha<{}>::from_color(Alpha<{}>) differs from unclamped + clamp", names.1, names.0);
        ensure!(same(&ca.color.to_arr(), &clamped), "Alpha<{}>::from_color colour differs from the bare from_color", names.1);
        // the checked conversion of a transparent colour succeeds exactly when colour and alpha are within bounds
        let un = <Alpha<B, B::F>>::from_color_unclamped(aa);
        let al64 = Flt::to64(un.alpha);
        let want_ok = within && (0.0..=1.0).contains(&al64);
        let Some((ok, col, alpha)) = alpha_try(comps) else {
            pv::fail!("Alpha<{}>::try_from_color(Alpha<{}>) does not exist: the checked conversion is not available for transparent colours (Alpha has no usable IsWithinBounds impl)", names.1, names.0);
        };
        if ok {
            ensure!(want_ok, "Alpha<{}>::try_from_color(Alpha<{}>{:?}, alpha {}) = Ok although colour within = {} and alpha = {}", names.1, names.0, a.to_arr(), Flt::to64(al), within, al64);
        } else {
            ensure!(!want_ok, "Alpha<{}>::try_from_color(Alpha<{}>{:?}, alpha {}) = Err although colour and alpha are within bounds", names.1, names.0, a.to_arr(), Flt::to64(al));
        }
        ensure!(same(&col, &uv) && alpha == al64, "Alpha<{}>::try_from_color {} does not carry the unclamped result", names.1, if ok { "Ok value" } else { "error" });
    }
    Ok(())
}

type ConvFn = fn((&str, &str), &[f64], &mut Obs) -> PropResult;
struct ConvEntry {
    a: &'static str,
    b: &'static str,
    spec: fn() -> Vec<Spec>,
    f: ConvFn,
}
macro_rules! conv {
    ($an:literal, $A:ty => $bn:literal, $B:ty) => {
        ConvEntry {
            a: $an,
            b: $bn,
            spec: <$A as BT>::spec,
            f: |names, comps, obs| {
                check_conv::<$A, $B>(names, comps, obs, |comps: &[f64]| {
                    if comps.len() <= 3 {
                        return None;
                    }
                    let aa = Alpha { color: <$A as BT>::from_arr(&comps[..3]), alpha: <<$A as BT>::F as Flt>::from64(comps[3]) };
                    let r: Result<Alpha<$B, <$B as BT>::F>, Alpha<$B, <$B as BT>::F>> = Tw(aa, std::marker::PhantomData::<Alpha<$B, <$B as BT>::F>>).try_it()?;
                    let (ok, v) = match r { Ok(v) => (true, v), Err(v) => (false, v) };
                    Some((ok, v.color.to_arr(), Flt::to64(v.alpha)))
                })
            },
        }
    };
}
macro_rules! convs {
    ($($an:literal, $A32:ty, $A64:ty => $bn:literal, $B32:ty, $B64:ty;)*) => { vec![$(conv!($an, $A32 => $bn, $B32), conv!($an, $A64 => $bn, $B64)),*] };
}
fn conversions() -> Vec<ConvEntry> {
    type S = encoding::Srgb;
    convs! {
        "Lab", Lab<D65, f32>, Lab<D65, f64> => "Srgb", Srgb<f32>, Srgb<f64>;
        "Lch", Lch<D65, f32>, Lch<D65, f64> => "Srgb", Srgb<f32>, Srgb<f64>;
        "Lch", Lch<D65, f32>, Lch<D65, f64> => "Lab", Lab<D65, f32>, Lab<D65, f64>;
        "Luv", Luv<D65, f32>, Luv<D65, f64> => "LinSrgb", LinSrgb<f32>, LinSrgb<f64>;
        "Oklab", Oklab<f32>, Oklab<f64> => "Srgb", Srgb<f32>, Srgb<f64>;
        "Oklch", Oklch<f32>, Oklch<f64> => "Okhsv", Okhsv<f32>, Okhsv<f64>;
        "Oklab", Oklab<f32>, Oklab<f64> => "Okhsl", Okhsl<f32>, Okhsl<f64>;
        "Oklab", Oklab<f32>, Oklab<f64> => "Okhwb", Okhwb<f32>, Okhwb<f64>;
        "Xyz<D65>", Xyz<D65, f32>, Xyz<D65, f64> => "Srgb", Srgb<f32>, Srgb<f64>;
        "Xyz<D65>", Xyz<D65, f32>, Xyz<D65, f64> => "Lab", Lab<D65, f32>, Lab<D65, f64>;
        "Xyz<D65>", Xyz<D65, f32>, Xyz<D65, f64> => "Yxy", Yxy<D65, f32>, Yxy<D65, f64>;
        "Yxy", Yxy<D65, f32>, Yxy<D65, f64> => "Xyz<D65>", Xyz<D65, f32>, Xyz<D65, f64>;
        "Srgb", Srgb<f32>, Srgb<f64> => "Hsl", Hsl<S, f32>, Hsl<S, f64>;
        "Srgb", Srgb<f32>, Srgb<f64> => "Hsv", Hsv<S, f32>, Hsv<S, f64>;
        "Srgb", Srgb<f32>, Srgb<f64> => "Hwb", Hwb<S, f32>, Hwb<S, f64>;
        "Hsl", Hsl<S, f32>, Hsl<S, f64> => "Srgb", Srgb<f32>, Srgb<f64>;
        "Hsv", Hsv<S, f32>, Hsv<S, f64> => "Hwb", Hwb<S, f32>, Hwb<S, f64>;
        "Hwb", Hwb<S, f32>, Hwb<S, f64> => "Hsv", Hsv<S, f32>, Hsv<S, f64>;
        "Lab", Lab<D65, f32>, Lab<D65, f64> => "Hsv", Hsv<S, f32>, Hsv<S, f64>;
        "Luv", Luv<D65, f32>, Luv<D65, f64> => "Hsluv", Hsluv<D65, f32>, Hsluv<D65, f64>;
        "Lchuv", Lchuv<D65, f32>, Lchuv<D65, f64> => "Luv", Luv<D65, f32>, Luv<D65, f64>;
        "Srgb", Srgb<f32>, Srgb<f64> => "Lab", Lab<D65, f32>, Lab<D65, f64>;
        "Srgb", Srgb<f32>, Srgb<f64> => "Luma", SrgbLuma<f32>, SrgbLuma<f64>;
        "Lab", Lab<D65, f32>, Lab<D65, f64> => "Luma", SrgbLuma<f32>, SrgbLuma<f64>;
        "Srgb", Srgb<f32>, Srgb<f64> => "Rgb<AdobeRgb>", palette::rgb::Rgb<encoding::AdobeRgb, f32>, palette::rgb::Rgb<encoding::AdobeRgb, f64>;
        "Rgb<AdobeRgb>", palette::rgb::Rgb<encoding::AdobeRgb, f32>, palette::rgb::Rgb<encoding::AdobeRgb, f64> => "Srgb", Srgb<f32>, Srgb<f64>;
        "Cam16UcsJmh", Cam16UcsJmh<f32>, Cam16UcsJmh<f64> => "Cam16UcsJab", Cam16UcsJab<f32>, Cam16UcsJab<f64>;
        "Cam16UcsJab", Cam16UcsJab<f32>, Cam16UcsJab<f64> => "Cam16UcsJmh", Cam16UcsJmh<f32>, Cam16UcsJmh<f64>;
        "Cam16UcsJmh", Cam16UcsJmh<f32>, Cam16UcsJmh<f64> => "Cam16Jmh", Cam16Jmh<f32>, Cam16Jmh<f64>;
        "Okhsv", Okhsv<f32>, Okhsv<f64> => "Srgb", Srgb<f32>, Srgb<f64>;
        "Okhsl", Okhsl<f32>, Okhsl<f64> => "Srgb", Srgb<f32>, Srgb<f64>;
        "Srgb", Srgb<f32>, Srgb<f64> => "Okhsv", Okhsv<f32>, Okhsv<f64>;
        "Srgb", Srgb<f32>, Srgb<f64> => "Okhwb", Okhwb<f32>, Okhwb<f64>;
        "Srgb", Srgb<f32>, Srgb<f64> => "Hsluv", Hsluv<D65, f32>, Hsluv<D65, f64>;
    }
}

#[derive(Debug, Clone, Serialize, Deserialize)]
struct ConvCase {
    conv: usize,
    comps: Vec<f64>,
}

/// source components: inside the nominal box most of the time, moderately outside sometimes
fn src_comp(s: &Spec) -> BoxedStrategy<f64> {
    match s {
        Spec::Range(min, max) => {
            let (min, hi) = (*min, max.unwrap_or(min + 150.0));
            let range = hi - min;
            prop_oneof![8 => (0.0..=1.0f64).prop_map(move |t| min + range * t), 2 => pv::gen::unit().prop_map(move |t| min + range * t), 1 => (-0.5..=1.5f64).prop_map(move |t| min + range * t)].boxed()
        }
        Spec::Free => prop_oneof![3 => pv::gen::hue(), 2 => -150.0..=150.0f64, 2 => -0.4..=0.4f64].boxed(),
        Spec::HwbW | Spec::HwbB => prop_oneof![5 => 0.0..=1.0f64, 1 => -0.5..=1.5f64].boxed(),
    }
}

// ---------------- integer components: every value is in range ----------------
#[derive(Debug, Clone, Serialize, Deserialize)]
struct IntCase {
    c: [u16; 4],
}
fn int_point(c: &IntCase, obs: &mut Obs) -> PropResult {
    use palette::{Srgba, SrgbLumaa};
    obs.nontrivial();
    let [r, g, b, a] = c.c;
    let x = Srgb::<u8>::new(r as u8, g as u8, b as u8);
    ensure!(x.is_within_bounds() && x.clamp() == x, "Rgb<u8> clamp is not the identity");
    let mut y = x;
    y.clamp_assign();
    ensure!(y == x, "Rgb<u8> clamp_assign is not the identity");
    let x = Srgba::<u16>::new(r, g, b, a);
    ensure!(x.is_within_bounds() && x.clamp() == x, "Rgba<u16> clamp is not the identity");
    let x = SrgbLumaa::<u8>::new(r as u8, a as u8);
    ensure!(x.is_within_bounds() && x.clamp() == x, "Lumaa<u8> clamp is not the identity");
    let x = SrgbLuma::<u16>::new(g);
    ensure!(x.is_within_bounds() && x.clamp() == x, "Luma<u16> clamp is not the identity");
    let x = palette::LinSrgb::<u32>::new(r as u32 * 65537, g as u32 * 65537, b as u32);
    ensure!(x.is_within_bounds() && x.clamp() == x, "Rgb<u32> clamp is not the identity");
    // every value of an unsigned component is inside [0, MAX]: for each type that offers the traits with integer
    // components, the predicate holds and clamp, clamp_assign and the slice forms are the identity (types with only a
    // lower bound - Lms, the CAM16 types - go through clamp_min / clamp_min_assign instead of clamp / clamp_assign)
    macro_rules! ident {
        ($name:expr, $x:expr) => {{
            let x = $x;
            ensure!(x.is_within_bounds(), "{}: {:?} reports itself out of bounds although every integer value is in range", $name, x);
            ensure!(x.clamp() == x, "{}: clamp changed the in-bounds colour {:?} into {:?}", $name, x, x.clamp());
            let mut y = x;
            y.clamp_assign();
            ensure!(y == x, "{}: clamp_assign changed the in-bounds colour {:?} into {:?}", $name, x, y);
            let mut sl = [x, x];
            ensure!(sl[..].is_within_bounds(), "[{}]: slice of in-bounds colours reports itself out of bounds", $name);
            sl[..].clamp_assign();
            ensure!(sl[0] == x && sl[1] == x, "[{}]::clamp_assign changed the in-bounds colour {:?} into {:?}", $name, x, sl[0]);
            let mut v = vec![x, x, x];
            v.clamp_assign();
            ensure!(v.iter().all(|e| *e == x), "Vec<{}>::clamp_assign changed the in-bounds colour {:?} into {:?}", $name, x, v[0]);
        }};
    }
    use palette::lms::{matrix::VonKries, Lms};
    ident!("Lms<u8>", Lms::<VonKries, u8>::new(r as u8, g as u8, b as u8));
    ident!("Lms<u16>", Lms::<VonKries, u16>::new(r, g, b));
    ident!("Lmsa<u16>", palette::Alpha { color: Lms::<VonKries, u16>::new(r, g, b), alpha: a });
    ident!("Cam16Jch<u8>", Cam16Jch::<u8>::new(r as u8, g as u8, b as u8));
    ident!("Cam16Jsh<u8>", Cam16Jsh::<u8>::new(r as u8, g as u8, b as u8));
    ident!("Cam16Qch<u8>", Cam16Qch::<u8>::new(r as u8, g as u8, b as u8));
    ident!("Cam16Qmh<u8>", Cam16Qmh::<u8>::new(r as u8, g as u8, b as u8));
    ident!("Cam16Qsh<u8>", Cam16Qsh::<u8>::new(r as u8, g as u8, b as u8));
    ident!("Cam16Qsha<u8>", palette::Alpha { color: Cam16Qsh::<u8>::new(r as u8, g as u8, b as u8), alpha: a as u8 });
    ident!("Hsv<u8>", palette::Hsv::<palette::encoding::Srgb, u8>::new(r as u8, g as u8, b as u8));
    ident!("Hsl<u8>", palette::Hsl::<palette::encoding::Srgb, u8>::new(r as u8, g as u8, b as u8));
    ident!("Okhsl<u8>", palette::Okhsl::<u8>::new(r as u8, g as u8, b as u8));
    // Hwb-likes: in bounds iff whiteness + blackness <= MAX
    let (w, k) = (g as u8, ((255 - g as u8) as u16 * (b & 0xff) / 255) as u8);
    ident!("Hwb<u8>", palette::Hwb::<palette::encoding::Srgb, u8>::new(r as u8, w, k));
    ident!("Okhwb<u8>", palette::Okhwb::<u8>::new(r as u8, w, k));
    // Hwb-likes out of bounds through the coupled constraint only (each component in range, whiteness + blackness > MAX)
    let (w2, k2) = (g as u8, b as u8);
    if w2 as u16 + k2 as u16 > 255 {
        let res = pv::runner::no_panic(|| {
            let x = palette::Hwb::<palette::encoding::Srgb, u8>::new(r as u8, w2, k2);
            let c = x.clamp();
            (x.is_within_bounds(), c.is_within_bounds(), c.whiteness as u16 + c.blackness as u16)
        });
        match res {
            Err(p) if p.contains("overflow") => pv::fail_keyed!("C03:hwb-integer-sum-overflow", "Hwb<u8>(whiteness {}, blackness {}): is_within_bounds / clamp add the two in u8: {}", w2, k2, p.lines().last().unwrap_or("")),
            Err(p) => pv::fail!("Hwb<u8>(whiteness {}, blackness {}) panicked: {}", w2, k2, p),
            Ok((within, cw, sum)) => {
                if within || !cw || sum > 255 {
                    pv::fail_keyed!("C03:hwb-integer-sum-overflow", "Hwb<u8>(whiteness {}, blackness {}) (sum above the maximum): is_within_bounds = {}, clamped colour within bounds = {}, clamped sum {}", w2, k2, within, cw, sum);
                }
            }
        }
    }
    Ok(())
}

// ---------------- slices of SIMD colours: the slice predicate is the lane-wise conjunction ----------------
#[derive(Debug, Clone, Serialize, Deserialize)]
struct SimdSliceCase {
    /// items x lanes x components
    items: Vec<[[f32; 3]; 4]>,
}
fn simd_slice_point(c: &SimdSliceCase, obs: &mut Obs) -> PropResult {
    use palette::bool_mask::BoolMask;
    use wide::f32x4;
    let n = c.items.len();
    let lane_ok = |it: &[[f32; 3]; 4], l: usize| it[l].iter().all(|x| *x >= 0.0 && *x <= 1.0);
    let bad_lanes: Vec<usize> = (0..4).filter(|l| c.items.iter().any(|it| !lane_ok(it, *l))).collect();
    obs.nontrivial_if(bad_lanes.len() >= 2 || (bad_lanes.len() == 1 && n > 1));
    let first_bad: Vec<Option<usize>> = (0..4).map(|l| c.items.iter().position(|it| !lane_ok(it, l))).collect();
    let mut distinct: Vec<usize> = first_bad.iter().flatten().cloned().collect();
    distinct.sort();
    distinct.dedup();
    obs.class(if distinct.len() >= 2 { "simd slice: lanes leave the range in different items" } else if bad_lanes.is_empty() { "simd slice: all lanes in range" } else { "simd slice: one item decides" });
    let mk = |it: &[[f32; 3]; 4], k: usize| f32x4::from([it[0][k], it[1][k], it[2][k], it[3][k]]);
    let v: Vec<Srgb<f32x4>> = c.items.iter().map(|it| Srgb::new(mk(it, 0), mk(it, 1), mk(it, 2))).collect();
    let m = v[..].is_within_bounds();
    let got: [f32; 4] = m.into();
    for l in 0..4 {
        let want = !bad_lanes.contains(&l);
        ensure!((got[l].to_bits() != 0) == want, "[Srgb<f32x4>]::is_within_bounds lane {} = {} but the scalar colours of that lane are {} (items {:?})", l, got[l].to_bits() != 0, if want { "all within bounds" } else { "not all within bounds" }, c.items);
    }
    ensure!(m.is_true() == bad_lanes.is_empty(), "mask reduction is_true disagrees with the lanes");
    // clamp_assign on the slice: every lane of every item equals the scalar clamp
    let mut w = v.clone();
    w[..].clamp_assign();
    for (i, it) in c.items.iter().enumerate() {
        let (r, g, b): ([f32; 4], [f32; 4], [f32; 4]) = (w[i].red.into(), w[i].green.into(), w[i].blue.into());
        for l in 0..4 {
            let s = Srgb::<f32>::new(it[l][0], it[l][1], it[l][2]).clamp();
            ensure!(r[l].to_bits() == s.red.to_bits() && g[l].to_bits() == s.green.to_bits() && b[l].to_bits() == s.blue.to_bits(), "[Srgb<f32x4>]::clamp_assign item {} lane {} = {:?} but the scalar clamp gives {:?}", i, l, [r[l], g[l], b[l]], s);
        }
    }
    // a lower-bound-only type through the same slice impl
    let vc: Vec<Cam16Jch<f32x4>> = c.items.iter().map(|it| Cam16Jch::new(mk(it, 0) - f32x4::splat(0.5), mk(it, 1) - f32x4::splat(0.5), mk(it, 2))).collect();
    let got: [f32; 4] = vc[..].is_within_bounds().into();
    for l in 0..4 {
        let want = c.items.iter().all(|it| it[l][0] - 0.5 >= 0.0 && it[l][1] - 0.5 >= 0.0);
        ensure!((got[l].to_bits() != 0) == want, "[Cam16Jch<f32x4>]::is_within_bounds lane {} = {} but the scalar colours of that lane say {}", l, got[l].to_bits() != 0, want);
    }
    Ok(())
}

fn main() {
    let mut h = Harness::new("C03");
    h.rule("every Clamp/IsWithinBounds implementor (31 types x f32/f64, bare / Alpha / slices) on generated components drawn independently from {far below, just below (1 ulp, 1e-9 range), min, inside, max, just above, far above, +-3e38}: is_within_bounds equals the predicate built from the public min/max accessors, clamp equals the model clamp, is within bounds, identity in bounds, idempotent, clamp_assign and slice forms equal clamp; 36 conversion pairs x f32/f64: from_color == from_color_unclamped + clamp, try_from_color Ok iff unclamped result within bounds with the same value / error payload. Non-trivial = at least one component out of range (conversions: unclamped result out of bounds); distinct by hash.");
    h.assume("model bounds come from the types' public min_*/max_* accessors (upper bounds that clamp documents as open - Lch/Oklch chroma, Lms, CAM16 attributes, Oklab/Jab a,b - are open in the model); Okhsv: +1e-6 documented slack");
    let types: &'static [TypeEntry] = Box::leak(types().into_boxed_slice());
    let convs: &'static [ConvEntry] = Box::leak(conversions().into_boxed_slice());

    let n = h.n(3_000_000, 80_000_000);
    h.prop(
        "clamp_contract",
        n,
        || clamp_case(types),
        |c: &ClampCase, obs| {
            let t = &types[c.ty];
            if c.alpha_form {
                (t.alpha)(t.name, &c.comps, obs)
            } else {
                (t.bare)(t.name, &c.comps, obs)
            }
        },
    );
    h.require_class("clamp_contract", "mixed: one below, another above", n / 20);
    let n = h.n(2_000_000, 60_000_000);
    h.prop(
        "conversion_contract",
        n,
        || {
            (0..convs.len()).prop_flat_map(move |conv| {
                let spec = (convs[conv].spec)();
                let mut comps: Vec<BoxedStrategy<f64>> = spec.iter().map(src_comp).collect();
                comps.push(prop_oneof![3 => pv::gen::unit(), 1 => -0.5..=1.5f64].boxed());
                comps.prop_map(move |comps| ConvCase { conv, comps })
            })
        },
        |c: &ConvCase, obs| {
            let e = &convs[c.conv];
            (e.f)((e.a, e.b), &c.comps, obs)
        },
    );
    h.require_class("conversion_contract", "unclamped result out of bounds", n / 20);
    let n = h.n(100_000, 1_000_000);
    h.prop("integer_components_always_in_range", n, || proptest::array::uniform4(any::<u16>()).prop_map(|c| IntCase { c }), int_point);
    let n = h.n(300_000, 5_000_000);
    h.prop(
        "slices_of_simd_colours",
        n,
        || {
            let comp = || prop_oneof![6 => 0.0..=1.0f32, 1 => Just(0.0f32), 1 => Just(1.0f32), 1 => Just(-0.25f32), 1 => Just(1.5f32), 1 => -1.0..=2.0f32];
            proptest::collection::vec(proptest::array::uniform4(proptest::array::uniform3(comp())), 1..6).prop_map(|items| SimdSliceCase { items })
        },
        simd_slice_point,
    );
    h.require_class("slices_of_simd_colours", "simd slice: lanes leave the range in different items", n / 50);
    h.finish();
}
