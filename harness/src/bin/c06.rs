//! C06 — component number-format conversion saturates, rounds to nearest and round-trips.
use palette::stimulus::IntoStimulus;
use proptest::prelude::*;
use pv::gen::{next_up32, next_up64};
use pv::runner::{Fail, Harness, Obs, PropResult};
use pv::{ensure, fail};
use serde::{Deserialize, Serialize};

const UNAMES: [&str; 5] = ["u8", "u16", "u32", "u64", "u128"];
const UBITS: [u32; 5] = [8, 16, 32, 64, 128];

fn umax(t: usize) -> u128 {
    if UBITS[t] == 128 {
        u128::MAX
    } else {
        (1u128 << UBITS[t]) - 1
    }
}

macro_rules! by_uint {
    ($t:expr, $ty:ident => $e:expr) => {
        match $t {
            0 => { type $ty = u8; $e }
            1 => { type $ty = u16; $e }
            2 => { type $ty = u32; $e }
            3 => { type $ty = u64; $e }
            4 => { type $ty = u128; $e }
            _ => unreachable!(),
        }
    };
}

fn f32_to_u(t: usize, x: f32) -> u128 {
    by_uint!(t, T => { let r: T = x.into_stimulus(); r as u128 })
}
fn f64_to_u(t: usize, x: f64) -> u128 {
    by_uint!(t, T => { let r: T = x.into_stimulus(); r as u128 })
}
fn u_to_f32(s: usize, v: u128) -> f32 {
    by_uint!(s, S => { (v as S).into_stimulus() })
}
fn u_to_f64(s: usize, v: u128) -> f64 {
    by_uint!(s, S => { (v as S).into_stimulus() })
}
fn u_to_u(s: usize, t: usize, v: u128) -> u128 {
    by_uint!(s, S => { by_uint!(t, T => { let r: T = (v as S).into_stimulus(); r as u128 }) })
}

/// exact value of x * MAX as (integer part as f64-ish) using f64 with error bound; x in (0,1)
fn product(x: f64, t: usize) -> f64 {
    x * (umax(t) as f64)
}

/// tolerance on |result - x*MAX|: half a unit plus one rounding of the product in the precision
/// the property allows (f32 precision for f32 sources into u8/u16/u32; 53 bits otherwise)
fn tol(p: f64, t: usize, src_f32: bool) -> f64 {
    let rel = if src_f32 && t <= 2 { 2f64.powi(-23) } else { 2f64.powi(-51) };
    0.5 + p * rel + if t >= 3 { p * 2f64.powi(-51) } else { 0.0 }
}

#[derive(Debug, Clone, Serialize, Deserialize)]
struct F32Case {
    target: usize,
    bits: u32,
}

fn class_of_f64(x: f64) -> &'static str {
    if x.is_nan() {
        "nan"
    } else if x == f64::INFINITY {
        "+inf"
    } else if x == f64::NEG_INFINITY {
        "-inf"
    } else if x < 0.0 {
        "negative"
    } else if x == 0.0 {
        "zero"
    } else if x < 1.0 {
        "inside(0,1)"
    } else if x == 1.0 {
        "one"
    } else {
        "above-one"
    }
}

fn check_float_value(x: f64, r: u128, t: usize, src_f32: bool, what: &str) -> PropResult {
    let max = umax(t);
    if x.is_nan() {
        ensure!(r == max, "{}: NaN -> {} expected MAX={}", what, r, max);
    } else if x <= 0.0 {
        if r != 0 {
            return Err(Fail::keyed(
                if x < -1.0 { "C06:negative-float-nonzero" } else { "C06:nonpositive-nonzero" },
                format!("{}: x={:e} (<= 0) -> {} expected 0", what, x, r),
            ));
        }
    } else if x >= 1.0 {
        if r != max {
            return Err(Fail::keyed(
                if t >= 3 { "C06:float-to-wide-uint" } else { "C06:above-one-not-max" },
                format!("{}: x={:e} (>= 1) -> {} expected MAX={}", what, x, r, max),
            ));
        }
    } else {
        let p = product(x, t);
        let d = (r as f64 - p).abs();
        if !(d <= tol(p, t, src_f32)) {
            return Err(Fail::keyed(
                if t >= 3 { "C06:float-to-wide-uint" } else { "C06:not-nearest" },
                format!("{}: x={:e} -> {} but x*MAX={:e} (|diff|={:e} > {:e})", what, x, r, p, d, tol(p, t, src_f32)),
            ));
        }
    }
    Ok(())
}

/// point check for an f32 source: value oracle + monotone w.r.t. the next smaller f32 value
fn f32_point(c: &F32Case, obs: &mut Obs) -> PropResult {
    let x = f32::from_bits(c.bits);
    let t = c.target;
    let r = f32_to_u(t, x);
    obs.class(class_of_f64(x as f64));
    check_float_value(x as f64, r, t, true, &format!("f32->{}", UNAMES[t]))?;
    if !x.is_nan() && x != f32::NEG_INFINITY {
        let below = next_up32(x, -1);
        let rb = f32_to_u(t, below);
        ensure!(rb <= r, "f32->{} not monotone: f({:e})={} > f({:e})={}", UNAMES[t], below, rb, x, r);
    }
    Ok(())
}

fn sweep_f32_range<T>(t: usize, lo: u32, hi: u32, obs: &mut Obs)
where
    f32: IntoStimulus<T>,
    T: Copy + Into<u128> + PartialOrd,
{
    // lo..=hi are bit patterns of one sign; positive patterns increase in value, negative decrease
    let negative = lo & 0x8000_0000 != 0;
    let max = umax(t);
    let maxf = max as f64;
    let mut prev: Option<u128> = if lo & 0x7fff_ffff != 0 {
        let pb = f32::from_bits(lo - 1);
        if pb.is_nan() {
            None
        } else {
            let r: T = pb.into_stimulus();
            Some(r.into())
        }
    } else {
        None
    };
    let mut nontrivial = 0u64;
    let mut bits = lo;
    loop {
        let x = f32::from_bits(bits);
        let r: T = x.into_stimulus();
        let r: u128 = r.into();
        let ok_value = if x.is_nan() {
            r == max
        } else if x <= 0.0 {
            r == 0
        } else if x >= 1.0 {
            r == max
        } else {
            nontrivial += 1;
            let p = x as f64 * maxf;
            (r as f64 - p).abs() <= tol(p, t, true)
        };
        let ok_mono = match prev {
            Some(p) if !x.is_nan() => {
                if negative {
                    r <= p
                } else {
                    r >= p
                }
            }
            _ => true,
        };
        if !(ok_value && ok_mono) {
            let case = F32Case { target: t, bits };
            let mut o2 = pv::runner::scratch_obs();
            let f = match f32_point(&case, &mut o2) {
                Err(f) => f,
                Ok(()) => {
                    // monotonicity against the neighbour on the other side (negative range)
                    Fail::new(format!("f32->{} not monotone at bits {:#x} (r={}, prev={:?})", UNAMES[t], bits, r, prev))
                }
            };
            obs.report(&case, f);
        }
        if !x.is_nan() {
            prev = Some(r);
        }
        if bits == hi {
            break;
        }
        bits += 1;
    }
    obs.evals += (hi - lo) as u64 + 1;
    obs.sweep_nontrivial += nontrivial;
}

#[derive(Debug, Clone, Serialize, Deserialize)]
struct F64Case {
    target: usize,
    bits: u64,
    /// second value = first moved by `step` representable steps (monotonicity pair)
    step: i64,
}

fn f64_point(c: &F64Case, obs: &mut Obs) -> PropResult {
    let x = f64::from_bits(c.bits);
    let t = c.target;
    let r = f64_to_u(t, x);
    obs.class(class_of_f64(x));
    obs.nontrivial_if(x.is_nan() || x.is_infinite() || (x > 0.0 && x < 1.0) || x < -1e6);
    check_float_value(x, r, t, false, &format!("f64->{}", UNAMES[t]))?;
    if !x.is_nan() {
        let y = next_up64(x, c.step);
        if !y.is_nan() {
            let ry = f64_to_u(t, y);
            check_float_value(y, ry, t, false, &format!("f64->{}", UNAMES[t]))?;
            let (lo, hi, rlo, rhi) = if y >= x { (x, y, r, ry) } else { (y, x, ry, r) };
            ensure!(rlo <= rhi, "f64->{} not monotone: f({:e})={} > f({:e})={}", UNAMES[t], lo, rlo, hi, rhi);
        }
    }
    // f32 path for the same value when exactly representable
    let xf = x as f32;
    if (xf as f64) == x {
        let rf = f32_to_u(t, xf);
        check_float_value(x, rf, t, true, &format!("f32->{}", UNAMES[t]))?;
    }
    Ok(())
}

fn f64_source() -> BoxedStrategy<f64> {
    prop_oneof![
        // k/MAX for each width, +- ulps, and ties (k+0.5)/MAX
        6 => (0usize..5, any::<u128>(), -2i64..=2, any::<bool>()).prop_map(|(t, k, n, tie)| {
            let max = umax(t);
            let k = k % (max / 2 + 1) * 2 / 1; // spread
            let k = k.min(max);
            let kf = k as f64 + if tie { 0.5 } else { 0.0 };
            next_up64(kf / max as f64, n)
        }),
        3 => (0usize..5, 0u128..=600, -2i64..=2, any::<bool>(), any::<bool>()).prop_map(|(t, k, n, tie, top)| {
            let max = umax(t);
            let k = if top { max - k.min(max) } else { k.min(max) };
            let kf = k as f64 + if tie { 0.5 } else { 0.0 };
            next_up64(kf / max as f64, n)
        }),
        4 => 0.0..=1.0f64,
        2 => -2.0..=3.0f64,
        2 => (-1100i32..=1023, any::<bool>(), -2i64..=2).prop_map(|(e, neg, n)| { let v = next_up64(2f64.powi(e), n); if neg { -v } else { v } }),
        2 => (-300.0..=300.0f64, any::<bool>()).prop_map(|(e, neg)| { let v = 10f64.powf(e); if neg { -v } else { v } }),
        1 => prop_oneof![Just(f64::NAN), Just(-f64::NAN), Just(f64::INFINITY), Just(f64::NEG_INFINITY), Just(-0.0), Just(0.0), Just(1.0),
                 Just(f64::MAX), Just(f64::MIN), Just(f64::MIN_POSITIVE), Just(f64::from_bits(1)), Just(-f64::from_bits(1)),
                 Just(-8388608.0), Just(-8388609.0), Just(-4503599627370496.0), Just(-4503599627370497.0), Just(-1e30), Just(-65794.0), Just(-1e6),
                 Just(f64::from_bits(0x7ff0_0000_0000_0001)), Just(f64::from_bits(0xfff8_0000_0000_0001))],
        1 => any::<u64>().prop_map(f64::from_bits),
    ]
    .boxed()
}

#[derive(Debug, Clone, Serialize, Deserialize)]
struct UCase {
    src: usize,
    hi: u64,
    lo: u64,
}

fn uval(c: &UCase) -> u128 {
    (((c.hi as u128) << 64) | c.lo as u128) & umax(c.src)
}

/// all checks for one unsigned source value v of width `s`
fn uint_point(c: &UCase, obs: &mut Obs) -> PropResult {
    let s = c.src;
    let v = uval(c);
    let smax = umax(s);
    obs.nontrivial_if(v != 0 && v != smax);
    obs.class(if v == 0 { "zero" } else if v == smax { "max" } else { "inside" });
    let sn = UNAMES[s];
    // -> floats
    let f = u_to_f32(s, v);
    let d = u_to_f64(s, v);
    let exact = v as f64 / smax as f64; // correctly rounded up to 2 roundings (<= 1.5 ulp f64)
    ensure!(f.is_finite() && d.is_finite(), "{}->float not finite for {}", sn, v);
    if v == 0 {
        ensure!(f == 0.0 && d == 0.0, "{}: 0 -> {} / {} expected 0", sn, f, d);
    }
    if v == smax {
        ensure!(f == 1.0, "{}::MAX -> f32 {:e} expected exactly 1.0", sn, f);
        ensure!(d == 1.0, "{}::MAX -> f64 {:e} expected exactly 1.0", sn, d);
    }
    ensure!((0.0..=1.0).contains(&f) && (0.0..=1.0).contains(&d), "{}->float out of [0,1]: {} {} {}", sn, v, f, d);
    ensure!((f as f64 - exact).abs() <= exact * 2f64.powi(-22) + 1e-45, "{}->f32: {} -> {:e}, v/MAX = {:e}", sn, v, f, exact);
    ensure!((d - exact).abs() <= exact * 2f64.powi(-50), "{}->f64: {} -> {:e}, v/MAX = {:e}", sn, v, d, exact);
    obs.err("u_to_f32_rel", if exact > 0.0 { ((f as f64 - exact) / exact).abs() } else { 0.0 });
    obs.err("u_to_f64_rel", if exact > 0.0 { ((d - exact) / exact).abs() } else { 0.0 });
    // monotone w.r.t. predecessor
    if v > 0 {
        let fp = u_to_f32(s, v - 1);
        let dp = u_to_f64(s, v - 1);
        ensure!(fp <= f, "{}->f32 not monotone at {}", sn, v);
        ensure!(dp <= d, "{}->f64 not monotone at {}", sn, v);
    }
    // uint -> float -> same uint
    if s <= 1 {
        let back = f32_to_u(s, f);
        ensure!(back == v, "{} -> f32 -> {}: {} came back as {}", sn, sn, v, back);
    }
    if s <= 2 {
        let back = f64_to_u(s, d);
        ensure!(back == v, "{} -> f64 -> {}: {} came back as {}", sn, sn, v, back);
    }
    // -> uints
    for t in 0..5 {
        let tn = UNAMES[t];
        let tmax = umax(t);
        let r = u_to_u(s, t, v);
        if t == s {
            ensure!(r == v, "{}->{} identity changed {} to {}", sn, tn, v, r);
            continue;
        }
        if v == 0 {
            ensure!(r == 0, "{}->{}: 0 -> {}", sn, tn, r);
        }
        if v == smax {
            ensure!(r == tmax, "{}->{}: MAX -> {} expected {}", sn, tn, r, tmax);
        }
        if v > 0 {
            let rp = u_to_u(s, t, v - 1);
            ensure!(rp <= r, "{}->{} not monotone: f({})={} > f({})={}", sn, tn, v - 1, rp, v, r);
        }
        if t > s {
            // widening: exact scaling v * (tmax / smax) (bit replication)
            let expect = v * (tmax / smax);
            ensure!(r == expect, "{}->{} widening: {} -> {} expected {}", sn, tn, v, r, expect);
            if s <= 2 {
                let back = u_to_u(t, s, r);
                ensure!(back == v, "{}->{}->{}: {} came back as {}", sn, tn, sn, v, back);
            }
        } else {
            // narrowing: within one unit of the exact quotient (implied by monotone + widen/narrow identity)
            let exact = v as f64 * (tmax as f64 / smax as f64);
            let dd = (r as f64 - exact).abs();
            ensure!(dd <= 1.0 + exact * 2f64.powi(-50), "{}->{} narrowing: {} -> {} but exact {:e}", sn, tn, v, r, exact);
            obs.err("narrowing_abs", dd);
        }
    }
    Ok(())
}

fn u_source() -> BoxedStrategy<UCase> {
    (0usize..5, prop_oneof![
        4 => any::<u128>(),
        2 => (0u32..128, -3i64..=3).prop_map(|(b, d)| ((1u128 << b) as i128 as u128).wrapping_add(d as i128 as u128)),
        2 => (0u128..=1000),
        2 => (0u128..=1000).prop_map(|k| u128::MAX - k),
        1 => any::<u8>().prop_map(|b| { let mut v = 0u128; for _ in 0..16 { v = (v << 8) | b as u128; } v }),
        1 => (any::<u64>(), 0u32..128).prop_map(|(m, sh)| (m as u128) << sh),
    ])
        .prop_map(|(s, v)| {
            let v = v & umax(s);
            UCase { src: s, hi: (v >> 64) as u64, lo: v as u64 }
        })
        .boxed()
}

// ---- colour level: into_format is the per-component function ----
#[derive(Debug, Clone, Serialize, Deserialize)]
struct FmtCase {
    comps: [f64; 4],
    ints: [u16; 4],
}

fn fmt_point(c: &FmtCase, obs: &mut Obs) -> PropResult {
    use palette::{LinSrgba, Srgb, Srgba, SrgbLuma, SrgbLumaa};
    obs.nontrivial();
    let [r, g, b, a] = c.comps;
    // f64 -> u8 / u16 / f32
    let col = Srgba::<f64>::new(r, g, b, a);
    let u: Srgba<u8> = col.into_format();
    let e: [u8; 4] = [r.into_stimulus(), g.into_stimulus(), b.into_stimulus(), a.into_stimulus()];
    ensure!([u.red, u.green, u.blue, u.alpha] == e, "Srgba<f64>::into_format::<u8,u8> {:?} != per-component {:?}", u, e);
    let u: Srgba<u16> = col.into_format();
    let e: [u16; 4] = [r.into_stimulus(), g.into_stimulus(), b.into_stimulus(), a.into_stimulus()];
    ensure!([u.red, u.green, u.blue, u.alpha] == e, "Srgba<f64>::into_format::<u16,u16> {:?} != per-component {:?}", u, e);
    let f: Srgba<f32> = col.into_format();
    ensure!(
        [f.red.to_bits(), f.green.to_bits(), f.blue.to_bits(), f.alpha.to_bits()]
            == [(r as f32).to_bits(), (g as f32).to_bits(), (b as f32).to_bits(), (a as f32).to_bits()],
        "Srgba<f64> -> f32 not a plain cast"
    );
    // mixed: colour u8, alpha f32
    let m: palette::Alpha<Srgb<u8>, f32> = col.into_format();
    ensure!(m.alpha.to_bits() == (a as f32).to_bits() && m.color.red == e_u8(r), "mixed format conversion differs");
    let lin = LinSrgba::<f64>::new(r, g, b, a);
    let lu: LinSrgba<u16> = lin.into_format();
    ensure!(lu.red == e_u16(r) && lu.alpha == e_u16(a), "LinSrgba into_format differs");
    // luma
    let l = SrgbLumaa::<f64>::new(r, a);
    let lu: SrgbLumaa<u8> = l.into_format();
    ensure!(lu.luma == e_u8(r) && lu.alpha == e_u8(a), "Lumaa into_format differs");
    // integer sources
    let [i0, i1, i2, i3] = c.ints;
    let ic = Srgba::<u16>::new(i0, i1, i2, i3);
    let f: Srgba<f32> = ic.into_format();
    let ef: [f32; 4] = [i0.into_stimulus(), i1.into_stimulus(), i2.into_stimulus(), i3.into_stimulus()];
    ensure!([f.red, f.green, f.blue, f.alpha] == ef, "Srgba<u16> -> f32 differs from per-component");
    let u8c: Srgba<u8> = ic.into_format();
    let eu: [u8; 4] = [i0.into_stimulus(), i1.into_stimulus(), i2.into_stimulus(), i3.into_stimulus()];
    ensure!([u8c.red, u8c.green, u8c.blue, u8c.alpha] == eu, "Srgba<u16> -> u8 differs from per-component");
    let back: Srgba<u16> = Srgba::<u8>::new(i0 as u8, i1 as u8, i2 as u8, i3 as u8).into_format();
    ensure!(back.red == (i0 as u8 as u16) * 257, "u8->u16 colour widening");
    let l8 = SrgbLuma::<u8>::new(i0 as u8);
    let lf: SrgbLuma<f64> = l8.into_format();
    let ef: f64 = (i0 as u8).into_stimulus();
    ensure!(lf.luma == ef, "Luma<u8> -> f64");
    Ok(())
}
fn e_u8(x: f64) -> u8 {
    x.into_stimulus()
}
fn e_u16(x: f64) -> u16 {
    x.into_stimulus()
}


// ---- colour level, every type that has into_format / from_format ----
// (Rgb, Luma, Lms; Hsl, Hsv, Hwb, Okhsl, Okhsv, Okhwb whose hue goes through FromAngle instead; bare and Alpha forms with
// an alpha of a different number format.) Oracle: field k of the result is the per-component conversion of field k of the
// source (FromStimulus, itself decided by the other sub-checks against exact arithmetic; FromAngle is decided by C11), the
// alpha is the per-component conversion of the alpha, nothing is swapped, from_format == into_format.
trait Num: Copy + core::fmt::Debug {
    fn bits(self) -> u64;
    fn unit(x: f64) -> Self;
    fn deg(x: f64) -> Self;
}
macro_rules! num_float { ($($t:ty),*) => {$(impl Num for $t {
    fn bits(self) -> u64 { self.to_bits() as u64 }
    fn unit(x: f64) -> Self { x as $t }
    fn deg(x: f64) -> Self { x as $t }
})*} }
macro_rules! num_uint { ($($t:ty),*) => {$(impl Num for $t {
    fn bits(self) -> u64 { self as u64 }
    fn unit(x: f64) -> Self { let m = <$t>::MAX as f64; (x.clamp(0.0, 1.0) * m).round() as $t }
    fn deg(x: f64) -> Self { let m = <$t>::MAX as f64 + 1.0; ((x.rem_euclid(360.0) / 360.0 * m).floor() as u128 % (m as u128)) as $t }
})*} }
num_float!(f32, f64);
num_uint!(u8, u16, u32);

macro_rules! fmt_plain {
    // colour without a hue: $C<$g.., T>, fields $f..
    ($obs:ident, $lbl:expr, $C:ident, [$($g:ty),*], [$($f:ident),+], $T:ty => $U:ty, $B:ty, $v:expr, $a:expr) => {{
        use palette::stimulus::FromStimulus;
        let v: [f64; 3] = $v;
        let mut k = 0usize;
        $( let $f: $T = <$T as Num>::unit(v[k]); k += 1; )+
        let _ = k;
        let src = $C::<$($g,)* $T>::new($($f),+);
        let dst: $C<$($g,)* $U> = src.into_format();
        $( ensure!(dst.$f.bits() == <$U as FromStimulus<$T>>::from_stimulus(src.$f).bits(),
            "{}<{}>::into_format::<{}>: field {} = {:?}, the component conversion of {:?} is {:?}", $lbl, stringify!($T), stringify!($U), stringify!($f), dst.$f, src.$f, <$U as FromStimulus<$T>>::from_stimulus(src.$f)); )+
        let dst2 = $C::<$($g,)* $U>::from_format(src);
        $( ensure!(dst2.$f.bits() == dst.$f.bits(), "{}<{}>::from_format differs from into_format in field {}", $lbl, stringify!($U), stringify!($f)); )+
        let al: $T = <$T as Num>::unit($a);
        let asrc = palette::Alpha { color: src, alpha: al };
        let adst: palette::Alpha<$C<$($g,)* $U>, $B> = asrc.into_format();
        $( ensure!(adst.color.$f.bits() == dst.$f.bits(), "Alpha<{}<{}>>::into_format::<{}, {}>: colour field {} = {:?} but the bare colour gives {:?}", $lbl, stringify!($T), stringify!($U), stringify!($B), stringify!($f), adst.color.$f, dst.$f); )+
        ensure!(adst.alpha.bits() == <$B as FromStimulus<$T>>::from_stimulus(al).bits(),
            "Alpha<{}<{}>>::into_format::<{}, {}>: alpha = {:?}, the component conversion of {:?} is {:?}", $lbl, stringify!($T), stringify!($U), stringify!($B), adst.alpha, al, <$B as FromStimulus<$T>>::from_stimulus(al));
        let adst2 = palette::Alpha::<$C<$($g,)* $U>, $B>::from_format(asrc);
        $( ensure!(adst2.color.$f.bits() == dst.$f.bits(), "Alpha<{}>::from_format differs in field {}", $lbl, stringify!($f)); )+
        ensure!(adst2.alpha.bits() == adst.alpha.bits(), "Alpha<{}>::from_format differs in alpha", $lbl);
        $obs.class(concat!("format ", stringify!($T), " -> ", stringify!($U)));
    }};
}
macro_rules! fmt_hue {
    // colour with a hue first: $C<$g.., T>::new(hue, f1, f2); $bare_from: whether the bare type has from_format
    ($obs:ident, $lbl:expr, $C:ident, [$($g:ty),*], [$f1:ident, $f2:ident], $bare_from:tt, $T:ty => $U:ty, $B:ty, $v:expr, $a:expr) => {{
        use palette::stimulus::FromStimulus;
        let v: [f64; 3] = $v;
        let h: $T = <$T as Num>::deg(v[0]);
        let $f1: $T = <$T as Num>::unit(v[1]);
        let $f2: $T = <$T as Num>::unit(v[2]);
        let src = $C::<$($g,)* $T>::new(h, $f1, $f2);
        let dst: $C<$($g,)* $U> = src.into_format();
        let eh = src.hue.into_format::<$U>().into_inner();
        ensure!(dst.hue.into_inner().bits() == eh.bits(), "{}<{}>::into_format::<{}>: hue = {:?}, the hue's own conversion of {:?} gives {:?}", $lbl, stringify!($T), stringify!($U), dst.hue.into_inner(), h, eh);
        ensure!(dst.$f1.bits() == <$U as FromStimulus<$T>>::from_stimulus($f1).bits(),
            "{}<{}>::into_format::<{}>: field {} = {:?}, the component conversion of {:?} is {:?}", $lbl, stringify!($T), stringify!($U), stringify!($f1), dst.$f1, $f1, <$U as FromStimulus<$T>>::from_stimulus($f1));
        ensure!(dst.$f2.bits() == <$U as FromStimulus<$T>>::from_stimulus($f2).bits(),
            "{}<{}>::into_format::<{}>: field {} = {:?}, the component conversion of {:?} is {:?}", $lbl, stringify!($T), stringify!($U), stringify!($f2), dst.$f2, $f2, <$U as FromStimulus<$T>>::from_stimulus($f2));
        fmt_hue!(@bare $bare_from, $lbl, $C, [$($g),*], [$f1, $f2], $U, src, dst);
        let al: $T = <$T as Num>::unit($a);
        let asrc = palette::Alpha { color: src, alpha: al };
        let adst: palette::Alpha<$C<$($g,)* $U>, $B> = asrc.into_format();
        ensure!(adst.color.hue.into_inner().bits() == eh.bits() && adst.color.$f1.bits() == dst.$f1.bits() && adst.color.$f2.bits() == dst.$f2.bits(),
            "Alpha<{}<{}>>::into_format::<{}, {}>: colour {:?} but the bare colour gives {:?}", $lbl, stringify!($T), stringify!($U), stringify!($B), adst.color, dst);
        ensure!(adst.alpha.bits() == <$B as FromStimulus<$T>>::from_stimulus(al).bits(),
            "Alpha<{}<{}>>::into_format::<{}, {}>: alpha = {:?}, the component conversion of {:?} is {:?}", $lbl, stringify!($T), stringify!($U), stringify!($B), adst.alpha, al, <$B as FromStimulus<$T>>::from_stimulus(al));
        let adst2 = palette::Alpha::<$C<$($g,)* $U>, $B>::from_format(asrc);
        ensure!(adst2.color.hue.into_inner().bits() == eh.bits() && adst2.color.$f1.bits() == dst.$f1.bits() && adst2.color.$f2.bits() == dst.$f2.bits() && adst2.alpha.bits() == adst.alpha.bits(),
            "Alpha<{}>::from_format differs from into_format: {:?} vs {:?}", $lbl, adst2, adst);
        $obs.class(concat!("format ", stringify!($T), " -> ", stringify!($U)));
    }};
    (@bare yes, $lbl:expr, $C:ident, [$($g:ty),*], [$f1:ident, $f2:ident], $U:ty, $src:ident, $dst:ident) => {
        let dst2 = $C::<$($g,)* $U>::from_format($src);
        ensure!(dst2.hue.into_inner().bits() == $dst.hue.into_inner().bits() && dst2.$f1.bits() == $dst.$f1.bits() && dst2.$f2.bits() == $dst.$f2.bits(),
            "{}<{}>::from_format differs from into_format: {:?} vs {:?}", $lbl, stringify!($U), dst2, $dst);
    };
    (@bare no, $lbl:expr, $C:ident, [$($g:ty),*], [$f1:ident, $f2:ident], $U:ty, $src:ident, $dst:ident) => {};
}

#[derive(Debug, Clone, Serialize, Deserialize)]
struct Fmt2Case {
    ty: usize,
    v: [f64; 3],
    a: f64,
}
const FMT2_TYPES: usize = 13;
fn fmt2_point(c: &Fmt2Case, obs: &mut Obs) -> PropResult {
    use palette::encoding::{Linear, Srgb as SrgbStd};
    use palette::lms::{matrix::VonKries, Lms};
    use palette::luma::Luma;
    use palette::rgb::Rgb;
    use palette::white_point::D65;
    use palette::{Hsl, Hsv, Hwb, Okhsl, Okhsv, Okhwb};
    type Rec2020 = palette::encoding::Rec2020;
    type VK = VonKries;
    obs.nontrivial();
    let (v, a) = (c.v, c.a);
    macro_rules! hue_pairs { ($lbl:expr, $C:ident, [$($g:ty),*], [$f1:ident, $f2:ident], $bf:tt) => {{
        fmt_hue!(obs, $lbl, $C, [$($g),*], [$f1, $f2], $bf, f64 => u8, f32, v, a);
        fmt_hue!(obs, $lbl, $C, [$($g),*], [$f1, $f2], $bf, f64 => f32, u8, v, a);
        fmt_hue!(obs, $lbl, $C, [$($g),*], [$f1, $f2], $bf, f32 => u8, f64, v, a);
        fmt_hue!(obs, $lbl, $C, [$($g),*], [$f1, $f2], $bf, f32 => f64, u16, v, a);
        fmt_hue!(obs, $lbl, $C, [$($g),*], [$f1, $f2], $bf, u8 => f32, f64, v, a);
        fmt_hue!(obs, $lbl, $C, [$($g),*], [$f1, $f2], $bf, u8 => f64, u8, v, a);
        fmt_hue!(obs, $lbl, $C, [$($g),*], [$f1, $f2], $bf, u8 => u8, f32, v, a);
    }} }
    macro_rules! plain_pairs { ($lbl:expr, $C:ident, [$($g:ty),*], [$($f:ident),+]) => {{
        fmt_plain!(obs, $lbl, $C, [$($g),*], [$($f),+], f64 => u8, f32, v, a);
        fmt_plain!(obs, $lbl, $C, [$($g),*], [$($f),+], f64 => u16, u8, v, a);
        fmt_plain!(obs, $lbl, $C, [$($g),*], [$($f),+], f64 => f32, u16, v, a);
        fmt_plain!(obs, $lbl, $C, [$($g),*], [$($f),+], f32 => u8, f64, v, a);
        fmt_plain!(obs, $lbl, $C, [$($g),*], [$($f),+], f32 => u32, f32, v, a);
        fmt_plain!(obs, $lbl, $C, [$($g),*], [$($f),+], u8 => f32, f64, v, a);
        fmt_plain!(obs, $lbl, $C, [$($g),*], [$($f),+], u8 => u16, u32, v, a);
        fmt_plain!(obs, $lbl, $C, [$($g),*], [$($f),+], u16 => u8, f32, v, a);
        fmt_plain!(obs, $lbl, $C, [$($g),*], [$($f),+], u16 => f64, u8, v, a);
        fmt_plain!(obs, $lbl, $C, [$($g),*], [$($f),+], u32 => u16, f64, v, a);
    }} }
    match c.ty {
        0 => hue_pairs!("Hsl", Hsl, [SrgbStd], [saturation, lightness], yes),
        1 => hue_pairs!("Hsv", Hsv, [SrgbStd], [saturation, value], yes),
        2 => hue_pairs!("Hwb", Hwb, [SrgbStd], [whiteness, blackness], yes),
        3 => hue_pairs!("Okhsl", Okhsl, [], [saturation, lightness], yes),
        4 => hue_pairs!("Okhsv", Okhsv, [], [saturation, value], no),
        5 => hue_pairs!("Okhwb", Okhwb, [], [whiteness, blackness], no),
        6 => hue_pairs!("Hsl<Linear<Srgb>>", Hsl, [Linear<SrgbStd>], [saturation, lightness], yes),
        7 => hue_pairs!("Hwb<Rec2020>", Hwb, [Rec2020], [whiteness, blackness], yes),
        8 => plain_pairs!("Rgb<Srgb>", Rgb, [SrgbStd], [red, green, blue]),
        9 => plain_pairs!("Rgb<Linear<Srgb>>", Rgb, [Linear<SrgbStd>], [red, green, blue]),
        10 => plain_pairs!("Rgb<Rec2020>", Rgb, [Rec2020], [red, green, blue]),
        11 => plain_pairs!("Lms", Lms, [VK], [long, medium, short]),
        _ => plain_pairs!("Luma", Luma, [SrgbStd], [luma]),
    }
    Ok(())
}

fn main() {
    let mut h = Harness::new("C06");
    h.rule("float sources: every enumerated/generated bit pattern is checked against saturation (x<=0 -> 0; x>=1, +inf, NaN -> MAX), nearest-integer (|r - x*MAX| <= 0.5 + one rounding of the product) and monotonicity w.r.t. the neighbouring representable value; integer sources: endpoints, monotone, exact widening, widen/narrow and int->float->int identities. Non-trivial = float strictly inside (0,1) or NaN/inf/huge-negative; integer not 0/MAX. Sweep inputs are distinct by construction; generated cases are de-duplicated by hash.");
    h.assume("oracle arithmetic in f64/u128 written in the harness; f32 sources allow one f32 rounding of the product for u8/u16/u32 targets, 2^-51 relative otherwise");

    // ---- exhaustive f32 sweeps ----
    let nchunks = 4096usize;
    let span = (1u64 << 32) / nchunks as u64;
    for t in 0..5usize {
        let exhaustive = true;
        // quick tier for the wide targets: every 16th chunk-slice (stratified 2^28 patterns) + boundaries
        let name: &'static str = ["f32_to_u8_all_bits", "f32_to_u16_all_bits", "f32_to_u32_bits", "f32_to_u64_bits", "f32_to_u128_bits"][t];
        h.sweep::<F32Case, _, _>(
            name,
            exhaustive,
            nchunks,
            f32_point,
            |i, obs| {
                let lo = i as u64 * span;
                let hi = lo + span - 1;
                let (lo, hi) = if exhaustive { (lo, hi) } else { (lo, lo + span / 16 - 1) };
                let (lo, hi) = (lo as u32, hi as u32);
                by_uint!(t, T => sweep_f32_range::<T>(t, lo, hi, obs));
                if !exhaustive {
                    // last patterns of the chunk as well, so every chunk boundary is straddled
                    let l2 = (i as u64 * span + span - 4096) as u32;
                    let h2 = (i as u64 * span + span - 1) as u32;
                    by_uint!(t, T => sweep_f32_range::<T>(t, l2, h2, obs));
                }
            },
        );
    }

    // ---- generated f64 sources ----
    let n = h.n(3_000_000, 100_000_000);
    h.prop(
        "f64_to_uint_generated",
        n,
        || (0usize..5, f64_source(), prop_oneof![Just(1i64), Just(-1), -64i64..=64, any::<i32>().prop_map(|x| x as i64)])
            .prop_map(|(t, x, step)| F64Case { target: t, bits: x.to_bits(), step }),
        f64_point,
    );

    // ---- integer sources ----
    h.sweep::<UCase, _, _>("u8_u16_sources_all", true, 64, uint_point, |i, obs| {
        let mut nt = 0;
        if i == 0 {
            for v in 0..=255u64 {
                let c = UCase { src: 0, hi: 0, lo: v };
                if let Err(f) = uint_point(&c, obs) {
                    obs.report(&c, f);
                }
                obs.evals += 1;
                if v != 0 && v != 255 {
                    nt += 1;
                }
            }
        }
        for v in (i as u64 * 1024)..((i as u64 + 1) * 1024) {
            let c = UCase { src: 1, hi: 0, lo: v };
            if let Err(f) = uint_point(&c, obs) {
                obs.report(&c, f);
            }
            obs.evals += 1;
            if v != 0 && v != 65535 {
                nt += 1;
            }
        }
        obs.sweep_nontrivial += nt;
    });
    let u32_exh = h.is_thorough();
    h.sweep::<UCase, _, _>("u32_sources", u32_exh, 4096, uint_point, |i, obs| {
        let span = 1u64 << 20;
        let lo = i as u64 * span;
        let n = if u32_exh { span } else { span / 256 };
        let mut nt = 0;
        let mut run = |a: u64, b: u64, obs: &mut Obs| {
            for v in a..b {
                let c = UCase { src: 2, hi: 0, lo: v };
                if let Err(f) = uint_point(&c, obs) {
                    obs.report(&c, f);
                }
                obs.evals += 1;
                if v != 0 && v != u32::MAX as u64 {
                    nt += 1;
                }
            }
        };
        run(lo, lo + n, obs);
        if !u32_exh {
            run(lo + span - 64, lo + span, obs);
        }
        obs.sweep_nontrivial += nt;
    });
    let n = h.n(1_000_000, 30_000_000);
    h.prop("uint_sources_generated", n, u_source, uint_point);

    // ---- colour level ----
    let n = h.n(200_000, 5_000_000);
    h.prop(
        "into_format_is_per_component",
        n,
        || {
            (
                proptest::array::uniform4(prop_oneof![4 => pv::gen::unit(), 1 => -2.0..=3.0f64, 1 => f64_source()]),
                proptest::array::uniform4(any::<u16>()),
            )
                .prop_map(|(comps, ints)| FmtCase { comps, ints })
        },
        fmt_point,
    );
    let n = h.n(400_000, 8_000_000);
    h.prop(
        "into_format_every_colour_type",
        n,
        || {
            (
                0usize..FMT2_TYPES,
                proptest::array::uniform3(prop_oneof![4 => pv::gen::unit(), 1 => -2.0..=3.0f64, 1 => Just(0.0), 1 => Just(1.0), 1 => (0u32..=256).prop_map(|k| k as f64 / 256.0)]),
                prop_oneof![3 => pv::gen::unit(), 1 => Just(0.0), 1 => Just(1.0), 1 => -1.0..=2.0f64],
                -720.0..=720.0f64,
            )
                .prop_map(|(ty, mut v, a, hue)| {
                    if ty < 8 {
                        v[0] = hue;
                    }
                    Fmt2Case { ty, v, a }
                })
        },
        fmt2_point,
    );
    h.finish();
}
