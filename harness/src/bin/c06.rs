//! C06 — component number-format conversion saturates, rounds to nearest and round-trips.
use palette::stimulus::IntoStimulus;
use proptest::prelude::*;
use pv::gen::{next_up32, next_up64};
use pv::runner::{Fail, Harness, Obs, PropResult};
use pv::{ensure, fail};
use serde::{Deserialize, Serialize};

const UNAMES: [&str; 5] = ["u8", "u16", "u32", "u64", "u128"];
const UBITS: [u32; 5] = [8, 16, 32, 64, 128];

fn umax(t: usize) -> u128 {
    if UBITS[t] == 128 {
        u128::MAX
    } else {
        (1u128 << UBITS[t]) - 1
    }
}

macro_rules! by_uint {
    ($t:expr, $ty:ident => $e:expr) => {
        match $t {
            0 => { type $ty = u8; $e }
            1 => { type $ty = u16; $e }
            2 => { type $ty = u32; $e }
            3 => { type $ty = u64; $e }
            4 => { type $ty = u128; $e }
            _ => unreachable!(),
        }
    };
}

fn f32_to_u(t: usize, x: f32) -> u128 {
    by_uint!(t, T => { let r: T = x.into_stimulus(); r as u128 })
}
fn f64_to_u(t: usize, x: f64) -> u128 {
    by_uint!(t, T => { let r: T = x.into_stimulus(); r as u128 })
}
fn u_to_f32(s: usize, v: u128) -> f32 {
    by_uint!(s, S => { (v as S).into_stimulus() })
}
fn u_to_f64(s: usize, v: u128) -> f64 {
    by_uint!(s, S => { (v as S).into_stimulus() })
}
fn u_to_u(s: usize, t: usize, v: u128) -> u128 {
    by_uint!(s, S => { by_uint!(t, T => { let r: T = (v as S).into_stimulus(); r as u128 }) })
}

/// exact value of x * MAX as (integer part as f64-ish) using f64 with error bound; x in (0,1)
fn product(x: f64, t: usize) -> f64 {
    x * (umax(t) as f64)
}

/// tolerance on |result - x*MAX|: half a unit plus one rounding of the product in the precision
/// the property allows (f32 precision for f32 sources into u8/u16/u32; 53 bits otherwise)
fn tol(p: f64, t: usize, src_f32: bool) -> f64 {
    let rel = if src_f32 && t <= 2 { 2f64.powi(-23) } else { 2f64.powi(-51) };
    0.5 + p * rel + if t >= 3 { p * 2f64.powi(-51) } else { 0.0 }
}

#[derive(Debug, Clone, Serialize, Deserialize)]
struct F32Case {
    target: usize,
    bits: u32,
}

fn class_of_f64(x: f64) -> &'static str {
    if x.is_nan() {
        "nan"
    } else if x == f64::INFINITY {
        "+inf"
    } else if x == f64::NEG_INFINITY {
        "-inf"
    } else if x < 0.0 {
        "negative"
    } else if x == 0.0 {
        "zero"
    } else if x < 1.0 {
        "inside(0,1)"
    } else if x == 1.0 {
        "one"
    } else {
        "above-one"
    }
}

fn check_float_value(x: f64, r: u128, t: usize, src_f32: bool, what: &str) -> PropResult {
    let max = umax(t);
    if x.is_nan() {
        ensure!(r == max, "{}: NaN -> {} expected MAX={}", what, r, max);
    } else if x <= 0.0 {
        if r != 0 {
            return Err(Fail::keyed(
                if x < -1.0 { "C06:negative-float-nonzero" } else { "C06:nonpositive-nonzero" },
                format!("{}: x={:e} (<= 0) -> {} expected 0", what, x, r),
            ));
        }
    } else if x >= 1.0 {
        if r != max {
            return Err(Fail::keyed(
                if t >= 3 { "C06:float-to-wide-uint" } else { "C06:above-one-not-max" },
                format!("{}: x={:e} (>= 1) -> {} expected MAX={}", what, x, r, max),
            ));
        }
    } else {
        let p = product(x, t);
        let d = (r as f64 - p).abs();
        if !(d <= tol(p, t, src_f32)) {
            return Err(Fail::keyed(
                if t >= 3 { "C06:float-to-wide-uint" } else { "C06:not-nearest" },
                format!("{}: x={:e} -> {} but x*MAX={:e} (|diff|={:e} > {:e})", what, x, r, p, d, tol(p, t, src_f32)),
            ));
        }
    }
    Ok(())
}

/// point check for an f32 source: value oracle + monotone w.r.t. the next smaller f32 value
fn f32_point(c: &F32Case, obs: &mut Obs) -> PropResult {
    let x = f32::from_bits(c.bits);
    let t = c.target;
    let r = f32_to_u(t, x);
    obs.class(class_of_f64(x as f64));
    check_float_value(x as f64, r, t, true, &format!("f32->{}", UNAMES[t]))?;
    if !x.is_nan() && x != f32::NEG_INFINITY {
        let below = next_up32(x, -1);
        let rb = f32_to_u(t, below);
        ensure!(rb <= r, "f32->{} not monotone: f({:e})={} > f({:e})={}", UNAMES[t], below, rb, x, r);
    }
    Ok(())
}

fn sweep_f32_range<T>(t: usize, lo: u32, hi: u32, obs: &mut Obs)
where
    f32: IntoStimulus<T>,
    T: Copy + Into<u128> + PartialOrd,
{
    // lo..=hi are bit patterns of one sign; positive patterns increase in value, negative decrease
    let negative = lo & 0x8000_0000 != 0;
    let max = umax(t);
    let maxf = max as f64;
    let mut prev: Option<u128> = if lo & 0x7fff_ffff != 0 {
        let pb = f32::from_bits(lo - 1);
        if pb.is_nan() {
            None
        } else {
            let r: T = pb.into_stimulus();
            Some(r.into())
        }
    } else {
        None
    };
    let mut nontrivial = 0u64;
    let mut bits = lo;
    loop {
        let x = f32::from_bits(bits);
        let r: T = x.into_stimulus();
        let r: u128 = r.into();
        let ok_value = if x.is_nan() {
            r == max
        } else if x <= 0.0 {
            r == 0
        } else if x >= 1.0 {
            r == max
        } else {
            nontrivial += 1;
            let p = x as f64 * maxf;
            (r as f64 - p).abs() <= tol(p, t, true)
        };
        let ok_mono = match prev {
            Some(p) if !x.is_nan() => {
                if negative {
                    r <= p
                } else {
                    r >= p
                }
            }
            _ => true,
        };
        if !(ok_value && ok_mono) {
            let case = F32Case { target: t, bits };
            let mut o2 = pv::runner::scratch_obs();
            let f = match f32_point(&case, &mut o2) {
                Err(f) => f,
                Ok(()) => {
                    // monotonicity against the neighbour on the other side (negative range)
                    Fail::new(format!("f32->{} not monotone at bits {:#x} (r={}, prev={:?})", UNAMES[t], bits, r, prev))
                }
            };
            obs.report(&case, f);
        }
        if !x.is_nan() {
            prev = Some(r);
        }
        if bits == hi {
            break;
        }
        bits += 1;
    }
    obs.evals += (hi - lo) as u64 + 1;
    obs.sweep_nontrivial += nontrivial;
}

#[derive(Debug, Clone, Serialize, Deserialize)]
struct F64Case {
    target: usize,
    bits: u64,
    /// second value = first moved by `step` representable steps (monotonicity pair)
    step: i64,
}

fn f64_point(c: &F64Case, obs: &mut Obs) -> PropResult {
    let x = f64::from_bits(c.bits);
    let t = c.target;
    let r = f64_to_u(t, x);
    obs.class(class_of_f64(x));
    obs.nontrivial_if(x.is_nan() || x.is_infinite() || (x > 0.0 && x < 1.0) || x < -1e6);
    check_float_value(x, r, t, false, &format!("f64->{}", UNAMES[t]))?;
    if !x.is_nan() {
        let y = next_up64(x, c.step);
        if !y.is_nan() {
            let ry = f64_to_u(t, y);
            check_float_value(y, ry, t, false, &format!("f64->{}", UNAMES[t]))?;
            let (lo, hi, rlo, rhi) = if y >= x { (x, y, r, ry) } else { (y, x, ry, r) };
            ensure!(rlo <= rhi, "f64->{} not monotone: f({:e})={} > f({:e})={}", UNAMES[t], lo, rlo, hi, rhi);
        }
    }
    // f32 path for the same value when exactly representable
    let xf = x as f32;
    if (xf as f64) == x {
        let rf = f32_to_u(t, xf);
        check_float_value(x, rf, t, true, &format!("f32->{}", UNAMES[t]))?;
    }
    Ok(())
}

fn f64_source() -> BoxedStrategy<f64> {
    prop_oneof![
        // k/MAX for each width, +- ulps, and ties (k+0.5)/MAX
        6 => (0usize..5, any::<u128>(), -2i64..=2, any::<bool>()).prop_map(|(t, k, n, tie)| {
            let max = umax(t);
            let k = k % (max / 2 + 1) * 2 / 1; // spread
            let k = k.min(max);
            let kf = k as f64 + if tie { 0.5 } else { 0.0 };
            next_up64(kf / max as f64, n)
        }),
        3 => (0usize..5, 0u128..=600, -2i64..=2, any::<bool>(), any::<bool>()).prop_map(|(t, k, n, tie, top)| {
            let max = umax(t);
            let k = if top { max - k.min(max) } else { k.min(max) };
            let kf = k as f64 + if tie { 0.5 } else { 0.0 };
            next_up64(kf / max as f64, n)
        }),
        4 => 0.0..=1.0f64,
        2 => -2.0..=3.0f64,
        2 => (-1100i32..=1023, any::<bool>(), -2i64..=2).prop_map(|(e, neg, n)| { let v = next_up64(2f64.powi(e), n); if neg { -v } else { v } }),
        2 => (-300.0..=300.0f64, any::<bool>()).prop_map(|(e, neg)| { let v = 10f64.powf(e); if neg { -v } else { v } }),
        1 => prop_oneof![Just(f64::NAN), Just(-f64::NAN), Just(f64::INFINITY), Just(f64::NEG_INFINITY), Just(-0.0), Just(0.0), Just(1.0),
                 Just(f64::MAX), Just(f64::MIN), Just(f64::MIN_POSITIVE), Just(f64::from_bits(1)), Just(-f64::from_bits(1)),
                 Just(-8388608.0), Just(-8388609.0), Just(-4503599627370496.0), Just(-4503599627370497.0), Just(-1e30), Just(-65794.0), Just(-1e6),
                 Just(f64::from_bits(0x7ff0_0000_0000_0001)), Just(f64::from_bits(0xfff8_0000_0000_0001))],
        1 => any::<u64>().prop_map(f64::from_bits),
    ]
    .boxed()
}

#[derive(Debug, Clone, Serialize, Deserialize)]
struct UCase {
    src: usize,
    hi: u64,
    lo: u64,
}

fn uval(c: &UCase) -> u128 {
    (((c.hi as u128) << 64) | c.lo as u128) & umax(c.src)
}

/// all checks for one unsigned source value v of width `s`
fn uint_point(c: &UCase, obs: &mut Obs) -> PropResult {
    let s = c.src;
    let v = uval(c);
    let smax = umax(s);
    obs.nontrivial_if(v != 0 && v != smax);
    obs.class(if v == 0 { "zero" } else if v == smax { "max" } else { "inside" });
    let sn = UNAMES[s];
    // -> floats
    let f = u_to_f32(s, v);
    let d = u_to_f64(s, v);
    let exact = v as f64 / smax as f64; // correctly rounded up to 2 roundings (<= 1.5 ulp f64)
    ensure!(f.is_finite() && d.is_finite(), "{}->float not finite for {}", sn, v);
    if v == 0 {
        ensure!(f == 0.0 && d == 0.0, "{}: 0 -> {} / {} expected 0", sn, f, d);
    }
    if v == smax {
        ensure!(f == 1.0, "{}::MAX -> f32 {:e} expected exactly 1.0", sn, f);
        ensure!(d == 1.0, "{}::MAX -> f64 {:e} expected exactly 1.0", sn, d);
    }
    ensure!((0.0..=1.0).contains(&f) && (0.0..=1.0).contains(&d), "{}->float out of [0,1]: {} {} {}", sn, v, f, d);
    ensure!((f as f64 - exact).abs() <= exact * 2f64.powi(-22) + 1e-45, "{}->f32: {} -> {:e}, v/MAX = {:e}", sn, v, f, exact);
    ensure!((d - exact).abs() <= exact * 2f64.powi(-50), "{}->f64: {} -> {:e}, v/MAX = {:e}", sn, v, d, exact);
    obs.err("u_to_f32_rel", if exact > 0.0 { ((f as f64 - exact) / exact).abs() } else { 0.0 });
    obs.err("u_to_f64_rel", if exact > 0.0 { ((d - exact) / exact).abs() } else { 0.0 });
    // monotone w.r.t. predecessor
    if v > 0 {
        let fp = u_to_f32(s, v - 1);
        let dp = u_to_f64(s, v - 1);
        ensure!(fp <= f, "{}->f32 not monotone at {}", sn, v);
        ensure!(dp <= d, "{}->f64 not monotone at {}", sn, v);
    }
    // uint -> float -> same uint
    if s <= 1 {
        let back = f32_to_u(s, f);
        ensure!(back == v, "{} -> f32 -> {}: {} came back as {}", sn, sn, v, back);
    }
    if s <= 2 {
        let back = f64_to_u(s, d);
        ensure!(back == v, "{} -> f64 -> {}: {} came back as {}", sn, sn, v, back);
    }
    // -> uints
    for t in 0..5 {
        let tn = UNAMES[t];
        let tmax = umax(t);
        let r = u_to_u(s, t, v);
        if t == s {
            ensure!(r == v, "{}->{} identity changed {} to {}", sn, tn, v, r);
            continue;
        }
        if v == 0 {
            ensure!(r == 0, "{}->{}: 0 -> {}", sn, tn, r);
        }
        if v == smax {
            ensure!(r == tmax, "{}->{}: MAX -> {} expected {}", sn, tn, r, tmax);
        }
        if v > 0 {
            let rp = u_to_u(s, t, v - 1);
            ensure!(rp <= r, "{}->{} not monotone: f({})={} > f({})={}", sn, tn, v - 1, rp, v, r);
        }
        if t > s {
            // widening: exact scaling v * (tmax / smax) (bit replication)
            let expect = v * (tmax / smax);
            ensure!(r == expect, "{}->{} widening: {} -> {} expected {}", sn, tn, v, r, expect);
            if s <= 2 {
                let back = u_to_u(t, s, r);
                ensure!(back == v, "{}->{}->{}: {} came back as {}", sn, tn, sn, v, back);
            }
        } else {
            // narrowing: within one unit of the exact quotient (implied by monotone + widen/narrow identity)
            let exact = v as f64 * (tmax as f64 / smax as f64);
            let dd = (r as f64 - exact).abs();
            ensure!(dd <= 1.0 + exact * 2f64.powi(-50), "{}->{} narrowing: {} -> {} but exact {:e}", sn, tn, v, r, exact);
            obs.err("narrowing_abs", dd);
        }
    }
    Ok(())
}

fn u_source() -> BoxedStrategy<UCase> {
    (0usize..5, prop_oneof![
        4 => any::<u128>(),
        2 => (0u32..128, -3i64..=3).prop_map(|(b, d)| ((1u128 << b) as i128 as u128).wrapping_add(d as i128 as u128)),
        2 => (0u128..=1000),
        2 => (0u128..=1000).prop_map(|k| u128::MAX - k),
        1 => any::<u8>().prop_map(|b| { let mut v = 0u128; for _ in 0..16 { v = (v << 8) | b as u128; } v }),
        1 => (any::<u64>(), 0u32..128).prop_map(|(m, sh)| (m as u128) << sh),
    ])
        .prop_map(|(s, v)| {
            let v = v & umax(s);
            UCase { src: s, hi: (v >> 64) as u64, lo: v as u64 }
        })
        .boxed()
}

// ---- colour level: into_format is the per-component function ----
#[derive(Debug, Clone, Serialize, Deserialize)]
struct FmtCase {
    comps: [f64; 4],
    ints: [u16; 4],
}

fn fmt_point(c: &FmtCase, obs: &mut Obs) -> PropResult {
    use palette::{LinSrgba, Srgb, Srgba, SrgbLuma, SrgbLumaa};
    obs.nontrivial();
    let [r, g, b, a] = c.comps;
    // f64 -> u8 / u16 / f32
    let col = Srgba::<f64>::new(r, g, b, a);
    let u: Srgba<u8> = col.into_format();
    let e: [u8; 4] = [r.into_stimulus(), g.into_stimulus(), b.into_stimulus(), a.into_stimulus()];
    ensure!([u.red, u.green, u.blue, u.alpha] == e, "Srgba<f64>::into_format::<u8,u8> {:?} != per-component {:?}", u, e);
    let u: Srgba<u16> = col.into_format();
    let e: [u16; 4] = [r.into_stimulus(), g.into_stimulus(), b.into_stimulus(), a.into_stimulus()];
    ensure!([u.red, u.green, u.blue, u.alpha] == e, "Srgba<f64>::into_format::<u16,u16> {:?} != per-component {:?}", u, e);
    let f: Srgba<f32> = col.into_format();
    ensure!(
        [f.red.to_bits(), f.green.to_bits(), f.blue.to_bits(), f.alpha.to_bits()]
            == [(r as f32).to_bits(), (g as f32).to_bits(), (b as f32).to_bits(), (a as f32).to_bits()],
        "Srgba<f64> -> f32 not a plain cast"
    );
    // mixed: colour u8, alpha f32
    let m: palette::Alpha<Srgb<u8>, f32> = col.into_format();
    ensure!(m.alpha.to_bits() == (a as f32).to_bits() && m.color.red == e_u8(r), "mixed format conversion differs");
    let lin = LinSrgba::<f64>::new(r, g, b, a);
    let lu: LinSrgba<u16> = lin.into_format();
    ensure!(lu.red == e_u16(r) && lu.alpha == e_u16(a), "LinSrgba into_format differs");
    // luma
    let l = SrgbLumaa::<f64>::new(r, a);
    let lu: SrgbLumaa<u8> = l.into_format();
    ensure!(lu.luma == e_u8(r) && lu.alpha == e_u8(a), "Lumaa into_format differs");
    // integer sources
    let [i0, i1, i2, i3] = c.ints;
    let ic = Srgba::<u16>::new(i0, i1, i2, i3);
    let f: Srgba<f32> = ic.into_format();
    let ef: [f32; 4] = [i0.into_stimulus(), i1.into_stimulus(), i2.into_stimulus(), i3.into_stimulus()];
    ensure!([f.red, f.green, f.blue, f.alpha] == ef, "Srgba<u16> -> f32 differs from per-component");
    let u8c: Srgba<u8> = ic.into_format();
    let eu: [u8; 4] = [i0.into_stimulus(), i1.into_stimulus(), i2.into_stimulus(), i3.into_stimulus()];
    ensure!([u8c.red, u8c.green, u8c.blue, u8c.alpha] == eu, "Srgba<u16> -> u8 differs from per-component");
    let back: Srgba<u16> = Srgba::<u8>::new(i0 as u8, i1 as u8, i2 as u8, i3 as u8).into_format();
    ensure!(back.red == (i0 as u8 as u16) * 257, "u8->u16 colour widening");
    let l8 = SrgbLuma::<u8>::new(i0 as u8);
    let lf: SrgbLuma<f64> = l8.into_format();
    let ef: f64 = (i0 as u8).into_stimulus();
    ensure!(lf.luma == ef, "Luma<u8> -> f64");
    Ok(())
}
fn e_u8(x: f64) -> u8 {
    x.into_stimulus()
}
fn e_u16(x: f64) -> u16 {
    x.into_stimulus()
}

fn main() {
    let mut h = Harness::new("C06");
    h.rule("float sources: every enumerated/generated bit pattern is checked against saturation (x<=0 -> 0; x>=1, +inf, NaN -> MAX), nearest-integer (|r - x*MAX| <= 0.5 + one rounding of the product) and monotonicity w.r.t. the neighbouring representable value; integer sources: endpoints, monotone, exact widening, widen/narrow and int->float->int identities. Non-trivial = float strictly inside (0,1) or NaN/inf/huge-negative; integer not 0/MAX. Sweep inputs are distinct by construction; generated cases are de-duplicated by hash.");
    h.assume("oracle arithmetic in f64/u128 written in the harness; f32 sources allow one f32 rounding of the product for u8/u16/u32 targets, 2^-51 relative otherwise");

    // ---- exhaustive f32 sweeps ----
    let nchunks = 4096usize;
    let span = (1u64 << 32) / nchunks as u64;
    for t in 0..5usize {
        let exhaustive = true;
        // quick tier for the wide targets: every 16th chunk-slice (stratified 2^28 patterns) + boundaries
        let name: &'static str = ["f32_to_u8_all_bits", "f32_to_u16_all_bits", "f32_to_u32_bits", "f32_to_u64_bits", "f32_to_u128_bits"][t];
        h.sweep::<F32Case, _, _>(
            name,
            exhaustive,
            nchunks,
            f32_point,
            |i, obs| {
                let lo = i as u64 * span;
                let hi = lo + span - 1;
                let (lo, hi) = if exhaustive { (lo, hi) } else { (lo, lo + span / 16 - 1) };
                let (lo, hi) = (lo as u32, hi as u32);
                by_uint!(t, T => sweep_f32_range::<T>(t, lo, hi, obs));
                if !exhaustive {
                    // last patterns of the chunk as well, so every chunk boundary is straddled
                    let l2 = (i as u64 * span + span - 4096) as u32;
                    let h2 = (i as u64 * span + span - 1) as u32;
                    by_uint!(t, T => sweep_f32_range::<T>(t, l2, h2, obs));
                }
            },
        );
    }

    // ---- generated f64 sources ----
    let n = h.n(3_000_000, 100_000_000);
    h.prop(
        "f64_to_uint_generated",
        n,
        || (0usize..5, f64_source(), prop_oneof![Just(1i64), Just(-1), -64i64..=64, any::<i32>().prop_map(|x| x as i64)])
            .prop_map(|(t, x, step)| F64Case { target: t, bits: x.to_bits(), step }),
        f64_point,
    );

    // ---- integer sources ----
    h.sweep::<UCase, _, _>("u8_u16_sources_all", true, 64, uint_point, |i, obs| {
        let mut nt = 0;
        if i == 0 {
            for v in 0..=255u64 {
                let c = UCase { src: 0, hi: 0, lo: v };
                if let Err(f) = uint_point(&c, obs) {
                    obs.report(&c, f);
                }
                obs.evals += 1;
                if v != 0 && v != 255 {
                    nt += 1;
                }
            }
        }
        for v in (i as u64 * 1024)..((i as u64 + 1) * 1024) {
            let c = UCase { src: 1, hi: 0, lo: v };
            if let Err(f) = uint_point(&c, obs) {
                obs.report(&c, f);
            }
            obs.evals += 1;
            if v != 0 && v != 65535 {
                nt += 1;
            }
        }
        obs.sweep_nontrivial += nt;
    });
    let u32_exh = h.is_thorough();
    h.sweep::<UCase, _, _>("u32_sources", u32_exh, 4096, uint_point, |i, obs| {
        let span = 1u64 << 20;
        let lo = i as u64 * span;
        let n = if u32_exh { span } else { span / 256 };
        let mut nt = 0;
        let mut run = |a: u64, b: u64, obs: &mut Obs| {
            for v in a..b {
                let c = UCase { src: 2, hi: 0, lo: v };
                if let Err(f) = uint_point(&c, obs) {
                    obs.report(&c, f);
                }
                obs.evals += 1;
                if v != 0 && v != u32::MAX as u64 {
                    nt += 1;
                }
            }
        };
        run(lo, lo + n, obs);
        if !u32_exh {
            run(lo + span - 64, lo + span, obs);
        }
        obs.sweep_nontrivial += nt;
    });
    let n = h.n(1_000_000, 30_000_000);
    h.prop("uint_sources_generated", n, u_source, uint_point);

    // ---- colour level ----
    let n = h.n(200_000, 5_000_000);
    h.prop(
        "into_format_is_per_component",
        n,
        || {
            (
                proptest::array::uniform4(prop_oneof![4 => pv::gen::unit(), 1 => -2.0..=3.0f64, 1 => f64_source()]),
                proptest::array::uniform4(any::<u16>()),
            )
                .prop_map(|(comps, ints)| FmtCase { comps, ints })
        },
        fmt_point,
    );
    h.finish();
}
