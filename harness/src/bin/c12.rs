//! C12 — hex strings, colour names and packed integers round-trip and parse strictly.
use palette::cast::Packed;
use palette::rgb::channels::{Abgr, Argb, Bgra, Rgba as RgbaOrder};
use palette::luma::channels::{Al, La};
use palette::{Srgb, Srgba, SrgbLuma, SrgbLumaa};
use proptest::prelude::*;
use pv::ensure;
use pv::runner::{no_panic, Fail, Harness, Obs, PropResult};
use serde::{Deserialize, Serialize};
use std::str::FromStr;

#[path = "../named_table.rs"]
mod named_table;
use named_table::NAMED;

// ---------------- strict parsing against a model of the documented grammar ----------------
pub const TNAMES: [&str; 10] = ["Rgb<u8>", "Rgba<u8>", "Rgb<u16>", "Rgba<u16>", "Rgb<u32>", "Rgba<u32>", "Rgb<f32>", "Rgba<f32>", "Rgb<f64>", "Rgba<f64>"];

fn accepted_lengths(t: usize) -> &'static [usize] {
    match t {
        0 => &[3, 6],
        1 => &[4, 8],
        2 => &[3, 6, 12],
        3 => &[4, 8, 16],
        4 => &[3, 6, 12, 24],
        5 => &[4, 8, 16, 32],
        6 => &[3, 6, 12],
        7 => &[4, 8, 16],
        8 => &[3, 6, 12, 24],
        9 => &[4, 8, 16, 32],
        _ => unreachable!(),
    }
}

/// model parser: '#'? HEX{n}; returns (channels, bits per channel) — alpha = None for rgb targets
fn model_parse(t: usize, s: &str) -> Option<(Vec<u64>, u32)> {
    let body = s.strip_prefix('#').unwrap_or(s);
    let chars: Vec<char> = body.chars().collect();
    if !chars.iter().all(|c| c.is_ascii_hexdigit()) {
        return None;
    }
    let n = chars.len();
    if !accepted_lengths(t).contains(&n) {
        return None;
    }
    let nch = if t % 2 == 0 { 3 } else { 4 };
    let d = n / nch;
    let mut out = Vec::new();
    for c in 0..nch {
        let mut v: u64 = 0;
        for k in 0..d {
            v = v * 16 + chars[c * d + k].to_digit(16).unwrap() as u64;
        }
        if d == 1 {
            v *= 17;
        }
        out.push(v);
    }
    Some((out, if d == 1 { 8 } else { (d * 4) as u32 }))
}

/// widen a channel value of `from` bits to `to` bits (full range onto full range, exact)
fn widen(v: u64, from: u32, to: u32) -> u64 {
    if from == to {
        return v;
    }
    let fm = (1u128 << from) - 1;
    let tm = (1u128 << to) - 1;
    (v as u128 * (tm / fm)) as u64
}

/// result of parsing as comparable words (float targets: to_bits); None = rejected
fn actual_parse(t: usize, s: &str) -> Result<Option<Vec<u64>>, String> {
    no_panic(|| match t {
        0 => Srgb::<u8>::from_str(s).ok().map(|c| vec![c.red as u64, c.green as u64, c.blue as u64]),
        1 => Srgba::<u8>::from_str(s).ok().map(|c| vec![c.red as u64, c.green as u64, c.blue as u64, c.alpha as u64]),
        2 => Srgb::<u16>::from_str(s).ok().map(|c| vec![c.red as u64, c.green as u64, c.blue as u64]),
        3 => Srgba::<u16>::from_str(s).ok().map(|c| vec![c.red as u64, c.green as u64, c.blue as u64, c.alpha as u64]),
        4 => Srgb::<u32>::from_str(s).ok().map(|c| vec![c.red as u64, c.green as u64, c.blue as u64]),
        5 => Srgba::<u32>::from_str(s).ok().map(|c| vec![c.red as u64, c.green as u64, c.blue as u64, c.alpha as u64]),
        6 => Srgb::<f32>::from_str(s).ok().map(|c| vec![c.red.to_bits() as u64, c.green.to_bits() as u64, c.blue.to_bits() as u64]),
        7 => Srgba::<f32>::from_str(s).ok().map(|c| vec![c.red.to_bits() as u64, c.green.to_bits() as u64, c.blue.to_bits() as u64, c.alpha.to_bits() as u64]),
        8 => Srgb::<f64>::from_str(s).ok().map(|c| vec![c.red.to_bits(), c.green.to_bits(), c.blue.to_bits()]),
        9 => Srgba::<f64>::from_str(s).ok().map(|c| vec![c.red.to_bits(), c.green.to_bits(), c.blue.to_bits(), c.alpha.to_bits()]),
        _ => unreachable!(),
    })
}

fn expected_words(t: usize, s: &str) -> Option<Vec<u64>> {
    use palette::stimulus::IntoStimulus;
    let (ch, bits) = model_parse(t, s)?;
    Some(
        ch.iter()
            .map(|&v| match t {
                0 | 1 => v,
                2 | 3 => widen(v, bits, 16),
                4 | 5 => widen(v, bits, 32),
                6 | 7 => {
                    let f: f32 = match bits {
                        8 => (v as u8).into_stimulus(),
                        16 => (v as u16).into_stimulus(),
                        _ => (v as u32).into_stimulus(),
                    };
                    f.to_bits() as u64
                }
                _ => {
                    let f: f64 = match bits {
                        8 => (v as u8).into_stimulus(),
                        16 => (v as u16).into_stimulus(),
                        _ => (v as u32).into_stimulus(),
                    };
                    f.to_bits()
                }
            })
            .collect(),
    )
}

#[derive(Debug, Clone, Serialize, Deserialize)]
pub struct StrCase {
    pub target: usize,
    pub s: String,
}

fn classify(t: usize, s: &str, obs: &mut Obs) {
    let body = s.strip_prefix('#').unwrap_or(s);
    let n = body.chars().count();
    let near = accepted_lengths(t).iter().any(|&a| (a as i64 - n as i64).abs() <= 1) || accepted_lengths(t).iter().any(|&a| a == body.len());
    let nonhex = body.chars().any(|c| !c.is_ascii_hexdigit());
    let multibyte = s.chars().any(|c| c.len_utf8() > 1);
    let sign = s.contains('+') || s.contains('-');
    if multibyte && accepted_lengths(t).iter().any(|&a| a == body.len()) {
        obs.class("multi-byte with accepted byte length");
    }
    if sign && near {
        obs.class("sign inside digits near accepted length");
    }
    if !nonhex && accepted_lengths(t).contains(&n) {
        obs.class("valid");
    }
    obs.nontrivial_if(near && (nonhex || multibyte || sign));
}

pub fn strict_point(c: &StrCase, obs: &mut Obs) -> PropResult {
    let t = c.target;
    classify(t, &c.s, obs);
    let want = expected_words(t, &c.s);
    let got = match actual_parse(t, &c.s) {
        Ok(g) => g,
        Err(p) => return Err(Fail::keyed("C12:parse-panics", format!("{:?}.parse::<{}>() panicked: {}", c.s, TNAMES[t], p))),
    };
    match (&want, &got) {
        (None, Some(g)) => Err(Fail::keyed("C12:accepts-invalid", format!("{:?}.parse::<{}>() was accepted as {:?} but is not '#'? followed by {:?} hex digits", c.s, TNAMES[t], g, accepted_lengths(t)))),
        (Some(w), None) => Err(Fail::new(format!("{:?}.parse::<{}>() was rejected, expected {:?}", c.s, TNAMES[t], w))),
        (Some(w), Some(g)) if w != g => Err(Fail::new(format!("{:?}.parse::<{}>() = {:?}, expected {:?}", c.s, TNAMES[t], g, w))),
        _ => Ok(()),
    }
}

const ALPHABET: [&str; 24] = ["0", "1", "9", "a", "f", "A", "F", "c", "g", "z", "G", " ", "\t", "+", "-", "#", "_", "é", "€", "𝟘", "０", "\0", "x", "7"];
const SMALL: [&str; 7] = ["f", "0", "g", "#", "+", "é", " "];

fn nth_string(mut idx: u64, alphabet: &[&str]) -> String {
    // enumerate strings in length-then-lexicographic order: idx 0 = ""
    let k = alphabet.len() as u64;
    let mut len = 0u32;
    let mut count = 1u64;
    while idx >= count {
        idx -= count;
        len += 1;
        count *= k;
    }
    let mut digits = Vec::new();
    for _ in 0..len {
        digits.push((idx % k) as usize);
        idx /= k;
    }
    digits.reverse();
    digits.iter().map(|&d| alphabet[d]).collect()
}
fn count_upto(len: u32, k: u64) -> u64 {
    (0..=len).map(|l| k.pow(l)).sum()
}

// ---------------- hex round trips ----------------
#[derive(Debug, Clone, Serialize, Deserialize)]
struct HexCase {
    c: [u32; 4],
}

fn hex_u8_point(c: &HexCase, obs: &mut Obs) -> PropResult {
    let [r, g, b, a] = c.c;
    let col = Srgb::<u8>::new(r as u8, g as u8, b as u8);
    obs.nontrivial_if(r.min(g).min(b) < 16); // needs zero padding
    for s in [format!("{:x}", col), format!("{:X}", col), format!("#{:x}", col), format!("#{:X}", col)] {
        ensure!(s.trim_start_matches('#').len() == 6, "format of {:?} gives {:?}", col, s);
        let back = Srgb::<u8>::from_str(&s).map_err(|e| Fail::new(format!("formatted {:?} as {:?} which does not parse: {}", col, s, e)))?;
        ensure!(back == col, "{:?} formatted as {:?} parses as {:?}", col, s, back);
    }
    let s = format!("{:x}", col);
    let w: Srgb<u16> = s.parse().map_err(|_| Fail::new("6 digits rejected by Rgb<u16>"))?;
    ensure!(w == col.into_format::<u16>(), "Rgb<u16> from {:?} = {:?}", s, w);
    let f: Srgb<f32> = s.parse().map_err(|_| Fail::new("6 digits rejected by Rgb<f32>"))?;
    ensure!(f == col.into_format::<f32>(), "Rgb<f32> from {:?} = {:?}", s, f);
    if r % 17 == 0 && g % 17 == 0 && b % 17 == 0 {
        obs.class("has-short-form");
        let short = format!("#{:x}{:x}{:x}", r / 17, g / 17, b / 17);
        let back = Srgb::<u8>::from_str(&short).map_err(|e| Fail::new(format!("{:?} rejected: {}", short, e)))?;
        ensure!(back == col, "short form {:?} parses as {:?} expected {:?}", short, back, col);
    }
    let _ = a;
    Ok(())
}

fn hex_wide_point(c: &HexCase, obs: &mut Obs) -> PropResult {
    obs.nontrivial();
    let [r, g, b, a] = c.c;
    macro_rules! rt {
        ($ty:ty, $digits:expr, $col:expr) => {{
            let col: $ty = $col;
            for s in [format!("{:x}", col), format!("{:X}", col), format!("#{:x}", col)] {
                ensure!(s.trim_start_matches('#').len() == $digits, "{:?} formats as {:?} ({} digits expected)", col, s, $digits);
                let back = <$ty>::from_str(&s).map_err(|e| Fail::new(format!("formatted {:?} as {:?} which does not parse: {}", col, s, e)))?;
                ensure!(back == col, "{:?} formatted as {:?} parses as {:?}", col, s, back);
            }
        }};
    }
    rt!(Srgba<u8>, 8, Srgba::new(r as u8, g as u8, b as u8, a as u8));
    rt!(Srgb<u16>, 12, Srgb::new(r as u16, g as u16, b as u16));
    rt!(Srgba<u16>, 16, Srgba::new(r as u16, g as u16, b as u16, a as u16));
    rt!(Srgb<u32>, 24, Srgb::new(r, g, b));
    rt!(Srgba<u32>, 32, Srgba::new(r, g, b, a));
    // float targets take the integer parse through into_format
    let s = format!("{:x}", Srgba::<u16>::new(r as u16, g as u16, b as u16, a as u16));
    let f: Srgba<f32> = s.parse().map_err(|_| Fail::new("16 digits rejected by Rgba<f32>"))?;
    ensure!(f == Srgba::<u16>::new(r as u16, g as u16, b as u16, a as u16).into_format(), "Rgba<f32> from {:?}", s);
    let s = format!("{:x}", Srgb::<u32>::new(r, g, b));
    let f: Srgb<f64> = s.parse().map_err(|_| Fail::new("24 digits rejected by Rgb<f64>"))?;
    ensure!(f == Srgb::<u32>::new(r, g, b).into_format(), "Rgb<f64> from {:?}", s);
    let s = format!("{:x}", Srgb::<u16>::new(r as u16, g as u16, b as u16));
    let w: Srgb<u32> = s.parse().map_err(|_| Fail::new("12 digits rejected by Rgb<u32>"))?;
    ensure!(w == Srgb::<u16>::new(r as u16, g as u16, b as u16).into_format(), "Rgb<u32> from 12 digits {:?}", s);
    // 4-digit short form
    let short = format!("{:x}{:x}{:x}{:x}", r % 16, g % 16, b % 16, a % 16);
    let back: Srgba<u8> = short.parse().map_err(|_| Fail::new(format!("{:?} rejected by Rgba<u8>", short)))?;
    ensure!(back == Srgba::new((r % 16 * 17) as u8, (g % 16 * 17) as u8, (b % 16 * 17) as u8, (a % 16 * 17) as u8), "short rgba {:?} = {:?}", short, back);
    Ok(())
}

// ---------------- packed integers ----------------
#[derive(Debug, Clone, Serialize, Deserialize)]
struct PackCase {
    word: u32,
}

/// byte index (big endian, 0 = most significant) of (r, g, b, a) for each order
const ORDERS: [(&str, [usize; 4]); 4] = [("Rgba", [0, 1, 2, 3]), ("Argb", [1, 2, 3, 0]), ("Bgra", [2, 1, 0, 3]), ("Abgr", [3, 2, 1, 0])];

#[inline]
fn pack_word_ok(u: u32) -> Result<(), (usize, String)> {
    let by = u.to_be_bytes();
    macro_rules! one {
        ($idx:expr, $O:ty) => {{
            let pos = ORDERS[$idx].1;
            let c: Srgba<u8> = Srgba::from_u32::<$O>(u);
            if [c.red, c.green, c.blue, c.alpha] != [by[pos[0]], by[pos[1]], by[pos[2]], by[pos[3]]] {
                return Err(($idx, format!("Srgba::from_u32::<{}>({:#010x}) = {:?}", ORDERS[$idx].0, u, c)));
            }
            if c.into_u32::<$O>() != u {
                return Err(($idx, format!("into_u32::<{}>(from_u32({:#010x})) = {:#010x}", ORDERS[$idx].0, u, c.into_u32::<$O>())));
            }
            let p: Packed<$O, u32> = Packed::pack(c);
            if p.color != u {
                return Err(($idx, format!("Packed::<{}, u32>::pack gives {:#010x} for {:#010x}", ORDERS[$idx].0, p.color, u)));
            }
            let c2: Srgba<u8> = Packed::<$O, u32>::from(u).unpack();
            if c2 != c {
                return Err(($idx, format!("Packed::<{}, u32>::unpack differs from from_u32", ORDERS[$idx].0)));
            }
            let pa: Packed<$O, [u8; 4]> = Packed::pack(c);
            if pa.color != by {
                return Err(($idx, format!("Packed::<{}, [u8;4]>::pack gives {:?} for {:#010x}", ORDERS[$idx].0, pa.color, u)));
            }
            let c3: Srgba<u8> = pa.unpack();
            if c3 != c {
                return Err(($idx, format!("Packed::<{}, [u8;4]> round trip differs", ORDERS[$idx].0)));
            }
            // alpha-less forms: alpha dropped on the way in, opaque on the way out
            let rgb: Srgb<u8> = Srgb::from_u32::<$O>(u);
            if rgb != c.color {
                return Err(($idx, format!("Srgb::from_u32::<{}>({:#010x}) = {:?}", ORDERS[$idx].0, u, rgb)));
            }
            let mut want = by;
            want[pos[3]] = 255;
            if rgb.into_u32::<$O>() != u32::from_be_bytes(want) {
                return Err(($idx, format!("Srgb::into_u32::<{}> = {:#010x} expected {:#010x}", ORDERS[$idx].0, rgb.into_u32::<$O>(), u32::from_be_bytes(want))));
            }
        }};
    }
    one!(0, RgbaOrder);
    one!(1, Argb);
    one!(2, Bgra);
    one!(3, Abgr);
    // From impls: Rgb <-> u32 is ARGB, Rgba <-> u32 is RGBA
    let c: Srgb<u8> = Srgb::from(u);
    if [c.red, c.green, c.blue] != [by[1], by[2], by[3]] {
        return Err((4, format!("Srgb::<u8>::from({:#010x}) = {:?} (documented: ARGB)", u, c)));
    }
    if u32::from(c) != (u | 0xff00_0000) {
        return Err((4, format!("u32::from(Srgb) = {:#010x}", u32::from(c))));
    }
    let c: Srgba<u8> = Srgba::from(u);
    if [c.red, c.green, c.blue, c.alpha] != by {
        return Err((4, format!("Srgba::<u8>::from({:#010x}) = {:?} (documented: RGBA)", u, c)));
    }
    if u32::from(c) != u {
        return Err((4, format!("u32::from(Srgba) = {:#010x}", u32::from(c))));
    }
    Ok(())
}

fn pack_point(c: &PackCase, obs: &mut Obs) -> PropResult {
    obs.nontrivial();
    pack_word_ok(c.word).map_err(|(_, m)| Fail::new(m))
}

#[derive(Debug, Clone, Serialize, Deserialize)]
struct LumaPackCase {
    word: u16,
}
fn luma_pack_point(c: &LumaPackCase, obs: &mut Obs) -> PropResult {
    obs.nontrivial();
    let u = c.word;
    let [hi, lo] = u.to_be_bytes();
    let la: SrgbLumaa<u8> = SrgbLumaa::from_u16::<La>(u);
    ensure!(la.luma == hi && la.alpha == lo, "Lumaa::from_u16::<La>({:#06x}) = {:?}", u, la);
    ensure!(la.into_u16::<La>() == u, "La round trip");
    let al: SrgbLumaa<u8> = SrgbLumaa::from_u16::<Al>(u);
    ensure!(al.alpha == hi && al.luma == lo, "Lumaa::from_u16::<Al>({:#06x}) = {:?}", u, al);
    ensure!(al.into_u16::<Al>() == u, "Al round trip");
    let l: SrgbLuma<u8> = SrgbLuma::from_u16::<La>(u);
    ensure!(l.luma == hi, "Luma::from_u16::<La> = {:?}", l);
    ensure!(l.into_u16::<La>() == u16::from_be_bytes([hi, 255]), "Luma::into_u16::<La>");
    let l: SrgbLuma<u8> = SrgbLuma::from_u16::<Al>(u);
    ensure!(l.luma == lo, "Luma::from_u16::<Al> = {:?}", l);
    ensure!(l.into_u16::<Al>() == u16::from_be_bytes([255, lo]), "Luma::into_u16::<Al>");
    let p: Packed<La, u16> = Packed::pack(la);
    ensure!(p.color == u, "Packed<La,u16>");
    let p: Packed<Al, [u8; 2]> = Packed::pack(al);
    ensure!(p.color == [hi, lo], "Packed<Al,[u8;2]>");
    Ok(())
}

// ---------------- names ----------------
#[derive(Debug, Clone, Serialize, Deserialize)]
pub struct NameCase {
    pub s: String,
}

pub fn name_point(c: &NameCase, obs: &mut Obs) -> PropResult {
    let want = NAMED.iter().find(|e| e.0 == c.s);
    let got = no_panic(|| palette::named::from_str(&c.s)).map_err(|p| Fail::new(format!("named::from_str({:?}) panicked: {}", c.s, p)))?;
    obs.nontrivial_if(want.is_none() && NAMED.iter().any(|e| e.0.eq_ignore_ascii_case(c.s.trim()) || (c.s.len() > 2 && (e.0.starts_with(&c.s) || c.s.starts_with(e.0)))));
    match (want, got) {
        (Some(e), Some(g)) => {
            obs.class("listed-name");
            obs.nontrivial();
            ensure!((g.red, g.green, g.blue) == (e.1, e.2, e.3), "named::from_str({:?}) = {:?}, the published table has ({}, {}, {})", c.s, g, e.1, e.2, e.3);
            ensure!(g == e.4, "named::from_str({:?}) = {:?} differs from the constant {:?}", c.s, g, e.4);
            Ok(())
        }
        (Some(_), None) => Err(Fail::new(format!("named::from_str({:?}) = None for a listed name", c.s))),
        (None, Some(g)) => Err(Fail::new(format!("named::from_str({:?}) = {:?} but it is not a listed lower-case name", c.s, g))),
        (None, None) => {
            obs.class("unlisted");
            Ok(())
        }
    }
}

fn main() {
    let mut h = Harness::new("C12");
    h.rule("hex: all 2^24 Rgb<u8> through {:x}/{:X}/#-prefixed/short form and back, generated Rgba<u8>/u16/u32 colours; packed: every u32 word x 4 channel orders (byte positions from a table in the harness, pack(unpack(u)) == u, alpha-less and From forms), every u16 x 2 luma orders; names: the 148 published names, their constants, case variants, one-character edits, iterators as a multiset; strictness: every string of <= 4 (thorough 5) symbols over a 24-symbol adversarial alphabet and every string of <= 8 (thorough 9) symbols over {f,0,g,#,+,e-acute,space} for each of the ten FromStr targets, plus generated longer strings, against a model parser of '#'? HEX{n}. Non-trivial (strictness) = length within 1 of an accepted length and containing a non-hex, multi-byte or sign character.");
    h.assume("named colour table is a snapshot of the published SVG/CSS list embedded in the harness; integer->float expectations use palette's own IntoStimulus (decided by C06)");
    let thorough = h.is_thorough();

    // ---- hex: all 2^24 ----
    h.sweep::<HexCase, _, _>("hex_rgb_u8_all", true, 4096, hex_u8_point, |i, obs| {
        let lo = i as u32 * 4096;
        let mut nt = 0;
        for v in lo..lo + 4096 {
            let c = HexCase { c: [(v >> 16) & 255, (v >> 8) & 255, v & 255, 0] };
            obs.nontrivial_if(false);
            if let Err(f) = hex_u8_point(&c, obs) {
                obs.report(&c, f);
            }
            if c.c[0].min(c.c[1]).min(c.c[2]) < 16 {
                nt += 1;
            }
        }
        obs.evals += 4096;
        obs.sweep_nontrivial += nt;
    });
    let n = h.n(400_000, 10_000_000);
    h.prop(
        "hex_wide_generated",
        n,
        || {
            let ch = || prop_oneof![3 => any::<u32>(), 1 => 0u32..=16, 1 => Just(u32::MAX), 1 => (0u32..32).prop_map(|b| 1 << b), 1 => any::<u8>().prop_map(|b| b as u32 * 0x0101_0101), 1 => any::<u16>().prop_map(|b| b as u32)];
            [ch(), ch(), ch(), ch()].prop_map(|c| HexCase { c })
        },
        hex_wide_point,
    );

    // ---- packed: every u32 ----
    h.sweep::<PackCase, _, _>("packed_u32_all_words_x4_orders", true, 4096, pack_point, |i, obs| {
        let lo = (i as u64) << 20;
        for v in lo..lo + (1 << 20) {
            if let Err((_, m)) = pack_word_ok(v as u32) {
                obs.report(&PackCase { word: v as u32 }, Fail::new(m));
            }
        }
        obs.evals += 1 << 20;
        obs.sweep_nontrivial += 1 << 20;
    });
    h.sweep::<LumaPackCase, _, _>("packed_luma_u16_all", true, 16, luma_pack_point, |i, obs| {
        for v in (i as u32 * 4096)..((i as u32 + 1) * 4096) {
            let c = LumaPackCase { word: v as u16 };
            if let Err(f) = luma_pack_point(&c, obs) {
                obs.report(&c, f);
            }
        }
        obs.evals += 4096;
        obs.sweep_nontrivial += 4096;
    });

    // ---- names ----
    h.sweep::<NameCase, _, _>("names_table_and_edits", true, NAMED.len() + 1, name_point, |i, obs| {
        let mut run = |s: String, obs: &mut Obs| {
            let c = NameCase { s };
            if let Err(f) = name_point(&c, obs) {
                obs.report(&c, f);
            }
            obs.evals += 1;
            if obs.take_nontrivial() {
                obs.sweep_nontrivial += 1;
            }
        };
        if i == NAMED.len() {
            // iterators agree with the table as multisets
            let mut want: Vec<(String, (u8, u8, u8))> = NAMED.iter().map(|e| (e.0.to_string(), (e.1, e.2, e.3))).collect();
            want.sort();
            let mut got: Vec<(String, (u8, u8, u8))> = palette::named::entries().map(|(n, c)| (n.to_string(), (c.red, c.green, c.blue))).collect();
            got.sort();
            if got != want {
                obs.report(&NameCase { s: "<entries()>".into() }, Fail::new(format!("named::entries() yields {} entries that differ from the published table ({} entries)", got.len(), want.len())));
            }
            let mut names: Vec<String> = palette::named::names().map(|s| s.to_string()).collect();
            names.sort();
            let mut cols: Vec<(u8, u8, u8)> = palette::named::colors().map(|c| (c.red, c.green, c.blue)).collect();
            cols.sort();
            let mut wn: Vec<String> = want.iter().map(|e| e.0.clone()).collect();
            wn.sort();
            let mut wc: Vec<(u8, u8, u8)> = want.iter().map(|e| e.1).collect();
            wc.sort();
            if names != wn || cols != wc || palette::named::entries().len() != want.len() || palette::named::names().len() != want.len() || palette::named::colors().len() != want.len() {
                obs.report(&NameCase { s: "<names()/colors()>".into() }, Fail::new("named::names()/colors()/len() disagree with the published table".to_string()));
            }
            run(String::new(), obs);
            return;
        }
        let name = NAMED[i].0;
        run(name.to_string(), obs);
        run(name.to_uppercase(), obs);
        let mut mixed = name.to_string();
        mixed[..1].make_ascii_uppercase();
        run(mixed, obs);
        run(format!(" {}", name), obs);
        run(format!("{} ", name), obs);
        run(format!("#{}", name), obs);
        run(format!("{}\0", name), obs);
        for k in 0..name.len() {
            let mut s = name.to_string();
            s.remove(k);
            run(s, obs);
            for r in ["a", "e", "y", "-", "é"] {
                let mut s = name.to_string();
                s.replace_range(k..k + 1, r);
                run(s, obs);
                let mut s = name.to_string();
                s.insert_str(k, r);
                run(s, obs);
            }
        }
        run(format!("{}s", name), obs);
    });
    let n = h.n(300_000, 5_000_000);
    h.prop("names_generated", n, || prop_oneof!["[a-z]{0,22}", "[a-zA-Z #é]{0,12}", (0..NAMED.len(), "[a-z]{0,2}").prop_map(|(i, s)| format!("{}{}", NAMED[i].0, s))].prop_map(|s| NameCase { s }), name_point);

    // ---- strictness: exhaustive short strings ----
    let maxlen_full = if thorough { 5 } else { 4 };
    let total = count_upto(maxlen_full, 24);
    let nch = 512usize;
    h.sweep::<StrCase, _, _>("strict_all_strings_24_symbols", true, nch, strict_point, |i, obs| {
        let per = (total + nch as u64 - 1) / nch as u64;
        for idx in (i as u64 * per)..((i as u64 + 1) * per).min(total) {
            let s = nth_string(idx, &ALPHABET);
            for t in 0..10 {
                let c = StrCase { target: t, s: s.clone() };
                if let Err(f) = strict_point(&c, obs) {
                    obs.report(&c, f);
                }
                obs.evals += 1;
                if obs.take_nontrivial() {
                    obs.sweep_nontrivial += 1;
                }
            }
        }
    });
    let maxlen_small = if thorough { 9 } else { 8 };
    let total = count_upto(maxlen_small, 7);
    let nch = 2048usize;
    h.sweep::<StrCase, _, _>("strict_all_strings_7_symbols", true, nch, strict_point, |i, obs| {
        let per = (total + nch as u64 - 1) / nch as u64;
        for idx in (i as u64 * per)..((i as u64 + 1) * per).min(total) {
            let s = nth_string(idx, &SMALL);
            for t in 0..10 {
                let c = StrCase { target: t, s: s.clone() };
                if let Err(f) = strict_point(&c, obs) {
                    obs.report(&c, f);
                }
                obs.evals += 1;
                if obs.take_nontrivial() {
                    obs.sweep_nontrivial += 1;
                }
            }
        }
    });
    // ---- strictness: generated longer strings ----
    let n = h.n(1_500_000, 40_000_000);
    h.prop(
        "strict_generated_strings",
        n,
        || {
            let sym = prop_oneof![10 => (0usize..8).prop_map(|i| ALPHABET[i]), 3 => (0usize..24).prop_map(|i| ALPHABET[i]), 1 => Just("#"), 1 => Just("+")];
            let len = prop_oneof![4 => (0usize..10, -1i32..=1).prop_map(|(i, d)| ([3, 4, 6, 8, 12, 16, 24, 32, 6, 8][i] as i32 + d) as usize), 1 => 0usize..=34];
            (0usize..10, len, any::<bool>(), proptest::collection::vec(sym, 34)).prop_map(|(target, len, hash, syms)| {
                let mut s = String::new();
                if hash {
                    s.push('#');
                }
                for x in syms.iter().take(len) {
                    s.push_str(x);
                }
                StrCase { target, s }
            })
        },
        strict_point,
    );
    h.require_class("strict_generated_strings", "multi-byte with accepted byte length", 50);
    h.require_class("strict_generated_strings", "sign inside digits near accepted length", 50);
    h.finish();
}
