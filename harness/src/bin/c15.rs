//! C15 — gamut-bounded cylindrical spaces stay inside the RGB gamut, and in-gamut RGB stays inside their bounds.
use palette::convert::FromColorUnclamped;
use palette::encoding::{self as enc, Linear};
use palette::rgb::Rgb;
use palette::{Hsl, Hsluv, Hsv, Hwb, Okhsl, Okhsv, Okhwb};
use proptest::prelude::*;
use pv::reference::spaces as rf;
use pv::runner::{Harness, Obs, PropResult};
use pv::{ensure, fail_keyed};
use serde::{Deserialize, Serialize};

const SPACES: [&str; 7] = ["Hsl", "Hsv", "Hwb", "Okhsl", "Okhsv", "Okhwb", "Hsluv"];
const STDS: [&str; 4] = ["Srgb", "AdobeRgb", "Linear<Srgb>", "Rec2020"];

/// a cylindrical colour: hue in degrees, two bounded components as fractions of their documented range
#[derive(Debug, Clone, Serialize, Deserialize)]
struct Fwd {
    space: u8,
    /// RGB standard of the hexcone spaces (index into STDS; the Ok* spaces and HSLuv are sRGB by definition)
    std: u8,
    h: f64,
    a: f64,
    b: f64,
    f32_: bool,
}
#[derive(Debug, Clone, Serialize, Deserialize)]
struct Rev {
    space: u8,
    std: u8,
    rgb: [f64; 3],
    f32_: bool,
}

/// (encoded RGB, linear RGB if the space is defined on sRGB)
fn forward(c: &Fwd) -> ([f64; 3], Option<[f64; 3]>) {
    macro_rules! hex {
        ($C:ident, $T:ty) => {{
            macro_rules! with_std {
                ($S:ty) => {{
                    let r = Rgb::<$S, $T>::from_color_unclamped($C::<$S, $T>::new(c.h as $T, c.a as $T, c.b as $T));
                    ([r.red as f64, r.green as f64, r.blue as f64], None)
                }};
            }
            match c.std {
                0 => with_std!(enc::Srgb),
                1 => with_std!(enc::AdobeRgb),
                2 => with_std!(Linear<enc::Srgb>),
                _ => with_std!(enc::Rec2020),
            }
        }};
    }
    macro_rules! srgb {
        ($col:expr, $T:ty) => {{
            let col = $col;
            let r = Rgb::<enc::Srgb, $T>::from_color_unclamped(col);
            let l = Rgb::<Linear<enc::Srgb>, $T>::from_color_unclamped(col);
            ([r.red as f64, r.green as f64, r.blue as f64], Some([l.red as f64, l.green as f64, l.blue as f64]))
        }};
    }
    match (c.space, c.f32_) {
        (0, false) => hex!(Hsl, f64),
        (0, true) => hex!(Hsl, f32),
        (1, false) => hex!(Hsv, f64),
        (1, true) => hex!(Hsv, f32),
        (2, false) => hex!(Hwb, f64),
        (2, true) => hex!(Hwb, f32),
        (3, false) => srgb!(Okhsl::<f64>::new(c.h, c.a, c.b), f64),
        (3, true) => srgb!(Okhsl::<f32>::new(c.h as f32, c.a as f32, c.b as f32), f32),
        (4, false) => srgb!(Okhsv::<f64>::new(c.h, c.a, c.b), f64),
        (4, true) => srgb!(Okhsv::<f32>::new(c.h as f32, c.a as f32, c.b as f32), f32),
        (5, false) => srgb!(Okhwb::<f64>::new(c.h, c.a, c.b), f64),
        (5, true) => srgb!(Okhwb::<f32>::new(c.h as f32, c.a as f32, c.b as f32), f32),
        (_, false) => srgb!(Hsluv::<palette::white_point::D65, f64>::new(c.h, 100.0 * c.a, 100.0 * c.b), f64),
        (_, true) => srgb!(Hsluv::<palette::white_point::D65, f32>::new(c.h as f32, 100.0 * c.a as f32, 100.0 * c.b as f32), f32),
    }
}

/// forward tolerance on encoded sRGB components (DESIGN C15: twice the measured worst excursion of the
/// published approximations; hexcone constructions are exact)
fn tau_fwd(space: u8, f32_: bool) -> f64 {
    match space {
        0..=2 => if f32_ { 5e-7 } else { 1e-12 },
        // (worst found: Okhsl 5.7e-3, Okhwb 5.9e-3, Okhsv 6.04e-3 next to the blue primary's hue, Hsluv 2.1e-3)
        3..=5 => 0.012,
        _ => 0.005,
    }
}
/// reverse tolerance on the bounded components, as a fraction of their range
fn tau_rev(space: u8, f32_: bool) -> f64 {
    match space {
        0..=2 => if f32_ { 5e-7 } else { 1e-12 },
        // (worst found: Okhsl 0.0123 at sRGB #ffef98, Okhsv / Okhwb 0.012)
        3..=5 => 0.025,
        _ => 0.015,
    }
}

fn fwd_point(c: &Fwd, obs: &mut Obs) -> PropResult {
    let name = SPACES[c.space as usize];
    obs.class(pv::runner::intern(&format!("{}{}", name, if c.f32_ { " f32" } else { "" })));
    // saturation-like component: a for all but Hwb-likes, where (1 - w - b) plays that role
    let hwb = c.space == 2 || c.space == 5;
    let sat = if hwb { 1.0 - c.a - c.b } else { c.a };
    obs.nontrivial_if(sat >= 0.5);
    let (rgb, lin) = forward(c);
    let tau = tau_fwd(c.space, c.f32_);
    let exc = rgb.iter().map(|v| (-v).max(v - 1.0)).fold(f64::MIN, f64::max);
    ensure!(rgb.iter().all(|v| v.is_finite()), "{} ({}, {}, {}) -> RGB {:?} is not finite", name, c.h, c.a, c.b, rgb);
    obs.err(pv::runner::intern(&format!("{}{}: excursion of encoded RGB outside [0,1]", name, if c.f32_ { " f32" } else { "" })), exc.max(0.0));
    if (3..=5).contains(&c.space) && exc > tau {
        // the same jump of Ottosson's gamut slice as in the reverse direction: a hue within a few f32 ulps of the blue
        // primary's Oklab hue (264.052 deg; f32 atan2 of the primary gives -95.947975) takes the neighbouring sector
        let blue = rf::linsrgb_to_oklab([0.0, 0.0, 1.0]);
        let hb = blue[2].atan2(blue[1]).to_degrees().rem_euclid(360.0);
        let dh = (c.h.rem_euclid(360.0) - hb).abs();
        if dh < 1e-4 {
            fail_keyed!("C15:okhsx-blue-primary-hue-discontinuity", "{}{} (h {}, {}, {}) -> RGB {:?} leaves [0, 1] by {:e}: the hue is within {:e} deg of the blue primary's, where the gamut slice jumps", name, if c.f32_ { "<f32>" } else { "" }, c.h, c.a, c.b, rgb, exc, dh);
        }
    }
    ensure!(exc <= tau, "{}{} (h {}, {}, {}) -> RGB {:?} leaves [0, 1] by {:e} (allowed {:e})", name, if c.f32_ { "<f32>" } else { "" }, c.h, c.a * if c.space == 6 { 100.0 } else { 1.0 }, c.b * if c.space == 6 { 100.0 } else { 1.0 }, rgb, exc, tau);
    if let Some(l) = lin {
        let exc = l.iter().map(|v| (-v).max(v - 1.0)).fold(f64::MIN, f64::max);
        obs.err(pv::runner::intern(&format!("{}{}: excursion of linear RGB outside [0,1]", name, if c.f32_ { " f32" } else { "" })), exc.max(0.0));
        // linear light: encoded excursions below zero shrink by 12.92, above one grow by 2.3
        ensure!(exc <= 2.4 * tau, "{} (h {}, {}, {}) -> linear RGB {:?} leaves [0, 1] by {:e}", name, c.h, c.a, c.b, l, exc);
    }
    Ok(())
}

/// RGB -> space -> (bounded components as fractions, hue, RGB again)
fn reverse(c: &Rev) -> ([f64; 2], f64, [f64; 3]) {
    macro_rules! hex {
        ($C:ident, $T:ty, $x:ident, $y:ident) => {{
            macro_rules! with_std {
                ($S:ty) => {{
                    let col = $C::<$S, $T>::from_color_unclamped(Rgb::<$S, $T>::new(c.rgb[0] as $T, c.rgb[1] as $T, c.rgb[2] as $T));
                    let r = Rgb::<$S, $T>::from_color_unclamped(col);
                    ([col.$x as f64, col.$y as f64], col.hue.into_positive_degrees() as f64, [r.red as f64, r.green as f64, r.blue as f64])
                }};
            }
            match c.std {
                0 => with_std!(enc::Srgb),
                1 => with_std!(enc::AdobeRgb),
                2 => with_std!(Linear<enc::Srgb>),
                _ => with_std!(enc::Rec2020),
            }
        }};
    }
    macro_rules! srgb {
        ($C:ty, $T:ty, $x:ident, $y:ident, $scale:expr) => {{
            let col = <$C>::from_color_unclamped(Rgb::<enc::Srgb, $T>::new(c.rgb[0] as $T, c.rgb[1] as $T, c.rgb[2] as $T));
            let r = Rgb::<enc::Srgb, $T>::from_color_unclamped(col);
            ([col.$x as f64 / $scale, col.$y as f64 / $scale], col.hue.into_positive_degrees() as f64, [r.red as f64, r.green as f64, r.blue as f64])
        }};
    }
    match (c.space, c.f32_) {
        (0, false) => hex!(Hsl, f64, saturation, lightness),
        (0, true) => hex!(Hsl, f32, saturation, lightness),
        (1, false) => hex!(Hsv, f64, saturation, value),
        (1, true) => hex!(Hsv, f32, saturation, value),
        (2, false) => hex!(Hwb, f64, whiteness, blackness),
        (2, true) => hex!(Hwb, f32, whiteness, blackness),
        (3, false) => srgb!(Okhsl<f64>, f64, saturation, lightness, 1.0),
        (3, true) => srgb!(Okhsl<f32>, f32, saturation, lightness, 1.0),
        (4, false) => srgb!(Okhsv<f64>, f64, saturation, value, 1.0),
        (4, true) => srgb!(Okhsv<f32>, f32, saturation, value, 1.0),
        (5, false) => srgb!(Okhwb<f64>, f64, whiteness, blackness, 1.0),
        (5, true) => srgb!(Okhwb<f32>, f32, whiteness, blackness, 1.0),
        (_, false) => srgb!(Hsluv<palette::white_point::D65, f64>, f64, saturation, l, 100.0),
        (_, true) => srgb!(Hsluv<palette::white_point::D65, f32>, f32, saturation, l, 100.0),
    }
}

fn rev_point(c: &Rev, obs: &mut Obs) -> PropResult {
    let name = SPACES[c.space as usize];
    let ty = if c.f32_ { " f32" } else { "" };
    obs.class(pv::runner::intern(&format!("{}{}", name, ty)));
    let rgb = if c.f32_ { [c.rgb[0] as f32 as f64, c.rgb[1] as f32 as f64, c.rgb[2] as f32 as f64] } else { c.rgb };
    let surface = rgb.iter().any(|v| *v == 0.0 || *v == 1.0);
    obs.nontrivial_if(surface);
    let (ab, hue, back) = reverse(c);
    let tau = tau_rev(c.space, c.f32_);
    ensure!(ab.iter().all(|v| v.is_finite()) && hue.is_finite(), "RGB {:?} -> {} has non-finite components ({:?}, hue {})", rgb, name, ab, hue);
    let hwb = c.space == 2 || c.space == 5;
    let mut exc = ab.iter().map(|v| (-v).max(v - 1.0)).fold(f64::MIN, f64::max);
    if hwb {
        exc = exc.max(ab[0] + ab[1] - 1.0);
    }
    // back to the same RGB colour
    let d = (0..3).map(|i| (back[i] - rgb[i]).abs()).fold(0.0, f64::max);
    let tol = match (c.space, c.f32_) {
        (0..=2, false) => 1e-12,
        (0..=2, true) => 1e-6,
        (_, false) => 2e-5,
        // (f32 linear error 2e-4 next to zero is 12.92 times larger in the encoded value)
        (_, true) => 1e-2,
    };
    let mut tau = tau;
    let mx = rgb[0].max(rgb[1]).max(rgb[2]);
    let mn = rgb[0].min(rgb[1]).min(rgb[2]);
    if c.space == 0 {
        // hexcone saturation divides by 1 - |2l - 1|: allow its rounding error over that width
        let eps = if c.f32_ { 1.2e-7 } else { 2.3e-16 };
        tau += 4.0 * eps / (1.0 - (mx + mn - 1.0).abs()).max(eps);
    }
    if (3..=5).contains(&c.space) && (mn >= 0.99 || mx <= 0.01) {
        // at the white and black tips saturation is chroma over a gamut width that vanishes: the approximation error of
        // the width is not small relative to it there (measured worst 0.031 Okhsl, 0.024 Okhsv / Okhwb)
        obs.class("Ok*: at a tip of the gamut (loose bound)");
        tau = 0.05;
    }
    if (3..=5).contains(&c.space) && (exc > tau || d > tol) {
        // Ottosson's gamut slice is discontinuous in hue at the blue primary: just below its hue the red channel
        // crosses zero at S = 0.5875 and again at 0.6929 (the primary itself). A colour whose computed hue falls on
        // that side by rounding gets saturation 1.087; f32 pure blues do.
        let ok = rf::linsrgb_to_oklab(rf::decode3(rf::Tf::Srgb, rgb));
        let blue = rf::linsrgb_to_oklab([0.0, 0.0, 1.0]);
        let dh = (ok[2].atan2(ok[1]) - blue[2].atan2(blue[1])).abs();
        if dh < 1e-6 {
            fail_keyed!("C15:okhsx-blue-primary-hue-discontinuity", "sRGB {:?} -> {}{} components {:?}, back to {:?}: the hue is within {:e} rad of the blue primary's, where the gamut slice jumps", rgb, name, ty, ab, back, dh);
        }
    }
    if c.space == 3 && exc > tau && mn >= 0.999 {
        fail_keyed!("C15:okhsl-saturation-at-white-tip", "sRGB {:?} -> Okhsl saturation {} (lightness {}): within 1e-3 of white the saturation is chroma over a vanishing gamut width and no guard applies", rgb, ab[0], ab[1]);
    }
    // HSLuv at the white tip: L* of sRGB white is 100 + 4e-6 and the gamut has zero (then negative) width there
    if c.space == 6 && exc > tau {
        let l = rf::xyz_to_lab(rf::rgb_to_xyz(&rf::standard("Srgb"), rgb), rf::D65)[0];
        if l >= 99.99 {
            fail_keyed!("C15:hsluv-saturation-at-white-tip", "sRGB {:?} (L* {}) -> Hsluv saturation {} / lightness {} (bounds 0..100): the gamut width vanishes at L* = 100 and no guard applies", rgb, l, ab[0] * 100.0, ab[1] * 100.0);
        }
    }
    obs.err(pv::runner::intern(&format!("{}{}: excursion beyond the documented bounds (fraction of range)", name, ty)), exc.max(0.0));
    ensure!(exc <= tau, "in-gamut RGB {:?} -> {}{} components {:?} (fractions of their range) leave the documented bounds by {:e} (allowed {:e})", rgb, name, ty, ab, exc, tau);
    obs.err(pv::runner::intern(&format!("{}{}: RGB -> space -> RGB", name, ty)), d);
    ensure!(d <= tol, "RGB {:?} -> {}{} -> RGB {:?}: differs by {:e} (allowed {:e})", rgb, name, ty, back, d, tol);
    Ok(())
}

/// hues at which the gamut shape changes: sRGB primaries and secondaries seen from Oklab and from CIELUV
fn special_hues() -> Vec<f64> {
    let mut v = Vec::new();
    for c in [[1.0, 0.0, 0.0], [1.0, 1.0, 0.0], [0.0, 1.0, 0.0], [0.0, 1.0, 1.0], [0.0, 0.0, 1.0], [1.0, 0.0, 1.0]] {
        let ok = rf::linsrgb_to_oklab(c);
        v.push(ok[2].atan2(ok[1]).to_degrees().rem_euclid(360.0));
        let luv = rf::xyz_to_luv(rf::rgb_to_xyz(&rf::standard("Srgb"), c), rf::D65);
        v.push(luv[2].atan2(luv[1]).to_degrees().rem_euclid(360.0));
    }
    v
}

/// the hues palette itself computes (f32 and f64, signed and positive form) for the corners of the sRGB cube and
/// the midpoints of its edges, in Oklab and in CIELUV: the values a user gets from a conversion and feeds back,
/// and the only way to land within an f32 ulp of the hues where the gamut procedures switch sectors
fn exact_hues() -> Vec<f64> {
    use palette::{Lchuv, Oklch};
    let mut v = Vec::new();
    let lv = [0.0f64, 0.5, 1.0];
    for r in lv {
        for g in lv {
            for b in lv {
                if (r == g && g == b) || ![r, g, b].iter().any(|x| *x == 0.0 || *x == 1.0) {
                    continue;
                }
                let o64 = Oklch::<f64>::from_color_unclamped(palette::Srgb::<f64>::new(r, g, b)).hue;
                let o32 = Oklch::<f32>::from_color_unclamped(palette::Srgb::<f32>::new(r as f32, g as f32, b as f32)).hue;
                let l64 = Lchuv::<palette::white_point::D65, f64>::from_color_unclamped(palette::Srgb::<f64>::new(r, g, b)).hue;
                let l32 = Lchuv::<palette::white_point::D65, f32>::from_color_unclamped(palette::Srgb::<f32>::new(r as f32, g as f32, b as f32)).hue;
                v.extend([o64.into_raw_degrees(), o64.into_degrees(), o64.into_positive_degrees(), l64.into_raw_degrees(), l64.into_positive_degrees()]);
                v.extend([o32.into_raw_degrees() as f64, o32.into_degrees() as f64, o32.into_positive_degrees() as f64, l32.into_raw_degrees() as f64, l32.into_positive_degrees() as f64]);
            }
        }
    }
    v.retain(|x| x.is_finite());
    v
}

fn fwd_strategy(space: u8) -> BoxedStrategy<Fwd> {
    let hues = special_hues();
    let exact = exact_hues();
    let hue = prop_oneof![
        6 => pv::gen::hue(),
        8 => 0.0..360.0f64,
        3 => (0..hues.len(), -2.0..=2.0f64).prop_map(move |(i, d)| hues[i] + d),
        3 => (0..exact.len(), -3i32..=3, any::<bool>()).prop_map(move |(i, k, wide)| {
            // the exact value, or a few ulps (of f32 or of f64) away from it
            let x = exact[i];
            if wide { (x as f32 + k as f32 * pv::gen::ulp32(x as f32)) as f64 } else { x + k as f64 * pv::gen::ulp64(x) }
        }),
        1 => (0i32..360).prop_map(|k| k as f64),
    ];
    let u = pv::gen::unit;
    let hwb = space == 2 || space == 5;
    (hue, u(), u(), 0u8..4, any::<bool>())
        .prop_map(move |(h, a, b, std, f32_)| {
            // Hwb-likes: whiteness + blackness <= 1 by construction
            let b = if hwb { (1.0 - a) * b } else { b };
            Fwd { space, std: if space < 3 { std } else { 0 }, h, a, b, f32_ }
        })
        .boxed()
}

fn main() {
    let mut h = Harness::new("C15");
    h.rule("Forward: hue (all angles incl. sector edges, wraps, the Oklab / CIELUV hues of the sRGB primaries +-2 deg) x saturation-like x lightness-like components over their documented bounds (bounds themselves, thresholds and neighbours frequent; whiteness + blackness <= 1 by construction) for Hsl/Hsv/Hwb (four RGB standards), Okhsl, Okhsv, Okhwb, Hsluv, f32 and f64 -> RGB components within [0,1] +- tau (tau: hexcone 1e-12, Okhsl/Okhwb 0.012, Okhsv 0.006, Hsluv 0.005 on encoded sRGB). Reverse: in-gamut RGB (faces, edges, corners, greys, dark colours) -> components within the documented bounds +- tau' and back to the same RGB colour. Thorough adds the dense 720 x 65 x 65 grid per space. Non-trivial = saturation-like component >= 0.5 (forward), colour on the gamut surface (reverse); distinct by hash.");
    h.assume("the 'small tolerance' of the statement is made explicit as twice the worst excursion of the published approximations (cusp polynomial + one Halley step, 7-digit HSLuv matrix) measured on the pinned tree");
    let nf = h.n(250_000, 6_000_000);
    for sp in 0..7u8 {
        let name: &'static str = pv::runner::intern(&format!("forward_{}", SPACES[sp as usize].to_lowercase()));
        h.prop(name, nf, move || fwd_strategy(sp), fwd_point);
    }
    let nr = h.n(250_000, 6_000_000);
    for sp in 0..7u8 {
        let name: &'static str = pv::runner::intern(&format!("reverse_{}", SPACES[sp as usize].to_lowercase()));
        h.prop(
            name,
            nr,
            move || (pv::types::in_gamut_rgb(), 0u8..4, any::<bool>()).prop_map(move |(rgb, std, f32_)| Rev { space: sp, std: if sp < 3 { std } else { 0 }, rgb, f32_ }),
            rev_point,
        );
    }
    if h.is_thorough() || h.is_replay() {
        for sp in 0..7u8 {
            let name: &'static str = pv::runner::intern(&format!("forward_grid_{}", SPACES[sp as usize].to_lowercase()));
            h.sweep::<Fwd, _, _>(name, false, 720, fwd_point, move |i, obs| {
                let hwb = sp == 2 || sp == 5;
                for f32_ in [false, true] {
                    for ia in 0..=64 {
                        for ib in 0..=64 {
                            let a = ia as f64 / 64.0;
                            let mut b = ib as f64 / 64.0;
                            if hwb {
                                b *= 1.0 - a;
                            }
                            let c = Fwd { space: sp, std: 0, h: i as f64 * 0.5, a, b, f32_ };
                            if let Err(f) = fwd_point(&c, obs) {
                                obs.report(&c, f);
                            }
                            obs.evals += 1;
                            if obs.take_nontrivial() {
                                obs.sweep_nontrivial += 1;
                            }
                        }
                    }
                }
            });
        }
        // every 8-bit sRGB colour on a coarse lattice plus the whole surface of the cube
        h.sweep::<Rev, _, _>("reverse_grid_all_spaces", false, 256, rev_point, |r, obs| {
            for g in 0..256 {
                for b in 0..256 {
                    let surface = r == 0 || r == 255 || g == 0 || g == 255 || b == 0 || b == 255;
                    if !(surface || (r % 5 == 0 && g % 5 == 0 && b % 5 == 0)) {
                        continue;
                    }
                    for sp in 0..7u8 {
                        let c = Rev { space: sp, std: 0, rgb: [r as f64 / 255.0, g as f64 / 255.0, b as f64 / 255.0], f32_: false };
                        if let Err(f) = rev_point(&c, obs) {
                            obs.report(&c, f);
                        }
                        obs.evals += 1;
                        if obs.take_nontrivial() {
                            obs.sweep_nontrivial += 1;
                        }
                    }
                }
            }
        });
    }
    let _ = STDS;
    h.finish();
}
