//! C02 — every directly implemented conversion yields the value of the published definition.
use proptest::prelude::*;
use pv::reference::spaces as rf;
use pv::reference::spaces::{Tf, V3};
use pv::refgraph::{parse, Sp, K};
use pv::runner::{Harness, Obs, PropResult};
use pv::types::{conversions, embed_dist, nominal_box, space_info, Conv, SpaceInfo, SPACE_NAMES};
use pv::ensure;
use serde::{Deserialize, Serialize};

/// accuracy class of a direct conversion
#[derive(Clone, Copy, PartialEq, Debug)]
enum Tier {
    /// pure arithmetic on published constants
    Exact,
    /// goes through a hard-coded 7-digit matrix (or its inverse)
    Matrix,
    /// HSLuv: boundary constants published to 10-13 digits
    Hsluv,
    /// Ottosson's gamut procedure
    Ok,
}
struct Want {
    /// acceptable values (two at a join of a piecewise definition whose published constants leave a step)
    alts: Vec<V3>,
    tier: Tier,
    /// compare encoded RGB results in linear light (matrix noise next to zero is blown up by the encoding)
    linear_light: bool,
}

fn same_primaries(a: &rf::RgbStd, b: &rf::RgbStd) -> bool {
    a.primaries == b.primaries && a.white == b.white
}
fn enc_alts(tf: Tf, v: f64) -> Vec<f64> {
    let mut out = vec![rf::encode(tf, v)];
    if let Some((k, _)) = rf::knee(tf) {
        if (v - k).abs() <= 1e-9 {
            // both branches
            let hi = match tf {
                Tf::Srgb => 1.055 * v.powf(1.0 / 2.4) - 0.055,
                Tf::Rec => 1.09929682680944 * v.powf(0.45) - 0.09929682680944,
                _ => v.powf(1.0 / 1.8),
            };
            let lo = match tf {
                Tf::Srgb => 12.92 * v,
                Tf::Rec => 4.5 * v,
                _ => 16.0 * v,
            };
            out = vec![lo, hi];
        }
    }
    out
}
fn dec_alts(tf: Tf, v: f64) -> Vec<f64> {
    let mut out = vec![rf::decode(tf, v)];
    if let Some((_, k)) = rf::knee(tf) {
        if (v - k).abs() <= 1e-9 {
            let hi = match tf {
                Tf::Srgb => ((v + 0.055) / 1.055).powf(2.4),
                Tf::Rec => ((v + 0.09929682680944) / 1.09929682680944).powf(1.0 / 0.45),
                _ => v.powf(1.8),
            };
            let lo = match tf {
                Tf::Srgb => v / 12.92,
                Tf::Rec => v / 4.5,
                _ => v / 16.0,
            };
            out = vec![lo, hi];
        }
    }
    out
}
/// all combinations of per-channel alternatives (at most 8)
fn combos(ch: [Vec<f64>; 3]) -> Vec<V3> {
    let mut out = Vec::new();
    for a in &ch[0] {
        for b in &ch[1] {
            for c in &ch[2] {
                out.push([*a, *b, *c]);
            }
        }
    }
    out
}
fn dec3_alts(tf: Tf, c: V3) -> Vec<V3> {
    combos([dec_alts(tf, c[0]), dec_alts(tf, c[1]), dec_alts(tf, c[2])])
}
fn enc3_alts(tf: Tf, c: V3) -> Vec<V3> {
    combos([enc_alts(tf, c[0]), enc_alts(tf, c[1]), enc_alts(tf, c[2])])
}

/// the published definition of the direct conversion a -> b, or None if a -> b is not a direct conversion
fn definition(a: &Sp, b: &Sp, x: V3) -> Option<Want> {
    use K::*;
    let one = |v: V3, tier: Tier| Some(Want { alts: vec![v], tier, linear_light: false });
    let same_wp = a.wp == b.wp;
    match (a.k, b.k) {
        (Rgb, Rgb) => {
            let (sa, sb) = (a.std.unwrap(), b.std.unwrap());
            if same_primaries(&sa, &sb) {
                let mut alts = Vec::new();
                for lin in dec3_alts(a.tf, x) {
                    alts.extend(enc3_alts(b.tf, lin));
                }
                Some(Want { alts, tier: Tier::Exact, linear_light: false })
            } else if same_wp {
                let m = rf::matmul(&rf::inv(&rf::rgb_to_xyz_matrix(&sb)), &rf::rgb_to_xyz_matrix(&sa));
                let alts = dec3_alts(a.tf, x).into_iter().map(|l| rf::encode3(b.tf, rf::mul(&m, l))).collect();
                Some(Want { alts, tier: Tier::Matrix, linear_light: true })
            } else {
                None
            }
        }
        (Rgb, Xyz) if same_wp => {
            let m = rf::rgb_to_xyz_matrix(&a.std.unwrap());
            Some(Want { alts: dec3_alts(a.tf, x).into_iter().map(|l| rf::mul(&m, l)).collect(), tier: Tier::Matrix, linear_light: false })
        }
        (Xyz, Rgb) if same_wp => {
            let m = rf::inv(&rf::rgb_to_xyz_matrix(&b.std.unwrap()));
            Some(Want { alts: vec![rf::encode3(b.tf, rf::mul(&m, x))], tier: Tier::Matrix, linear_light: true })
        }
        (Xyz, Yxy) if same_wp => one(rf::xyz_to_yxy(x, a.wp), Tier::Exact),
        (Yxy, Xyz) if same_wp => one(rf::yxy_to_xyz(x), Tier::Exact),
        (Xyz, Lab) if same_wp => one(rf::xyz_to_lab(x, a.wp), Tier::Exact),
        (Lab, Xyz) if same_wp => one(rf::lab_to_xyz(x, a.wp), Tier::Exact),
        (Xyz, Luv) if same_wp => one(rf::xyz_to_luv(x, a.wp), Tier::Exact),
        // (palette flushes L* < 1e-5 to black: Y < 1.2e-8, accepted as numerically black)
        (Luv, Xyz) if same_wp => Some(Want { alts: if x[0] < 1e-5 { vec![rf::luv_to_xyz(x, a.wp), [0.0; 3]] } else { vec![rf::luv_to_xyz(x, a.wp)] }, tier: Tier::Exact, linear_light: false }),
        (Lab, Lch) | (Luv, Lchuv) | (Oklab, Oklch) if same_wp => one(rf::lab_to_lch(x), Tier::Exact),
        (Lch, Lab) | (Lchuv, Luv) | (Oklch, Oklab) if same_wp => one(rf::lch_to_lab(x), Tier::Exact),
        (Lchuv, Hsluv) if same_wp => one(rf::lchuv_to_hsluv(x), Tier::Hsluv),
        (Hsluv, Lchuv) if same_wp => one(rf::hsluv_to_lchuv(x), Tier::Hsluv),
        (Rgb, Hsl) | (Rgb, Hsv) | (Rgb, Hwb) | (Hsl, Rgb) | (Hsv, Rgb) | (Hwb, Rgb) | (Hsv, Hsl) | (Hsl, Hsv) | (Hsv, Hwb) | (Hwb, Hsv) => {
            // the hexcone models act on the components as they are: same standard and encoding on both sides
            if a.std.unwrap().name != b.std.unwrap().name || a.tf != b.tf {
                return None;
            }
            let v = match (a.k, b.k) {
                (Rgb, Hsl) => rf::rgb_to_hsl(x),
                (Rgb, Hsv) => rf::rgb_to_hsv(x),
                (Rgb, Hwb) => rf::hsv_to_hwb(rf::rgb_to_hsv(x)),
                (Hsl, Rgb) => rf::hsl_to_rgb(x),
                (Hsv, Rgb) => rf::hsv_to_rgb(x),
                (Hwb, Rgb) => rf::hsv_to_rgb(rf::hwb_to_hsv(x)),
                (Hsv, Hsl) => rf::hsv_to_hsl(x),
                (Hsl, Hsv) => rf::hsl_to_hsv(x),
                (Hsv, Hwb) => rf::hsv_to_hwb(x),
                _ => rf::hwb_to_hsv(x),
            };
            one(v, Tier::Exact)
        }
        // two published M1: Ottosson's post (10 digits) and the recalculation adopted by CSS Color 4
        // the same cylindrical model over two RGB standards: back to RGB, change the standard, forward again
        (Hsl, Hsl) | (Hsv, Hsv) | (Hwb, Hwb) => {
            let (sa, sb) = (a.std.unwrap(), b.std.unwrap());
            if sa.name == sb.name && a.tf == b.tf || a.wp != b.wp {
                return None;
            }
            let to_rgb = |c: V3| match a.k { Hsl => rf::hsl_to_rgb(c), Hsv => rf::hsv_to_rgb(c), _ => rf::hsv_to_rgb(rf::hwb_to_hsv(c)) };
            let from_rgb = |c: V3| match a.k { Hsl => rf::rgb_to_hsl(c), Hsv => rf::rgb_to_hsv(c), _ => rf::hsv_to_hwb(rf::rgb_to_hsv(c)) };
            let same = same_primaries(&sa, &sb);
            let m = rf::matmul(&rf::inv(&rf::rgb_to_xyz_matrix(&sb)), &rf::rgb_to_xyz_matrix(&sa));
            let mut alts = Vec::new();
            for lin in dec3_alts(a.tf, to_rgb(x)) {
                let lin = if same { lin } else { rf::mul(&m, lin) };
                if lin.iter().any(|v| *v < 0.0) {
                    // outside the target standard's gamut: the hexcone models are defined on non-negative components
                    // (palette clamps negatives to zero there); no published value to compare with
                    return Some(Want { alts: vec![[f64::NAN; 3]], tier: Tier::Exact, linear_light: false });
                }
                alts.extend(enc3_alts(b.tf, lin).into_iter().map(from_rgb));
            }
            Some(Want { alts, tier: if same { Tier::Exact } else { Tier::Matrix }, linear_light: !same })
        }
        (Xyz, Oklab) if a.wp == rf::D65 => Some(Want { alts: vec![rf::xyz_to_oklab_with(&rf::ok_m1_recalculated(), x), rf::xyz_to_oklab(x)], tier: Tier::Exact, linear_light: false }),
        (Oklab, Xyz) if b.wp == rf::D65 => Some(Want { alts: vec![rf::oklab_to_xyz_with(&rf::ok_m1_recalculated(), x), rf::oklab_to_xyz(x)], tier: Tier::Exact, linear_light: false }),
        (Rgb, Oklab) if same_primaries(&a.std.unwrap(), &rf::standard("Srgb")) => Some(Want { alts: dec3_alts(a.tf, x).into_iter().map(rf::linsrgb_to_oklab).collect(), tier: Tier::Exact, linear_light: false }),
        (Oklab, Rgb) if same_primaries(&b.std.unwrap(), &rf::standard("Srgb")) => Some(Want { alts: vec![rf::encode3(b.tf, rf::oklab_to_linsrgb(x))], tier: Tier::Exact, linear_light: b.tf != Tf::Linear }),
        (Oklab, Okhsl) => one(rf::oklab_to_okhsl(x), Tier::Ok),
        (Okhsl, Oklab) => one(rf::okhsl_to_oklab(x), Tier::Ok),
        (Oklab, Okhsv) => one(rf::oklab_to_okhsv(x), Tier::Ok),
        (Okhsv, Oklab) => one(rf::okhsv_to_oklab(x), Tier::Ok),
        (Okhsv, Okhwb) => one(rf::okhsv_to_okhwb(x), Tier::Exact),
        (Okhwb, Okhsv) => one(rf::okhwb_to_okhsv(x), Tier::Exact),
        (Xyz, Lms) if same_wp => one(rf::mul(&b.cone, x), Tier::Exact),
        (Lms, Xyz) if same_wp => one(rf::mul(&rf::inv(&a.cone), x), Tier::Matrix),
        (Xyz, Luma) if same_wp => Some(Want { alts: enc_alts(b.tf, x[1]).into_iter().map(|l| [l, 0.0, 0.0]).collect(), tier: Tier::Exact, linear_light: false }),
        (Luma, Xyz) if same_wp => Some(Want { alts: dec_alts(a.tf, x[0]).into_iter().map(|y| [b.wp[0] * y, y, b.wp[2] * y]).collect(), tier: Tier::Exact, linear_light: false }),
        (Yxy, Luma) if same_wp => Some(Want { alts: enc_alts(b.tf, x[2]).into_iter().map(|l| [l, 0.0, 0.0]).collect(), tier: Tier::Exact, linear_light: false }),
        (Luma, Yxy) if same_wp => {
            let s = b.wp[0] + b.wp[1] + b.wp[2];
            Some(Want { alts: dec_alts(a.tf, x[0]).into_iter().map(|y| [b.wp[0] / s, b.wp[1] / s, y]).collect(), tier: Tier::Exact, linear_light: false })
        }
        (Luma, Luma) => {
            let mut alts = Vec::new();
            for y in dec_alts(a.tf, x[0]) {
                alts.extend(enc_alts(b.tf, y).into_iter().map(|l| [l, 0.0, 0.0]));
            }
            Some(Want { alts, tier: Tier::Exact, linear_light: false })
        }
        (Rgb, Luma) if same_wp => {
            let m = rf::rgb_to_xyz_matrix(&a.std.unwrap());
            let alts = dec3_alts(a.tf, x).into_iter().map(|l| [rf::encode(b.tf, rf::mul(&m, l)[1]), 0.0, 0.0]).collect();
            Some(Want { alts, tier: Tier::Matrix, linear_light: b.tf != Tf::Linear })
        }
        (Luma, Rgb) if same_wp => {
            let mut alts = Vec::new();
            for y in dec_alts(a.tf, x[0]) {
                alts.extend(enc_alts(b.tf, y).into_iter().map(|v| [v, v, v]));
            }
            Some(Want { alts, tier: Tier::Exact, linear_light: false })
        }
        _ => None,
    }
}

#[derive(Debug, Clone, Serialize, Deserialize)]
struct Case {
    /// index into conversions()
    conv: usize,
    x: [f64; 3],
    f32_: bool,
    straddler: bool,
}

struct Ctx {
    convs: Vec<Conv>,
    /// indices of the direct conversions
    direct: Vec<usize>,
}

fn tol(tier: Tier) -> f64 {
    match tier {
        Tier::Exact => 1e-9,
        Tier::Matrix => 1e-6,
        Tier::Hsluv => 1e-7,
        Tier::Ok => 1e-8,
    }
}

fn dist(info: &SpaceInfo, b: &Sp, lin: bool, got: V3, want: V3) -> f64 {
    if lin && b.k == K::Rgb {
        let d = |c: V3| rf::decode3(b.tf, c);
        return embed_dist(info, d(got), d(want));
    }
    if lin && matches!(b.k, K::Hsl | K::Hsv | K::Hwb) {
        let to_rgb = |c: V3| match b.k { K::Hsl => rf::hsl_to_rgb(c), K::Hsv => rf::hsv_to_rgb(c), _ => rf::hsv_to_rgb(rf::hwb_to_hsv(c)) };
        let d = |c: V3| rf::decode3(b.tf, to_rgb(c));
        let (g, w) = (d(got), d(want));
        return (0..3).map(|i| (g[i] - w[i]).abs()).fold(0.0, |m: f64, v| if v.is_nan() { f64::INFINITY } else { m.max(v) });
    }
    if lin && b.k == K::Luma {
        return (rf::decode(b.tf, got[0]) - rf::decode(b.tf, want[0])).abs();
    }
    embed_dist(info, got, want)
}

fn point(ctx: &Ctx, c: &Case, obs: &mut Obs) -> PropResult {
    let cv = &ctx.convs[c.conv];
    let (an, bn) = (SPACE_NAMES[cv.a], SPACE_NAMES[cv.b]);
    let (a, b) = (parse(an), parse(bn));
    let info_b = space_info(cv.b);
    let info_a = space_info(cv.a);
    let x = if c.f32_ { [c.x[0] as f32 as f64, c.x[1] as f32 as f64, c.x[2] as f32 as f64] } else { c.x };
    let want = definition(&a, &b, x).expect("direct conversion");
    let label: &'static str = pv::runner::intern(&format!("{} -> {}{}", an, bn, if c.f32_ { " (f32)" } else { "" }));
    obs.class(label);
    let finite = want.alts.iter().all(|w| w.iter().all(|v| v.is_finite()));
    if !finite {
        obs.class("definition not finite here (skipped)");
        return Ok(());
    }
    // scale: results far outside the nominal range are compared relatively
    let mag = want.alts[0].iter().zip(info_b.comps.iter()).map(|(v, c)| match c { pv::types::Comp::Lin(lo, hi) => v.abs() / (hi - lo).abs().max(lo.abs()).max(hi.abs()), _ => 0.0 }).fold(1.0, f64::max);
    let got: V3 = if c.f32_ {
        let g = (cv.u32_)([x[0] as f32, x[1] as f32, x[2] as f32]);
        [g[0] as f64, g[1] as f64, g[2] as f64]
    } else {
        (cv.u64_)(x)
    };
    let d = want.alts.iter().map(|w| dist(&info_b, &b, want.linear_light, got, *w)).fold(f64::INFINITY, f64::min);
    obs.nontrivial_if(c.straddler || pv::types::embed_chroma(&info_a, x) > 1e-6);
    if c.straddler {
        obs.class("threshold straddler");
    }
    if c.f32_ {
        // conditioning filter: how much does the definition itself move under input perturbations of a few f32 ulps?
        let mut scatter: f64 = 0.0;
        for (i, rel) in [(0usize, 3e-7), (1, 3e-7), (2, 3e-7), (0, -3e-7), (1, -3e-7), (2, -3e-7), (0, 3e-6), (1, 3e-6), (2, 3e-6), (0, -3e-6), (1, -3e-6), (2, -3e-6)] {
            let mut y = x;
            let r = match info_a.comps[i] { pv::types::Comp::Lin(lo, hi) => (hi - lo).abs(), pv::types::Comp::Hue => 360.0, _ => 0.0 };
            y[i] += rel * r;
            if let Some(w2) = definition(&a, &b, y) {
                let dd = want.alts.iter().map(|w| dist(&info_b, &b, want.linear_light, w2.alts[0], *w)).fold(f64::INFINITY, f64::min);
                scatter = scatter.max(if dd.is_nan() { f64::INFINITY } else { dd });
            }
        }
        if want.tier == Tier::Ok && (b.k == K::Okhsl || b.k == K::Okhsv) && !(want.alts[0][1] >= -0.1 && want.alts[0][1] <= 1.5 && want.alts[0][2] >= -0.1 && want.alts[0][2] <= 1.5) {
            // imaginary Oklab colours far outside the sRGB gamut: the f32 evaluation of the gamut procedure has no
            // accuracy there (f64 is still compared at 1e-8)
            obs.class("f32: Oklab colour far outside the sRGB gamut (skipped)");
            return Ok(());
        }
        if scatter > 1e-4 * mag {
            obs.class("f32: ill-conditioned input (skipped)");
            return Ok(());
        }
        obs.err(pv::runner::intern(&format!("f32 {:?}", want.tier)), d / mag);
        ensure!(d <= 2e-3 * mag, "{} of {:?} = {:?}; the published definition gives {:?} (distance {:e} in the target embedding, allowed 2e-3)", label, x, got, want.alts[0], d);
        return Ok(());
    }
    // xyY: the chromaticity coordinates are prescribed values in their own right (x = X / (X + Y + Z)); the embedding
    // cannot see them when the luminance is zero, so they are also compared directly wherever the sum is a usable divisor
    if a.k == K::Xyz && b.k == K::Yxy {
        let sum = x[0] + x[1] + x[2];
        if sum > 1e-6 {
            let w = want.alts[0];
            let tc = 1e-9 + 1e-13 / sum;
            obs.class(if x[1] == 0.0 { "xyY chromaticity of a zero-luminance colour" } else { "xyY chromaticity" });
            ensure!((got[0] - w[0]).abs() <= tc && (got[1] - w[1]).abs() <= tc, "{} of {:?} = {:?}; CIE 15 gives the chromaticity ({}, {}) (x = X / (X + Y + Z), y = Y / (X + Y + Z))", label, x, got, w[0], w[1]);
        }
    }
    let t = tol(want.tier) * mag;
    if !(d <= t) && want.tier == Tier::Hsluv {
        // the HSLuv reference returns (h, 0, 100) / (100, 0, h) for L > 99.9999999; palette has only the lower guard
        let l = if a.k == K::Lchuv { x[0] } else { x[2] };
        if l > 99.9999999 {
            pv::fail_keyed!("C02:hsluv-upper-guard-missing", "{} of {:?} = {:?}; the HSLuv reference guards L > 99.9999999 and gives {:?}", label, x, got, want.alts[0]);
        }
    }
    obs.err(label, d / mag);
    ensure!(d <= t, "{} of {:?} = {:?}; the published definition gives {:?} (distance {:e} in the target embedding, allowed {:e})", label, x, got, want.alts[0], d, t);
    Ok(())
}

/// colours that sit on the joins of the piecewise definitions of conversion a -> b
fn straddlers(a: Sp, b: Sp) -> Option<BoxedStrategy<V3>> {
    use K::*;
    let jitter = || prop_oneof![Just(0.0), Just(2.3e-16), Just(-2.3e-16), Just(4.6e-16), Just(-4.6e-16), Just(1e-9), Just(-1e-9), Just(1e-12), Just(-1e-12)];
    let u = pv::gen::unit;
    match (a.k, b.k) {
        // ratio to the white point at (6/29)^3
        (Xyz, Lab) | (Xyz, Luv) => Some((0usize..3, jitter(), u(), u()).prop_map(move |(i, d, p, q)| { let mut c = [a.wp[0] * p, a.wp[1] * q, a.wp[2] * p * q]; c[i] = a.wp[i] * rf::EPS * (1.0 + d); c }).boxed()),
        // L* = 8 and f = 6/29 on the way back
        (Lab, Xyz) => Some(
            (0usize..3, jitter(), 0.0..=100.0f64, -100.0..=100.0f64, -100.0..=100.0f64)
                .prop_map(|(i, d, l, aa, bb)| {
                    let f0 = 6.0 / 29.0;
                    match i {
                        0 => [8.0 * (1.0 + d), aa, bb],
                        1 => { let fy = (l + 16.0) / 116.0; [l, 500.0 * (f0 * (1.0 + d) - fy), bb] }
                        _ => { let fy = (l + 16.0) / 116.0; [l, aa, 200.0 * (fy - f0 * (1.0 + d))] }
                    }
                })
                .boxed(),
        ),
        (Luv, Xyz) => Some((jitter(), -80.0..=170.0f64, -130.0..=100.0f64).prop_map(|(d, uu, vv)| [8.0 * (1.0 + d), uu * 0.08, vv * 0.08]).boxed()),
        // hue sector edges and the cone / bicone joins of the hexcone models
        (Hsl, _) | (Hsv, _) | (Hwb, _) | (Okhsl, _) | (Okhsv, _) | (Okhwb, _) | (Hsluv, _) => {
            let scale = if a.k == Hsluv { 100.0 } else { 1.0 };
            let hwb = a.k == Hwb || a.k == Okhwb;
            Some(
                (0i32..=6, prop_oneof![Just(0.0), Just(1e-12), Just(-1e-12), Just(1e-7), Just(-1e-7)], prop_oneof![Just(0.5), Just(0.8), Just(1.0), Just(0.0), u()], prop_oneof![Just(0.5), Just(1.0), Just(0.0), u()], jitter())
                    .prop_map(move |(k, dh, s, l, d)| {
                        let (s, l) = ((s * (1.0 + d)).clamp(0.0, 1.0), (l * (1.0 - d)).clamp(0.0, 1.0));
                        if hwb { [60.0 * k as f64 + dh, s * (1.0 - l), l] } else { [60.0 * k as f64 + dh, scale * s, scale * l] }
                    })
                    .boxed(),
            )
        }
        // RGB: components on the knees of the transfer curve; two components equal (hue sector edges)
        (Rgb, _) => {
            let knee = rf::knee(a.tf).map(|k| k.1).unwrap_or(0.5);
            Some(
                (0usize..3, jitter(), u(), u(), any::<bool>())
                    .prop_map(move |(i, d, p, q, tie)| {
                        let mut c = [p, q, p];
                        c[i] = knee * (1.0 + d);
                        if tie { c[(i + 1) % 3] = c[i]; }
                        c
                    })
                    .boxed(),
            )
        }
        (Luma, _) => {
            let knee = rf::knee(a.tf).map(|k| k.1).unwrap_or(0.5);
            Some(jitter().prop_map(move |d| [knee * (1.0 + d), 0.0, 0.0]).boxed())
        }
        // linear light on the knee of the target's curve
        (Xyz, Rgb) | (Xyz, Luma) | (Yxy, Luma) => {
            let knee = rf::knee(b.tf).map(|k| k.0).unwrap_or(0.5);
            let m = b.std.map(|s| rf::rgb_to_xyz_matrix(&s)).unwrap_or(rf::UNIT);
            let is_yxy = a.k == Yxy;
            Some(
                (0usize..3, jitter(), u(), u())
                    .prop_map(move |(i, d, p, q)| {
                        let mut lin = [p, q, p * q];
                        lin[i] = knee * (1.0 + d);
                        if b.k == Luma {
                            let y = knee * (1.0 + d);
                            return if is_yxy { [0.3127, 0.329, y] } else { [0.95047 * y, y, 1.08883 * y] };
                        }
                        rf::mul(&m, lin)
                    })
                    .boxed(),
            )
        }
        // polar forms: chroma -> 0
        (Lab, Lch) | (Luv, Lchuv) | (Oklab, Oklch) => Some((u(), prop_oneof![Just(0.0), Just(1e-12), Just(-1e-12), Just(1e-300)], prop_oneof![Just(0.0), Just(1e-12), Just(-1e-12)]).prop_map(|(l, x, y)| [l, x, y]).boxed()),
        _ => None,
    }
}

fn source(a: Sp, info: SpaceInfo) -> BoxedStrategy<V3> {
    use K::*;
    match a.k {
        Rgb => pv::types::in_gamut_rgb(),
        Hsl | Hsv | Hwb | Okhsl | Okhsv | Okhwb | Hsluv | Luma => nominal_box(info),
        _ => {
            // real colours: in-gamut colours of three RGB spaces pushed through the definitions, rescaled to this white
            let real = (pv::types::in_gamut_rgb(), 0usize..3)
                .prop_map(move |(c, s)| {
                    let st = [rf::standard("Srgb"), rf::standard("Rec2020"), rf::standard("ProPhoto")][s];
                    let w = rf::white(st.white);
                    let xyz = rf::rgb_to_xyz(&st, c);
                    let wp = if a.k == Oklab || a.k == Oklch { rf::D65 } else { a.wp };
                    pv::refgraph::from_xyz(&a, [xyz[0] * wp[0] / w[0], xyz[1], xyz[2] * wp[2] / w[2]])
                })
                .boxed();
            prop_oneof![7 => real, 2 => nominal_box(info)].boxed()
        }
    }
}

fn main() {
    let mut h = Harness::new("C02");
    h.rule("Every directly implemented conversion of the 51-space type matrix (RGB standards <-> XYZ, XYZ <-> xyY / L*a*b* / L*u*v* for D65, D50, A, E, DCI white, polar forms, HSLuv, hexcone HSL/HSV/HWB for four RGB standards, Oklab via M1/M2 and via the direct sRGB matrices, Okhsl, Okhsv, Okhwb, LMS with two cone matrices, luma, RGB <-> RGB) on generated inputs: in-gamut colours with class mixing, real colours pushed through the definitions, the nominal box, and straddlers of every piecewise join (L* toe at (6/29)^3 and 6/29, L* = 8, transfer-curve knees, hue sector edges, s = 0.8, l = 0.5, chroma -> 0) at +-1 ulp, +-1e-12, +-1e-9. Oracle: independent f64 evaluation of the published definition, compared in the target's cartesian embedding (hue weighted by chroma): 1e-9 for pure arithmetic, 2e-6 through hard-coded 7-digit matrices, 1e-7 HSLuv, 1e-8 Okhsl/Okhsv; both one-sided values accepted at a curve knee; f32 at 2e-3 with a conditioning filter. Non-trivial = source not on the grey axis, or a straddler; distinct by hash.");
    h.assume("reference formulas written from CIE 15, the RGB standards' primaries/white/transfer curves (matrices derived, not copied), Smith's hexcone models, Ottosson's Oklab post and ok_color.h, and the HSLuv reference implementation (rev 4); self-checked against published sample values at start");
    if let Err(e) = rf::self_check() {
        println!("reference self-check failed: {}", e);
        std::process::exit(2);
    }
    let convs = conversions();
    let direct: Vec<usize> = (0..convs.len()).filter(|&i| definition(&parse(SPACE_NAMES[convs[i].a]), &parse(SPACE_NAMES[convs[i].b]), [0.3, 0.4, 0.5]).is_some()).collect();
    let ctx = Ctx { convs, direct };
    h.extra("direct_conversions", serde_json::json!(ctx.direct.iter().map(|&i| format!("{} -> {}", SPACE_NAMES[ctx.convs[i].a], SPACE_NAMES[ctx.convs[i].b])).collect::<Vec<_>>()));
    let nd = ctx.direct.len();
    let per = h.n(30_000, 400_000);
    let ctxr = &ctx;
    h.prop(
        "direct_conversions_vs_definitions",
        per * nd as u64,
        || {
            (0..nd, any::<bool>(), 0u8..10)
                .prop_flat_map(move |(k, f32_, sel)| {
                    let ci = ctxr.direct[k];
                    let cv = &ctxr.convs[ci];
                    let (a, b) = (parse(SPACE_NAMES[cv.a]), parse(SPACE_NAMES[cv.b]));
                    let st = if sel < 3 { straddlers(a, b) } else { None };
                    let straddler = st.is_some();
                    let s = st.unwrap_or_else(|| source(a, space_info(cv.a)));
                    s.prop_map(move |x| Case { conv: ci, x, f32_: f32_ && sel % 2 == 0, straddler })
                })
        },
        |c, obs| point(ctxr, c, obs),
    );
    for &i in &ctx.direct {
        let label = format!("{} -> {}", SPACE_NAMES[ctx.convs[i].a], SPACE_NAMES[ctx.convs[i].b]);
        h.require_class("direct_conversions_vs_definitions", pv::runner::intern(&label), per / 4);
    }
    h.finish();
}
