//! C10 — colour operators obey their algebra and all their variants agree.
use proptest::prelude::*;
use pv::ensure;
use pv::gen::{ulp32, ulp64};
use pv::ops::{operators, Args, Kind, Op, Variant};
use pv::runner::{Fail, Harness, Obs, PropResult};
use pv::types::{nominal_box, space_info, Comp, Shape, SPACE_NAMES};
use serde::{Deserialize, Serialize};
use std::collections::HashMap;

#[derive(Debug, Clone, Serialize, Deserialize)]
struct Case {
    op: usize,
    a: [f64; 3],
    b: [f64; 3],
    f: f64,
    /// second factor (monotonicity pairs)
    f2: f64,
    alpha_a: f64,
    alpha_b: f64,
}

const FACTORS: [f64; 13] = [-1.0, -0.5, -1e-9, 0.0, 1e-9, 0.25, 0.5, 1.0 - 1e-9, 1.0, 1.0 + 1e-9, 1.5, 2.0, 0.75];

struct Ctx {
    ops: Vec<Op>,
    index: HashMap<(usize, Kind2), usize>,
}
#[derive(Hash, PartialEq, Eq, Clone, Copy)]
struct Kind2(u8);
fn k2(k: Kind) -> Kind2 {
    Kind2(k as u8)
}

/// exact documented limits of the component(s) an increase-operator acts on: (index, min, max)
fn affected(space: usize, saturate: bool) -> Vec<(usize, f64, f64)> {
    let name = SPACE_NAMES[space];
    let base = name.split('<').next().unwrap();
    if saturate {
        return match base {
            "Lch" => vec![(1, 0.0, 128.0)],
            "Lchuv" => vec![(1, 0.0, 180.0)],
            "Hsluv" => vec![(1, 0.0, 100.0)],
            "Hsl" | "Hsv" | "Okhsl" | "Okhsv" => vec![(1, 0.0, 1.0)],
            _ => vec![],
        };
    }
    match base {
        "Srgb" | "LinSrgb" | "AdobeRgb" | "LinRec2020" => vec![(0, 0.0, 1.0), (1, 0.0, 1.0), (2, 0.0, 1.0)],
        "Xyz" if name.contains("D50") => vec![(0, 0.0, 0.96422), (1, 0.0, 1.0), (2, 0.0, 0.82521)],
        "Xyz" => vec![(0, 0.0, 0.95047), (1, 0.0, 1.0), (2, 0.0, 1.08883)],
        "Yxy" => vec![(2, 0.0, 1.0)],
        "Luma" => vec![(0, 0.0, 1.0)],
        "Lab" | "Luv" | "Lch" | "Lchuv" => vec![(0, 0.0, 100.0)],
        "Hsluv" => vec![(2, 0.0, 100.0)],
        "Hsl" | "Hsv" | "Okhsl" | "Okhsv" => vec![(2, 0.0, 1.0)],
        "Oklab" | "Oklch" => vec![(0, 0.0, 1.0)],
        _ => vec![],
    }
}

fn bits_eq(a: &[f64], b: &[f64]) -> bool {
    a.len() == b.len() && a.iter().zip(b).all(|(x, y)| x == y || (x.is_nan() && y.is_nan()))
}

fn signed_diff(b: f64, a: f64) -> f64 {
    // shortest signed difference b - a in (-180, 180]
    let d = (b - a) % 360.0;
    if d > 180.0 {
        d - 360.0
    } else if d <= -180.0 {
        d + 360.0
    } else {
        d
    }
}

fn variants_agree(kind: Kind, vs: &[Variant], c: &Case, f: f64, is32: bool, what: &str) -> PropResult {
    let v0 = &vs[0].1;
    let cast = |x: f64| if is32 { x as f32 as f64 } else { x };
    for (label, v) in vs.iter().skip(1) {
        let ncol = v0.len();
        ensure!(v.len() >= ncol, "{} variant '{}' has {} components, by-value has {}", what, label, v.len(), ncol);
        ensure!(bits_eq(&v[..ncol], v0), "{}: variant '{}' gives {:?} but the by-value form on the bare colour gives {:?} (a={:?} b={:?} factor={:e})", what, label, &v[..ncol], v0, c.a, c.b, f);
        if v.len() > ncol {
            // alpha component(s)
            let (aa, ab) = (cast(c.alpha_a), cast(c.alpha_b));
            let ff = cast(f);
            for al in &v[ncol..] {
                let want = match kind {
                    Kind::Mix => {
                        let t = if is32 { (ff as f32).clamp(0.0, 1.0) as f64 } else { ff.clamp(0.0, 1.0) };
                        if is32 { (aa as f32 + (t as f32) * (ab as f32 - aa as f32)) as f64 } else { aa + t * (ab - aa) }
                    }
                    Kind::Add => if is32 { (aa as f32 + ab as f32) as f64 } else { aa + ab },
                    Kind::Sub => if is32 { (aa as f32 - ab as f32) as f64 } else { aa - ab },
                    Kind::Mul => if is32 { (aa as f32 * ab as f32) as f64 } else { aa * ab },
                    Kind::Div => if is32 { (aa as f32 / ab as f32) as f64 } else { aa / ab },
                    Kind::AddScalar => if is32 { (aa as f32 + ff as f32) as f64 } else { aa + ff },
                    Kind::SubScalar => if is32 { (aa as f32 - ff as f32) as f64 } else { aa - ff },
                    Kind::MulScalar => if is32 { (aa as f32 * ff as f32) as f64 } else { aa * ff },
                    Kind::DivScalar => if is32 { (aa as f32 / ff as f32) as f64 } else { aa / ff },
                    _ => aa,
                };
                let tol = if kind == Kind::Mix { 4.0 * if is32 { ulp32(1.0) as f64 } else { ulp64(1.0) } } else { 0.0 };
                ensure!((al - want).abs() <= tol || (al.is_nan() && want.is_nan()) || *al == want, "{}: variant '{}' alpha = {} expected {} (alpha_a={}, alpha_b={}, factor={})", what, label, al, want, aa, ab, ff);
            }
        }
    }
    Ok(())
}

fn point(ctx: &Ctx, c: &Case, obs: &mut Obs) -> PropResult {
    let op = &ctx.ops[c.op];
    let info = space_info(op.space);
    let name = SPACE_NAMES[op.space];
    let kind = op.kind;
    if matches!(kind, Kind::Div) && (c.b.iter().any(|x| (*x as f32) == 0.0) || (c.alpha_b as f32) == 0.0) {
        obs.class("division by zero skipped");
        return Ok(());
    }
    if matches!(kind, Kind::DivScalar) && (c.f as f32) == 0.0 {
        obs.class("division by zero skipped");
        return Ok(());
    }
    obs.nontrivial_if(c.f != 0.0 && c.f != 1.0);
    for is32 in [false, true] {
        let prec = if is32 { "f32" } else { "f64" };
        let what = format!("{:?} on {}<{}>", kind, name, prec);
        let run = |a: [f64; 3], b: [f64; 3], f: f64| -> Vec<Variant> {
            let args = Args { a, b, f, alpha_a: c.alpha_a, alpha_b: c.alpha_b };
            if is32 { (op.f32_)(&args) } else { (op.f64_)(&args) }
        };
        let cast = |x: f64| if is32 { x as f32 as f64 } else { x };
        let a = [cast(c.a[0]), cast(c.a[1]), cast(c.a[2])];
        let b = [cast(c.b[0]), cast(c.b[1]), cast(c.b[2])];
        let f = cast(c.f);
        let ulp = |x: f64| if is32 { ulp32(x as f32) as f64 } else { ulp64(x) };
        let vs = run(c.a, c.b, c.f);
        let v0 = vs[0].1.clone();
        // ---- (c) variant agreement, bitwise ----
        variants_agree(kind, &vs, c, c.f, is32, &what)?;
        // ---- algebra per operator ----
        match kind {
            Kind::Mix => {
                let at0 = run(c.a, c.b, 0.0)[0].1.clone();
                let at1 = run(c.a, c.b, 1.0)[0].1.clone();
                let clamped = run(c.a, c.b, c.f.clamp(0.0, 1.0))[0].1.clone();
                ensure!(bits_eq(&v0, &clamped), "{}: mix with factor {} differs from factor clamped to [0,1]: {:?} vs {:?}", what, f, v0, clamped);
                for i in 0..3 {
                    match info.comps[i] {
                        Comp::Lin(lo, hi) => {
                            let r = (hi - lo).abs().max(1.0);
                            ensure!(at0[i] == a[i], "{}: mix(a,b,0)[{}] = {} expected a = {}", what, i, at0[i], a[i]);
                            ensure!((at1[i] - b[i]).abs() <= 4.0 * ulp(r), "{}: mix(a,b,1)[{}] = {} expected b = {}", what, i, at1[i], b[i]);
                            let (mn, mx) = (a[i].min(b[i]), a[i].max(b[i]));
                            ensure!(v0[i] >= mn - 2.0 * ulp(r) && v0[i] <= mx + 2.0 * ulp(r), "{}: mix component {} = {} not between {} and {} (factor {})", what, i, v0[i], a[i], b[i], f);
                        }
                        Comp::Hue => {
                            let d = signed_diff(b[i], a[i]);
                            // the two arcs are equally long up to the rounding of the stored angles' difference
                            // (f32 hues thousands of degrees away have an ulp of 5e-4 deg): direction undefined there
                            let antipodal_band = 1e-6f64.max(4.0 * ulp(a[i].abs().max(b[i].abs()).max(360.0)));
                            if (d.abs() - 180.0).abs() > antipodal_band {
                                obs.class(if (b[i] - a[i]).abs() > 180.0 { "mix: raw hue difference > 180 (wraps)" } else { "mix: raw hue difference <= 180" });
                                let t = f.clamp(0.0, 1.0);
                                let moved = signed_diff(v0[i], a[i]);
                                let tol = 1e-9 + 8.0 * ulp(a[i].abs().max(b[i].abs()).max(360.0));
                                // on the shorter arc: same direction, never beyond b
                                ensure!((moved - t * d).abs() <= tol + if is32 { 1e-4 } else { 0.0 }, "{}: mix hue from {} towards {} by {} moved {} deg, the shorter arc is {} deg (expected {})", what, a[i], b[i], t, moved, d, t * d);
                                let m0 = signed_diff(at0[i], a[i]);
                                let m1 = signed_diff(at1[i], b[i]);
                                ensure!(m0.abs() <= tol && m1.abs() <= tol + if is32 { 1e-4 } else { 0.0 }, "{}: mix hue end points: factor 0 -> {} (a = {}), factor 1 -> {} (b = {})", what, at0[i], a[i], at1[i], b[i]);
                            } else {
                                obs.class("mix: antipodal hues (direction undefined, skipped)");
                            }
                        }
                        Comp::None => {}
                    }
                }
            }
            Kind::Lighten | Kind::Darken | Kind::Saturate | Kind::Desaturate | Kind::LightenFixed | Kind::DarkenFixed | Kind::SaturateFixed | Kind::DesaturateFixed => {
                let sat = matches!(kind, Kind::Saturate | Kind::Desaturate | Kind::SaturateFixed | Kind::DesaturateFixed);
                let decreasing = matches!(kind, Kind::Darken | Kind::Desaturate | Kind::DarkenFixed | Kind::DesaturateFixed);
                let fixed = matches!(kind, Kind::LightenFixed | Kind::DarkenFixed | Kind::SaturateFixed | Kind::DesaturateFixed);
                // darken/desaturate(x) == lighten/saturate(-x), bitwise
                if decreasing {
                    let inc = match kind {
                        Kind::Darken => Kind::Lighten,
                        Kind::DarkenFixed => Kind::LightenFixed,
                        Kind::Desaturate => Kind::Saturate,
                        _ => Kind::SaturateFixed,
                    };
                    let other = &ctx.ops[ctx.index[&(op.space, k2(inc))]];
                    let args = Args { a: c.a, b: c.b, f: -c.f, alpha_a: c.alpha_a, alpha_b: c.alpha_b };
                    let w = if is32 { (other.f32_)(&args) } else { (other.f64_)(&args) };
                    ensure!(bits_eq(&v0, &w[0].1), "{}: {:?}({}) = {:?} but {:?}({}) = {:?}", what, kind, f, v0, inc, -f, w[0].1);
                }
                let aff = affected(op.space, sat);
                let dir = if decreasing { -1.0 } else { 1.0 };
                if info.shape == Shape::Hwb {
                    // whiteness up / blackness down for lighten; sum stays <= 1 for the relative forms
                    let s = dir * f;
                    if (0.0..=1.0).contains(&f) {
                        let (w0, b0, w1, b1) = (a[1], a[2], v0[1], v0[2]);
                        let e = 2.0 * ulp(1.0);
                        if s >= 0.0 {
                            ensure!(w1 >= w0 - e && b1 <= b0 + e, "{}: lighten must raise whiteness and lower blackness: ({}, {}) -> ({}, {})", what, w0, b0, w1, b1);
                        } else {
                            ensure!(w1 <= w0 + e && b1 >= b0 - e, "{}: darken must lower whiteness and raise blackness: ({}, {}) -> ({}, {})", what, w0, b0, w1, b1);
                        }
                        ensure!(w1 >= -e && b1 >= -e, "{}: component below 0: ({}, {})", what, w1, b1);
                        if !fixed {
                            ensure!(w1 + b1 <= 1.0 + 4.0 * e, "{}: whiteness + blackness = {} > 1 after the operation on ({}, {}) with factor {}", what, w1 + b1, w0, b0, f);
                        } else if w1 + b1 > 1.0 + 4.0 * e {
                            return Err(Fail::keyed("C10:hwb-fixed-leaves-range", format!("{}: whiteness + blackness = {} > 1 after ({}, {}) with amount {}", what, w1 + b1, w0, b0, f)));
                        }
                        ensure!(v0[0] == a[0], "{}: hue changed", what);
                        if f == 0.0 {
                            ensure!(w1 == w0 && b1 == b0, "{}: factor 0 changed the colour", what);
                        }
                        if f == 1.0 && !fixed {
                            if s > 0.0 {
                                ensure!((w1 - 1.0).abs() <= e && b1.abs() <= e, "{}: lighten(1) must reach white: ({}, {})", what, w1, b1);
                            } else {
                                ensure!(w1.abs() <= e && (b1 - 1.0).abs() <= e, "{}: darken(1) must reach black: ({}, {})", what, w1, b1);
                            }
                        }
                    }
                } else if (0.0..=1.0).contains(&f) {
                    for i in 0..3 {
                        if let Some(&(_, lo, hi)) = aff.iter().find(|x| x.0 == i) {
                            let (lo, hi) = (cast(lo), cast(hi));
                            let r = hi - lo;
                            let limit = if decreasing { lo } else { hi };
                            let e = ulp(r.max(a[i].abs()));
                            // never leaves the range (for inputs inside it)
                            if a[i] >= lo && a[i] <= hi {
                                ensure!(v0[i] >= lo && v0[i] <= hi, "{}: component {} = {} left [{}, {}] (from {}, factor {})", what, i, v0[i], lo, hi, a[i], f);
                                // moves toward the limit
                                ensure!((v0[i] - a[i]) * dir >= -e, "{}: component {} moved away from its limit: {} -> {} (factor {})", what, i, a[i], v0[i], f);
                                if f == 0.0 {
                                    ensure!(v0[i] == a[i], "{}: factor 0 changed component {}: {} -> {}", what, i, a[i], v0[i]);
                                }
                                if f == 1.0 {
                                    ensure!((v0[i] - limit).abs() <= 2.0 * e, "{}: factor 1 must reach the limit {}: got {} from {}", what, limit, v0[i], a[i]);
                                }
                                if fixed {
                                    let want = (a[i] + dir * f * hi).clamp(lo, hi);
                                    ensure!((v0[i] - want).abs() <= 2.0 * e, "{}: fixed form: component {} = {} expected clamp({} + {} * {}) = {}", what, i, v0[i], a[i], dir * f, hi, want);
                                }
                                // monotone in the factor
                                let (f_lo, f_hi) = if c.f2 <= c.f { (c.f2, c.f) } else { (c.f, c.f2) };
                                if (0.0..=1.0).contains(&f_lo) && (0.0..=1.0).contains(&f_hi) {
                                    let (x_lo, x_hi) = (run(c.a, c.b, f_lo)[0].1[i], run(c.a, c.b, f_hi)[0].1[i]);
                                    ensure!((x_hi - x_lo) * dir >= -2.0 * e, "{}: not monotone in the factor: f={} -> {}, f={} -> {}", what, f_lo, x_lo, f_hi, x_hi);
                                }
                            }
                        } else {
                            ensure!(v0[i] == a[i] || (v0[i].is_nan() && a[i].is_nan()), "{}: untouched component {} changed: {} -> {}", what, i, a[i], v0[i]);
                        }
                    }
                }
            }
            Kind::ShiftHue | Kind::WithHue => {
                for i in 0..3 {
                    match info.comps[i] {
                        Comp::Hue => {
                            let want = if kind == Kind::ShiftHue { if is32 { (a[i] as f32 + f as f32) as f64 } else { a[i] + f } } else { f };
                            ensure!(v0[i] == want, "{}: hue {} with amount {} = {} expected {}", what, a[i], f, v0[i], want);
                        }
                        _ => ensure!(v0[i] == a[i], "{}: component {} changed: {} -> {}", what, i, a[i], v0[i]),
                    }
                }
            }
            Kind::GetHue => {
                if let Some(i) = info.comps.iter().position(|k| *k == Comp::Hue) {
                    ensure!(signed_diff(v0[0], a[i]).abs() <= 1e-9 + 4.0 * ulp(a[i].abs().max(360.0)), "{}: get_hue = {} but the hue component is {}", what, v0[0], a[i]);
                } else if a[1] != 0.0 || a[2] != 0.0 {
                    let want = a[2].atan2(a[1]).to_degrees();
                    ensure!(signed_diff(v0[0], want).abs() <= if is32 { 1e-3 } else { 1e-9 }, "{}: get_hue({:?}) = {} expected atan2(b, a) = {}", what, a, v0[0], want);
                }
            }
            Kind::Add | Kind::Sub | Kind::Mul | Kind::Div | Kind::AddScalar | Kind::SubScalar | Kind::MulScalar | Kind::DivScalar => {
                let n = if info.shape == Shape::Luma { 1 } else { 3 };
                for i in 0..n {
                    let rhs = if matches!(kind, Kind::Add | Kind::Sub | Kind::Mul | Kind::Div) { b[i] } else { f };
                    let want = match kind {
                        Kind::Add | Kind::AddScalar => if is32 { (a[i] as f32 + rhs as f32) as f64 } else { a[i] + rhs },
                        Kind::Sub | Kind::SubScalar => if is32 { (a[i] as f32 - rhs as f32) as f64 } else { a[i] - rhs },
                        Kind::Mul | Kind::MulScalar => if is32 { (a[i] as f32 * rhs as f32) as f64 } else { a[i] * rhs },
                        _ => if is32 { (a[i] as f32 / rhs as f32) as f64 } else { a[i] / rhs },
                    };
                    ensure!(v0[i] == want || (v0[i].is_nan() && want.is_nan()), "{}: component {}: {} op {} = {} expected {}", what, i, a[i], rhs, v0[i], want);
                }
            }
            Kind::Complementary | Kind::SplitComplementary | Kind::Analogous | Kind::AnalogousSecondary | Kind::Triadic | Kind::Tetradic => {
                let shifts: &[f64] = match kind {
                    Kind::Complementary => &[180.0],
                    Kind::SplitComplementary => &[150.0, 210.0],
                    Kind::Analogous => &[330.0, 30.0],
                    Kind::AnalogousSecondary => &[300.0, 60.0],
                    Kind::Triadic => &[120.0, 240.0],
                    _ => &[90.0, 180.0, 270.0],
                };
                if let Some(hi) = info.comps.iter().position(|k| *k == Comp::Hue) {
                    for (j, sh) in shifts.iter().enumerate() {
                        for i in 0..3 {
                            let got = v0[3 * j + i];
                            let want = if i == hi { if is32 { (a[i] as f32 + *sh as f32) as f64 } else { a[i] + sh } } else { a[i] };
                            ensure!(got == want, "{}: colour {} component {} = {} expected {} (documented shift {})", what, j, i, got, want, sh);
                        }
                    }
                } else {
                    // Lab-like: rotations of (a, b) by 90 degree steps, lightness untouched
                    let rot = |k: usize, x: f64, y: f64| match k {
                        90 => (-y, x),
                        180 => (-x, -y),
                        _ => (y, -x),
                    };
                    for (j, sh) in shifts.iter().enumerate() {
                        let (wa, wb) = rot(*sh as usize, a[1], a[2]);
                        let g = &v0[3 * j..3 * j + 3];
                        ensure!(g[0] == a[0] && g[1] == wa && g[2] == wb, "{}: colour {} = {:?} expected ({}, {}, {})", what, j, g, a[0], wa, wb);
                    }
                }
            }
        }
    }
    Ok(())
}

fn main() {
    let mut h = Harness::new("C10");
    h.rule("every entry of the operator table (468 = operator family x colour type; by-value, assigning, slice and Alpha-wrapped variants) on generated in-range colours (nominal box incl. its bounds, hue sector edges and wraps), factors from {-1,-.5,-1e-9,0,1e-9,.25,.5,.75,1-1e-9,1,1+1e-9,1.5,2} and uniform [-1,2], alphas in [0,1]; f64 and f32. Oracles: bitwise agreement of all variants with the by-value form (alpha: mixed linearly / untouched / raw arithmetic); mix end points, clamped factor, betweenness, shorter hue arc; lighten/saturate range, direction, factor 0/1, monotone in the factor (second generated factor), fixed forms == clamp(c + amount*max), darken/desaturate(x) == lighten/saturate(-x) bitwise; hue shift/set exact; arithmetic == raw component arithmetic; colour schemes == documented shifts. Non-trivial = factor not in {0,1}.");
    h.assume("documented limits of the affected components are written in the harness from the min/max accessors (e.g. Lch chroma 128, Lchuv 180, Xyz white point)");
    let ops = operators();
    let mut index = HashMap::new();
    for (i, o) in ops.iter().enumerate() {
        index.insert((o.space, k2(o.kind)), i);
    }
    let ctx: &'static Ctx = Box::leak(Box::new(Ctx { ops, index }));
    let nops = ctx.ops.len();
    let n = h.n(3_000_000, 100_000_000);
    h.prop(
        "operator_table",
        n,
        move || {
            (0..nops).prop_flat_map(move |op| {
                let info = space_info(ctx.ops[op].space);
                let kind = ctx.ops[op].kind;
                let factor = || -> BoxedStrategy<f64> {
                    if matches!(kind, Kind::WithHue | Kind::ShiftHue) {
                        prop_oneof![3 => pv::gen::hue(), 1 => (0usize..FACTORS.len()).prop_map(|i| FACTORS[i])].boxed()
                    } else {
                        prop_oneof![3 => (0usize..FACTORS.len()).prop_map(|i| FACTORS[i]), 3 => -1.0..=2.0f64, 2 => 0.0..=1.0f64].boxed()
                    }
                };
                // second colour: independent, or sharing components with the first (mix of close colours)
                (nominal_box(info), nominal_box(info), factor(), factor(), pv::gen::unit(), pv::gen::unit(), 0u8..8).prop_map(move |(a, b, f, f2, alpha_a, alpha_b, share)| {
                    let mut b = b;
                    if share == 0 {
                        b = a;
                    } else if share == 1 {
                        b[0] = a[0];
                    }
                    Case { op, a, b, f, f2, alpha_a, alpha_b }
                })
            })
        },
        move |c, obs| point(ctx, c, obs),
    );
    h.require_class("operator_table", "mix: raw hue difference > 180 (wraps)", 1000);
    h.finish();
}
