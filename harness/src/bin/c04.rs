//! C04 — zero-copy casts are lossless, length-exact and layout-sound.
use palette::blend::PreAlpha;
use palette::cam16::{Cam16Jch, Cam16Qsh, Cam16UcsJab, Cam16UcsJmh};
use palette::cast::{self, ArrayCast, ArraysAs, ArraysFrom, ArraysInto, AsArrays, AsComponents, AsComponentsMut, ComponentsAs, ComponentsInto, FromComponents, IntoArrays, IntoComponents, Packed, TryComponentsAs, TryComponentsInto, TryFromComponents, UintCast, VecCastErrorKind};
use palette::encoding;
use palette::lms::matrix::VonKries;
use palette::lms::Lms;
use palette::rgb::channels::{Abgr, Argb, Rgba as RgbaOrder};
use palette::white_point::D65;
use palette::{Alpha, Hsl, Hsluv, Hsv, Hwb, Lab, Lch, Lchuv, Luv, Okhsl, Okhsv, Okhwb, Oklab, Oklch, Srgb, SrgbLuma, Xyz, Yxy};
use proptest::prelude::*;
use pv::ensure;
use pv::runner::{no_panic, Fail, Harness, Obs, PropResult};
use serde::{Deserialize, Serialize};

trait Bits: Copy + PartialEq + std::fmt::Debug + 'static {
    fn from_u64(b: u64) -> Self;
    fn to_u64(self) -> u64;
    const NAME: &'static str;
}
macro_rules! bits_int { ($($t:ty),*) => { $(impl Bits for $t { fn from_u64(b: u64) -> Self { b as $t } fn to_u64(self) -> u64 { self as u64 } const NAME: &'static str = stringify!($t); })* }; }
bits_int!(u8, u16, u32, u64);
impl Bits for f32 {
    fn from_u64(b: u64) -> Self { f32::from_bits(b as u32) }
    fn to_u64(self) -> u64 { self.to_bits() as u64 }
    const NAME: &'static str = "f32";
}
impl Bits for f64 {
    fn from_u64(b: u64) -> Self { f64::from_bits(b) }
    fn to_u64(self) -> u64 { self.to_bits() }
    const NAME: &'static str = "f64";
}

fn bits_of<T: Bits>(v: &[T]) -> Vec<u64> {
    v.iter().map(|x| x.to_u64()).collect()
}

#[derive(Debug, Clone, Serialize, Deserialize)]
pub struct Case {
    pub ty: usize,
    /// component buffer contents (raw bits, truncated to the component width)
    pub bits: Vec<u64>,
    /// extra capacity requested beyond the length
    pub extra_cap: usize,
    pub write_at: usize,
    pub write_val: u64,
}

fn make_vec<T: Bits>(c: &Case) -> Vec<T> {
    let mut v: Vec<T> = Vec::with_capacity(c.bits.len() + c.extra_cap);
    v.extend(c.bits.iter().map(|b| T::from_u64(*b)));
    v
}

fn check<C, T, const N: usize>(name: &str, fields: fn(&C) -> [T; N], c: &Case, obs: &mut Obs) -> PropResult
where
    C: ArrayCast<Array = [T; N]> + 'static,
    T: Bits,
{
    let what = format!("{}<{}>", name, T::NAME);
    ensure!(std::mem::size_of::<C>() == std::mem::size_of::<[T; N]>() && std::mem::align_of::<C>() == std::mem::align_of::<[T; N]>(), "{}: size/align differ from [{}; {}]", what, T::NAME, N);
    let len = c.bits.len();
    let want_bits: Vec<u64> = bits_of(&make_vec::<T>(c));
    let multiple = len % N == 0;
    obs.class(if multiple { "length is a multiple" } else { "length is not a multiple" });
    // ---------- Vec ----------
    let v = make_vec::<T>(c);
    let (ptr, cap) = (v.as_ptr() as usize, v.capacity());
    let cap_multiple = cap % N == 0;
    obs.nontrivial_if(len >= 1 && (cap != len || !multiple));
    if multiple && !cap_multiple {
        obs.class("vec: capacity not a multiple");
    }
    match cast::try_from_component_vec::<C>(v) {
        Ok(colors) => {
            ensure!(multiple && cap_multiple, "{}: try_from_component_vec accepted len {} cap {} (component count {})", what, len, cap, N);
            ensure!(colors.as_ptr() as usize == ptr, "{}: try_from_component_vec moved the buffer", what);
            ensure!(colors.len() == len / N && colors.capacity() == cap / N, "{}: try_from_component_vec: len {} cap {} from component len {} cap {}", what, colors.len(), colors.capacity(), len, cap);
            // field order of every element
            for (i, col) in colors.iter().enumerate() {
                let f = fields(col);
                ensure!(bits_of(&f) == want_bits[i * N..(i + 1) * N], "{}: element {} read through its fields is {:?}, the buffer holds {:?} (declared field order, alpha last)", what, i, bits_of(&f), &want_bits[i * N..(i + 1) * N]);
            }
            // arrays view and back
            let arrays = cast::into_array_vec(colors);
            ensure!(arrays.as_ptr() as usize == ptr && arrays.len() == len / N && arrays.capacity() == cap / N, "{}: into_array_vec changed ptr/len/cap", what);
            let colors = cast::from_array_vec::<C>(arrays);
            ensure!(colors.as_ptr() as usize == ptr && colors.len() == len / N && colors.capacity() == cap / N, "{}: from_array_vec changed ptr/len/cap", what);
            let comps = cast::into_component_vec(colors);
            ensure!(comps.as_ptr() as usize == ptr, "{}: into_component_vec moved the buffer", what);
            ensure!(comps.len() == len && comps.capacity() == cap, "{}: into_component_vec: len {} cap {} expected len {} cap {}", what, comps.len(), comps.capacity(), len, cap);
            ensure!(bits_of(&comps) == want_bits, "{}: Vec round trip altered the data", what);
            // trait forms
            let colors: Vec<C> = comps.components_into();
            ensure!(colors.as_ptr() as usize == ptr && colors.len() == len / N && colors.capacity() == cap / N, "{}: ComponentsInto for Vec changed ptr/len/cap", what);
            let arrays: Vec<[T; N]> = colors.into_arrays();
            let colors: Vec<C> = arrays.arrays_into();
            let comps: Vec<T> = colors.into_components();
            ensure!(comps.as_ptr() as usize == ptr && comps.len() == len && comps.capacity() == cap && bits_of(&comps) == want_bits, "{}: IntoComponents for Vec changed ptr/len/cap/data", what);
            let colors = Vec::<C>::try_from_components(comps).map_err(|_| Fail::new(format!("{}: TryFromComponents rejected a valid Vec", what)))?;
            let comps = cast::into_component_vec(colors);
            let colors = Vec::<C>::from_components(comps);
            ensure!(colors.capacity() == cap / N && colors.as_ptr() as usize == ptr, "{}: FromComponents for Vec", what);
        }
        Err(e) => {
            ensure!(!(multiple && cap_multiple), "{}: try_from_component_vec rejected len {} cap {} (component count {})", what, len, cap, N);
            let want_kind = if !multiple { VecCastErrorKind::LengthMismatch } else { VecCastErrorKind::CapacityMismatch };
            ensure!(e.kind == want_kind, "{}: error kind {:?} expected {:?} (len {} cap {})", what, e.kind, want_kind, len, cap);
            ensure!(e.values.as_ptr() as usize == ptr && e.values.len() == len && e.values.capacity() == cap && bits_of(&e.values) == want_bits, "{}: rejected Vec was not handed back unchanged", what);
            let r: Result<Vec<C>, _> = e.values.try_components_into();
            ensure!(r.is_err(), "{}: TryComponentsInto accepted what try_from_component_vec rejected", what);
        }
    }
    // the panicking form panics exactly then
    let v = make_vec::<T>(c);
    let cap2 = v.capacity();
    let r = no_panic(move || {
        let colors = cast::from_component_vec::<C>(v);
        let n = colors.len();
        std::mem::forget(cast::into_component_vec(colors));
        n
    });
    ensure!(r.is_ok() == (multiple && cap2 % N == 0), "{}: from_component_vec {} for len {} cap {} (component count {})", what, if r.is_ok() { "did not panic" } else { "panicked" }, len, cap2, N);
    // ---------- slices ----------
    let mut buf = make_vec::<T>(c);
    let ptr = buf.as_ptr() as usize;
    match cast::try_from_component_slice::<C>(&buf) {
        Ok(cs) => {
            ensure!(multiple, "{}: try_from_component_slice accepted length {}", what, len);
            ensure!(cs.as_ptr() as usize == ptr && cs.len() == len / N, "{}: try_from_component_slice: ptr/len", what);
            let comps = cast::into_component_slice(cs);
            ensure!(comps.as_ptr() as usize == ptr && comps.len() == len, "{}: into_component_slice: ptr/len", what);
            let arrays = cast::into_array_slice(cs);
            ensure!(arrays.as_ptr() as usize == ptr && arrays.len() == len / N, "{}: into_array_slice: ptr/len", what);
            let back = cast::from_array_slice::<C>(arrays);
            ensure!(back.as_ptr() as usize == ptr && back.len() == len / N, "{}: from_array_slice: ptr/len", what);
            // trait forms
            let t: &[C] = buf.components_as();
            ensure!(t.as_ptr() as usize == ptr && t.len() == len / N, "{}: ComponentsAs", what);
            let t: &[T] = t.as_components();
            ensure!(t.as_ptr() as usize == ptr && t.len() == len, "{}: AsComponents", what);
            let t: &[[T; N]] = cs.as_arrays();
            ensure!(t.as_ptr() as usize == ptr && t.len() == len / N, "{}: AsArrays", what);
            let t: &[C] = t.arrays_as();
            ensure!(t.as_ptr() as usize == ptr && t.len() == len / N, "{}: ArraysAs", what);
            let t: &[C] = <&[C]>::try_from_components(&buf[..]).map_err(|_| Fail::new(format!("{}: TryFromComponents(&[T]) rejected a valid slice", what)))?;
            ensure!(t.as_ptr() as usize == ptr, "{}: TryFromComponents(&[T]) moved", what);
        }
        Err(_) => ensure!(!multiple, "{}: try_from_component_slice rejected length {} (component count {})", what, len, N),
    }
    let r: Result<&[C], _> = buf.try_components_as();
    ensure!(r.is_ok() == multiple, "{}: TryComponentsAs accepted = {} for length {}", what, r.is_ok(), len);
    {
        let bref = &buf;
        let r = no_panic(|| cast::from_component_slice::<C>(bref).len());
        ensure!(r.is_ok() == multiple, "{}: from_component_slice {} for length {}", what, if r.is_ok() { "did not panic" } else { "panicked" }, len);
    }
    // a write through the mutable view is visible through the original
    if multiple && len > 0 {
        let at = c.write_at % len;
        let val = T::from_u64(c.write_val);
        {
            let cs = cast::try_from_component_slice_mut::<C>(&mut buf).map_err(|_| Fail::new(format!("{}: try_from_component_slice_mut rejected a valid slice", what)))?;
            ensure!(cs.as_ptr() as usize == ptr && cs.len() == len / N, "{}: try_from_component_slice_mut: ptr/len", what);
            let comps = cast::into_component_slice_mut(cs);
            ensure!(comps.as_ptr() as usize == ptr && comps.len() == len, "{}: into_component_slice_mut: ptr/len", what);
            comps[at] = val;
        }
        ensure!(buf[at].to_u64() == val.to_u64(), "{}: write through the mutable cast is not visible in the buffer", what);
        {
            let cs = cast::from_component_slice_mut::<C>(&mut buf);
            let arrays = cast::into_array_slice_mut(cs);
            ensure!(arrays.as_ptr() as usize == ptr, "{}: into_array_slice_mut moved", what);
            arrays[at / N][at % N] = T::from_u64(c.write_val ^ 1);
            let cs = cast::from_array_slice_mut::<C>(arrays);
            let f = fields(&cs[at / N]);
            ensure!(f[at % N].to_u64() == T::from_u64(c.write_val ^ 1).to_u64(), "{}: write through the array view not visible through the colour fields", what);
        }
        ensure!(buf[at].to_u64() == T::from_u64(c.write_val ^ 1).to_u64(), "{}: second write not visible", what);
        let t: &mut [T] = cast::from_component_slice_mut::<C>(&mut buf).as_components_mut();
        t[at] = T::from_u64(want_bits[at]);
        ensure!(bits_of(&buf) == want_bits, "{}: data differs after restoring the written component", what);
    } else if !multiple {
        ensure!(cast::try_from_component_slice_mut::<C>(&mut buf).is_err(), "{}: try_from_component_slice_mut accepted length {}", what, len);
    }
    // ---------- boxed slices ----------
    let b: Box<[T]> = make_vec::<T>(c).into_boxed_slice();
    let ptr = b.as_ptr() as usize;
    match cast::try_from_component_slice_box::<C>(b) {
        Ok(cs) => {
            ensure!(multiple, "{}: try_from_component_slice_box accepted length {}", what, len);
            ensure!(cs.as_ptr() as usize == ptr && cs.len() == len / N, "{}: try_from_component_slice_box: ptr/len", what);
            let arrays = cast::into_array_slice_box(cs);
            ensure!(arrays.as_ptr() as usize == ptr && arrays.len() == len / N, "{}: into_array_slice_box: ptr/len", what);
            let cs = cast::from_array_slice_box::<C>(arrays);
            let comps = cast::into_component_slice_box(cs);
            ensure!(comps.as_ptr() as usize == ptr && comps.len() == len && bits_of(&comps) == want_bits, "{}: boxed slice round trip changed ptr/len/data", what);
            let cs: Box<[C]> = comps.components_into();
            let comps: Box<[T]> = cs.into_components();
            ensure!(comps.as_ptr() as usize == ptr && bits_of(&comps) == want_bits, "{}: boxed slice trait forms", what);
        }
        Err(e) => {
            ensure!(!multiple, "{}: try_from_component_slice_box rejected length {}", what, len);
            ensure!(e.values.as_ptr() as usize == ptr && e.values.len() == len && bits_of(&e.values) == want_bits, "{}: rejected boxed slice was not handed back unchanged", what);
        }
    }
    // ---------- single values, references, boxes, arrays of colours ----------
    if len >= N {
        let mut arr = [T::from_u64(0); N];
        arr.copy_from_slice(&make_vec::<T>(c)[..N]);
        let col: C = cast::from_array(arr);
        ensure!(bits_of(&fields(&col)) == want_bits[..N], "{}: from_array({:?}) has fields {:?}", what, bits_of(&arr), bits_of(&fields(&col)));
        let r = cast::into_array_ref(&col);
        ensure!(r as *const [T; N] as usize == &col as *const C as usize && bits_of(r) == want_bits[..N], "{}: into_array_ref", what);
        let back = cast::from_array_ref::<C>(r);
        ensure!(back as *const C as usize == &col as *const C as usize, "{}: from_array_ref", what);
        let arr2 = cast::into_array(col);
        ensure!(bits_of(&arr2) == want_bits[..N], "{}: into_array(from_array(x)) != x", what);
        let mut col: C = cast::from_array(arr2);
        let p = &col as *const C as usize;
        let m = cast::into_array_mut(&mut col);
        ensure!(m as *mut [T; N] as usize == p, "{}: into_array_mut moved", what);
        m[N - 1] = T::from_u64(c.write_val);
        ensure!(fields(&col)[N - 1].to_u64() == T::from_u64(c.write_val).to_u64(), "{}: write through into_array_mut not visible", what);
        let m2 = cast::from_array_mut::<C>(cast::into_array_mut(&mut col));
        ensure!(m2 as *mut C as usize == p, "{}: from_array_mut moved", what);
        // Box<T>
        let boxed = Box::new(cast::from_array::<C>(arr));
        let p = &*boxed as *const C as usize;
        let ab = cast::into_array_box(boxed);
        ensure!(&*ab as *const [T; N] as usize == p, "{}: into_array_box copied the colour to a new allocation", what);
        ensure!(bits_of(&*ab) == want_bits[..N], "{}: into_array_box altered the data", what);
        let cb = cast::from_array_box::<C>(ab);
        ensure!(&*cb as *const C as usize == p, "{}: from_array_box copied the colour to a new allocation", what);
        ensure!(bits_of(&fields(&cb)) == want_bits[..N], "{}: from_array_box altered the data", what);
        // arrays of colours
        if len >= 2 * N {
            let v = make_vec::<T>(c);
            let mut a2 = [[T::from_u64(0); N]; 2];
            a2[0].copy_from_slice(&v[..N]);
            a2[1].copy_from_slice(&v[N..2 * N]);
            let cols: [C; 2] = cast::from_array_array(a2);
            ensure!(bits_of(&fields(&cols[1])) == want_bits[N..2 * N], "{}: from_array_array order", what);
            let back: [[T; N]; 2] = cast::into_array_array(cols);
            ensure!(bits_of(&back[0]) == want_bits[..N] && bits_of(&back[1]) == want_bits[N..2 * N], "{}: into_array_array", what);
            let cols: [C; 2] = cast::from_array_array(back);
            let back = <[[T; N]; 2]>::arrays_from(cols);
            let cols: [C; 2] = back.arrays_into();
            let back: [[T; N]; 2] = cols.into_arrays();
            ensure!(bits_of(&back[1]) == want_bits[N..2 * N], "{}: ArraysFrom/ArraysInto/IntoArrays on arrays", what);
        }
    }
    Ok(())
}

fn check_uint<C, U>(name: &str, c: &Case, obs: &mut Obs) -> PropResult
where
    C: UintCast<Uint = U> + 'static,
    U: Bits,
{
    let what = format!("{} as {}", name, U::NAME);
    ensure!(std::mem::size_of::<C>() == std::mem::size_of::<U>() && std::mem::align_of::<C>() == std::mem::align_of::<U>(), "{}: size/align", what);
    let v = make_vec::<U>(c);
    let want = bits_of(&v);
    let (ptr, len, cap) = (v.as_ptr() as usize, v.len(), v.capacity());
    obs.nontrivial_if(len >= 1 && cap != len);
    let cols = cast::from_uint_vec::<C>(v);
    ensure!(cols.as_ptr() as usize == ptr && cols.len() == len, "{}: from_uint_vec ptr/len", what);
    ensure!(cols.capacity() == cap, "{}: from_uint_vec capacity {} expected {} (len {})", what, cols.capacity(), cap, len);
    let back = cast::into_uint_vec(cols);
    ensure!(back.as_ptr() as usize == ptr && back.len() == len && back.capacity() == cap && bits_of(&back) == want, "{}: into_uint_vec ptr/len/cap/data", what);
    let b = back.into_boxed_slice();
    let ptr = b.as_ptr() as usize;
    let cb = cast::from_uint_slice_box::<C>(b);
    ensure!(cb.as_ptr() as usize == ptr && cb.len() == len, "{}: from_uint_slice_box", what);
    let b = cast::into_uint_slice_box(cb);
    ensure!(b.as_ptr() as usize == ptr && bits_of(&b) == want, "{}: into_uint_slice_box", what);
    let mut v: Vec<U> = b.into_vec();
    let ptr = v.as_ptr() as usize;
    let s = cast::from_uint_slice::<C>(&v);
    ensure!(s.as_ptr() as usize == ptr && s.len() == len, "{}: from_uint_slice", what);
    let u = cast::into_uint_slice(s);
    ensure!(u.as_ptr() as usize == ptr && u.len() == len, "{}: into_uint_slice", what);
    if len > 0 {
        let at = c.write_at % len;
        let sm = cast::from_uint_slice_mut::<C>(&mut v);
        let um = cast::into_uint_slice_mut(sm);
        um[at] = U::from_u64(c.write_val);
        ensure!(v[at].to_u64() == U::from_u64(c.write_val).to_u64(), "{}: write through the uint view not visible", what);
        let one: C = cast::from_uint(v[at]);
        ensure!(cast::into_uint(one).to_u64() == v[at].to_u64(), "{}: from_uint/into_uint round trip", what);
        let mut one: C = cast::from_uint(v[0]);
        let p = &one as *const C as usize;
        ensure!(cast::into_uint_ref(&one) as *const U as usize == p && cast::into_uint_mut(&mut one) as *mut U as usize == p, "{}: into_uint_ref/mut moved", what);
        let arr: [C; 2] = cast::from_uint_array([v[0], v[at]]);
        let back: [U; 2] = cast::into_uint_array(arr);
        ensure!(back[0].to_u64() == v[0].to_u64() && back[1].to_u64() == v[at].to_u64(), "{}: uint array round trip", what);
    }
    Ok(())
}

pub type CheckFn = fn(&Case, &mut Obs) -> PropResult;
pub struct Entry {
    pub name: &'static str,
    pub n: usize,
    /// component width in bits
    pub width: u32,
    pub f: CheckFn,
}

macro_rules! ent {
    ($name:literal, $C:ty, $T:ty, $N:expr, |$c:ident| [$($f:expr),*]) => {{
        fn fields($c: &$C) -> [$T; $N] { [$($f),*] }
        fn run(c: &Case, obs: &mut Obs) -> PropResult { check::<$C, $T, $N>($name, fields, c, obs) }
        Entry { name: $name, n: $N, width: (std::mem::size_of::<$T>() * 8) as u32, f: run }
    }};
}
macro_rules! uent {
    ($name:literal, $C:ty, $U:ty) => {{
        fn run(c: &Case, obs: &mut Obs) -> PropResult { check_uint::<$C, $U>($name, c, obs) }
        Entry { name: $name, n: 1, width: (std::mem::size_of::<$U>() * 8) as u32, f: run }
    }};
}

pub fn entries() -> Vec<Entry> {
    type S = encoding::Srgb;
    vec![
        ent!("Rgb", Srgb<u8>, u8, 3, |c| [c.red, c.green, c.blue]),
        ent!("Rgb", Srgb<u16>, u16, 3, |c| [c.red, c.green, c.blue]),
        ent!("Rgb", Srgb<u32>, u32, 3, |c| [c.red, c.green, c.blue]),
        ent!("Rgb", Srgb<f32>, f32, 3, |c| [c.red, c.green, c.blue]),
        ent!("Rgb", Srgb<f64>, f64, 3, |c| [c.red, c.green, c.blue]),
        ent!("Rgba", Alpha<Srgb<u8>, u8>, u8, 4, |c| [c.color.red, c.color.green, c.color.blue, c.alpha]),
        ent!("Rgba", Alpha<Srgb<u16>, u16>, u16, 4, |c| [c.color.red, c.color.green, c.color.blue, c.alpha]),
        ent!("Rgba", Alpha<Srgb<f32>, f32>, f32, 4, |c| [c.color.red, c.color.green, c.color.blue, c.alpha]),
        ent!("Rgba", Alpha<Srgb<f64>, f64>, f64, 4, |c| [c.color.red, c.color.green, c.color.blue, c.alpha]),
        ent!("PreAlpha<Rgb>", PreAlpha<Srgb<f32>>, f32, 4, |c| [c.color.red, c.color.green, c.color.blue, c.alpha]),
        ent!("PreAlpha<Xyz>", PreAlpha<Xyz<D65, f64>>, f64, 4, |c| [c.color.x, c.color.y, c.color.z, c.alpha]),
        ent!("Luma", SrgbLuma<u8>, u8, 1, |c| [c.luma]),
        ent!("Luma", SrgbLuma<u16>, u16, 1, |c| [c.luma]),
        ent!("Luma", SrgbLuma<f32>, f32, 1, |c| [c.luma]),
        ent!("Lumaa", Alpha<SrgbLuma<u8>, u8>, u8, 2, |c| [c.color.luma, c.alpha]),
        ent!("Lumaa", Alpha<SrgbLuma<f64>, f64>, f64, 2, |c| [c.color.luma, c.alpha]),
        ent!("Hsl", Hsl<S, f32>, f32, 3, |c| [c.hue.into_inner(), c.saturation, c.lightness]),
        ent!("Hsl", Hsl<S, f64>, f64, 3, |c| [c.hue.into_inner(), c.saturation, c.lightness]),
        ent!("Hsla", Alpha<Hsl<S, f32>, f32>, f32, 4, |c| [c.color.hue.into_inner(), c.color.saturation, c.color.lightness, c.alpha]),
        ent!("Hsv", Hsv<S, f32>, f32, 3, |c| [c.hue.into_inner(), c.saturation, c.value]),
        ent!("Hsv<u8 hue>", Hsv<S, u8>, u8, 3, |c| [c.hue.into_inner(), c.saturation, c.value]),
        ent!("Hwb", Hwb<S, f64>, f64, 3, |c| [c.hue.into_inner(), c.whiteness, c.blackness]),
        ent!("Hwba", Alpha<Hwb<S, f32>, f32>, f32, 4, |c| [c.color.hue.into_inner(), c.color.whiteness, c.color.blackness, c.alpha]),
        ent!("Lab", Lab<D65, f32>, f32, 3, |c| [c.l, c.a, c.b]),
        ent!("Laba", Alpha<Lab<D65, f64>, f64>, f64, 4, |c| [c.color.l, c.color.a, c.color.b, c.alpha]),
        ent!("Lch", Lch<D65, f32>, f32, 3, |c| [c.l, c.chroma, c.hue.into_inner()]),
        ent!("Lcha", Alpha<Lch<D65, f64>, f64>, f64, 4, |c| [c.color.l, c.color.chroma, c.color.hue.into_inner(), c.alpha]),
        ent!("Luv", Luv<D65, f64>, f64, 3, |c| [c.l, c.u, c.v]),
        ent!("Lchuv", Lchuv<D65, f32>, f32, 3, |c| [c.l, c.chroma, c.hue.into_inner()]),
        ent!("Hsluv", Hsluv<D65, f32>, f32, 3, |c| [c.hue.into_inner(), c.saturation, c.l]),
        ent!("Hsluva", Alpha<Hsluv<D65, f64>, f64>, f64, 4, |c| [c.color.hue.into_inner(), c.color.saturation, c.color.l, c.alpha]),
        ent!("Xyz", Xyz<D65, f32>, f32, 3, |c| [c.x, c.y, c.z]),
        ent!("Yxy", Yxy<D65, f64>, f64, 3, |c| [c.x, c.y, c.luma]),
        ent!("Yxya", Alpha<Yxy<D65, f32>, f32>, f32, 4, |c| [c.color.x, c.color.y, c.color.luma, c.alpha]),
        ent!("Oklab", Oklab<f32>, f32, 3, |c| [c.l, c.a, c.b]),
        ent!("Oklch", Oklch<f64>, f64, 3, |c| [c.l, c.chroma, c.hue.into_inner()]),
        ent!("Oklcha", Alpha<Oklch<f32>, f32>, f32, 4, |c| [c.color.l, c.color.chroma, c.color.hue.into_inner(), c.alpha]),
        ent!("Okhsl", Okhsl<f32>, f32, 3, |c| [c.hue.into_inner(), c.saturation, c.lightness]),
        ent!("Okhsv", Okhsv<f64>, f64, 3, |c| [c.hue.into_inner(), c.saturation, c.value]),
        ent!("Okhwb", Okhwb<f32>, f32, 3, |c| [c.hue.into_inner(), c.whiteness, c.blackness]),
        ent!("Okhwba", Alpha<Okhwb<f64>, f64>, f64, 4, |c| [c.color.hue.into_inner(), c.color.whiteness, c.color.blackness, c.alpha]),
        ent!("Lms", Lms<VonKries, f32>, f32, 3, |c| [c.long, c.medium, c.short]),
        ent!("Cam16Jch", Cam16Jch<f32>, f32, 3, |c| [c.lightness, c.chroma, c.hue.into_inner()]),
        ent!("Cam16Qsh", Cam16Qsh<f64>, f64, 3, |c| [c.brightness, c.saturation, c.hue.into_inner()]),
        ent!("Cam16UcsJab", Cam16UcsJab<f32>, f32, 3, |c| [c.lightness, c.a, c.b]),
        ent!("Cam16UcsJmh", Cam16UcsJmh<f64>, f64, 3, |c| [c.lightness, c.colorfulness, c.hue.into_inner()]),
        ent!("Cam16UcsJmha", Alpha<Cam16UcsJmh<f32>, f32>, f32, 4, |c| [c.color.lightness, c.color.colorfulness, c.color.hue.into_inner(), c.alpha]),
        ent!("Packed<Rgba,[u8;4]>", Packed<RgbaOrder, [u8; 4]>, u8, 4, |c| [c.color[0], c.color[1], c.color[2], c.color[3]]),
        ent!("Packed<Argb,[u16;4]>", Packed<Argb, [u16; 4]>, u16, 4, |c| [c.color[0], c.color[1], c.color[2], c.color[3]]),
        uent!("Packed<Rgba,u32>", Packed<RgbaOrder, u32>, u32),
        uent!("Packed<Abgr,u32>", Packed<Abgr, u32>, u32),
        uent!("Packed<Argb,u64>", Packed<Argb, u64>, u64),
        uent!("Packed<La,u16>", Packed<palette::luma::channels::La, u16>, u16),
        uent!("Packed<Al,u8>", Packed<palette::luma::channels::Al, u8>, u8),
        uent!("Luma<u8>", SrgbLuma<u8>, u8),
        uent!("Luma<u16>", SrgbLuma<u16>, u16),
        uent!("Luma<u32>", SrgbLuma<u32>, u32),
        uent!("Luma<u64>", SrgbLuma<u64>, u64),
    ]
}

fn main() {
    let mut h = Harness::new("C04");
    let ents: &'static [Entry] = Box::leak(entries().into_boxed_slice());
    h.rule("59 (cast type, component type) combinations (all colour structs, Alpha, PreAlpha, Packed arrays; UintCast for Packed and Luma) x generated component buffers of length 0..40 with independent extra capacity 0..9 and arbitrary bit patterns (NaN payloads included) x owned / & / &mut / [T;N] / slices / Box / Box<[T]> / Vec forms through the free functions and the trait forms. Oracle: same address, exact length and capacity scaling, components in declared field order with alpha last (read through the public fields), bitwise round trip, writes through mutable views visible, rejection exactly when length (Vec: or capacity) is not a multiple of the component count with the right error kind and the buffer handed back unchanged, panicking forms panic exactly then. Non-trivial = non-empty buffer with capacity != length or length not a multiple; distinct by hash.");
    h.assume("memory-safety half (wrong from_raw_parts layout that still yields the right values) is decided by running the same generated cases under Miri in the thorough tier (stages/c04.sh)");
    h.extra("types", serde_json::json!(ents.iter().map(|e| format!("{} ({} x {} bit)", e.name, e.n, e.width)).collect::<Vec<_>>()));
    let n = h.n(3_000_000, 60_000_000);
    let miri = std::env::var("PV_MIRI").is_ok();
    let n = if miri { 120 } else { n };
    h.prop(
        "cast_forms",
        n,
        || {
            (0..ents.len()).prop_flat_map(|ty| {
                let k = ents[ty].n;
                let mask = if ents[ty].width >= 64 { u64::MAX } else { (1u64 << ents[ty].width) - 1 };
                // lengths: multiples of the component count half of the time
                let len = prop_oneof![4 => (0usize..=10).prop_map(move |m| m * k), 3 => 0usize..=40, 1 => Just(0usize)];
                let word = prop_oneof![4 => any::<u64>(), 1 => Just(0u64), 1 => Just(u64::MAX), 1 => Just(0x7fc0_0001_7ff8_0000u64), 1 => Just(0x3f80_0000u64)];
                (len, 0usize..=9, any::<usize>(), any::<u64>(), proptest::collection::vec(word, 40)).prop_map(move |(len, extra_cap, write_at, write_val, words)| Case {
                    ty,
                    bits: words.into_iter().take(len).map(|w| w & mask).collect(),
                    extra_cap,
                    write_at,
                    write_val: write_val & mask,
                })
            })
        },
        |c, obs| (ents[c.ty].f)(c, obs),
    );
    if !miri {
        h.require_class("cast_forms", "vec: capacity not a multiple", 1000);
    }
    h.finish();
}
