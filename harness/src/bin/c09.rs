//! C09 — colour difference measures satisfy their defining formulas and metric laws.
use palette::cam16::{Cam16UcsJab, Cam16UcsJmh};
use palette::color_difference::{Ciede2000, DeltaE, EuclideanDistance, HyAb, ImprovedCiede2000, ImprovedDeltaE, Wcag21RelativeContrast};
use palette::white_point::D65;
use palette::{Lab, Lch, LinLuma, LinSrgb, Luv, Oklab, Srgb, SrgbLuma, Xyz, Yxy};
use proptest::prelude::*;
use pv::ensure;
use pv::reference::difference as rf;
use pv::runner::{Fail, Harness, Obs, PropResult};
use serde::{Deserialize, Serialize};

#[derive(Debug, Clone, Serialize, Deserialize)]
struct LabPair {
    a: [f64; 3],
    b: [f64; 3],
}

fn close(got: f64, want: f64, abs: f64, rel: f64) -> bool {
    (got - want).abs() <= abs + rel * want.abs()
}

/// Lab pair: CIEDE2000 against Sharma, closed forms, metric laws (f64 and f32)
fn lab_point(c: &LabPair, obs: &mut Obs) -> PropResult {
    let (p, q) = (c.a, c.b);
    let r = rf::ciede2000(p, q);
    // classes
    let same = p == q;
    let achrom = p[1].hypot(p[2]) == 0.0 || q[1].hypot(q[2]) == 0.0;
    let wrap = r.hue_gap.map_or(false, |g| g > 180.0);
    obs.class(if same { "identical" } else if achrom { "achromatic member" } else if wrap { "hue wrap (|dh'| > 180)" } else { "plain" });
    if wrap && r.hue_sum >= 360.0 {
        obs.class("wrap with h1'+h2' >= 360 (third mean-hue branch)");
    }
    obs.nontrivial_if(!same && (wrap || achrom || r.hue_gap.map_or(false, |g| g > 150.0)));
    // the formula jumps where |dh'| crosses 180 and (slightly) where h1'+h2' crosses 360
    let near_jump = |band: f64| r.hue_gap.map_or(false, |g| (g - 180.0).abs() < band || (g > 180.0 && (r.hue_sum - 360.0).abs() < band));
    let (la, lb) = (Lab::<D65, f64>::new(p[0], p[1], p[2]), Lab::<D65, f64>::new(q[0], q[1], q[2]));
    let d = la.difference(lb);
    let dr = lb.difference(la);
    ensure!(d >= 0.0 && d.is_finite(), "CIEDE2000({:?},{:?}) = {}", p, q, d);
    if !near_jump(1e-7) {
        obs.err("ciede2000_f64_abs", (d - r.de).abs());
        if !close(d, r.de, 1e-9, 1e-9) {
            let key = if close(d, r.de_two_branch, 1e-9, 1e-9) && wrap && r.hue_sum >= 360.0 { Some("C09:mean-hue-minus-360-branch") } else { None };
            let msg = format!("Lab CIEDE2000({:?},{:?}) = {} but Sharma's formula gives {} (diff {:e})", p, q, d, r.de, d - r.de);
            return Err(match key {
                Some(k) => Fail::keyed(k, msg),
                None => Fail::new(msg),
            });
        }
        ensure!((d - dr).abs() <= 1e-12 * (1.0 + d), "CIEDE2000 not symmetric: d(a,b)={} d(b,a)={} for {:?},{:?}", d, dr, p, q);
    }
    ensure!(la.difference(la) == 0.0, "CIEDE2000(a,a) = {} for {:?}", la.difference(la), p);
    let imp = la.improved_difference(lb);
    ensure!(close(imp, rf::improved_ciede(d), 1e-12, 1e-12), "improved CIEDE2000 = {} but 1.43 * dE^0.7 = {}", imp, rf::improved_ciede(d));
    // closed forms
    let de = la.delta_e(lb);
    let want = rf::euclid(&p, &q);
    ensure!(close(de, want, 1e-12, 1e-13), "Lab delta_e({:?},{:?}) = {} expected {}", p, q, de, want);
    ensure!(de.to_bits() == lb.delta_e(la).to_bits() && la.delta_e(la) == 0.0, "delta_e not symmetric / not zero on identical colours");
    ensure!(close(la.distance(lb), want, 1e-12, 1e-13) && close(la.distance_squared(lb), want * want, 1e-12, 1e-13), "Lab distance / distance_squared differ from the Euclidean closed form");
    let ide = la.improved_delta_e(lb);
    ensure!(close(ide, rf::improved_delta_e(want), 1e-11, 1e-12), "improved delta_e = {} but 1.26 * dE^0.55 = {}", ide, rf::improved_delta_e(want));
    ensure!(la.improved_delta_e(la) == 0.0 && ide.to_bits() == lb.improved_delta_e(la).to_bits(), "improved delta_e laws");
    let hy = la.hybrid_distance(lb);
    ensure!(close(hy, rf::hyab(p, q), 1e-12, 1e-13), "Lab HyAB({:?},{:?}) = {} expected {}", p, q, hy, rf::hyab(p, q));
    ensure!(hy.to_bits() == lb.hybrid_distance(la).to_bits() && la.hybrid_distance(la) == 0.0 && hy >= 0.0, "HyAB laws");
    // f32
    let (pf, qf) = ([p[0] as f32, p[1] as f32, p[2] as f32], [q[0] as f32, q[1] as f32, q[2] as f32]);
    let (pw, qw) = ([pf[0] as f64, pf[1] as f64, pf[2] as f64], [qf[0] as f64, qf[1] as f64, qf[2] as f64]);
    let rfw = rf::ciede2000(pw, qw);
    let near_jump32 = rfw.hue_gap.map_or(false, |g| (g - 180.0).abs() < 2e-2 || (g > 180.0 && (rfw.hue_sum - 360.0).abs() < 2e-2));
    let (fa, fb) = (Lab::<D65, f32>::new(pf[0], pf[1], pf[2]), Lab::<D65, f32>::new(qf[0], qf[1], qf[2]));
    let df = fa.difference(fb) as f64;
    ensure!(df >= 0.0 && df.is_finite(), "f32 CIEDE2000 = {}", df);
    if !near_jump32 {
        obs.err("ciede2000_f32_abs", (df - rfw.de).abs());
        ensure!(close(df, rfw.de, 2e-3, 2e-4), "Lab<f32> CIEDE2000({:?},{:?}) = {} but Sharma's formula gives {}", pf, qf, df, rfw.de);
        ensure!((df - fb.difference(fa) as f64).abs() <= 2e-3, "f32 CIEDE2000 not symmetric");
    }
    ensure!(fa.difference(fa) == 0.0, "f32 CIEDE2000(a,a) != 0");
    ensure!(close(fa.delta_e(fb) as f64, rf::euclid(&pw, &qw), 1e-4, 1e-6), "Lab<f32> delta_e");
    ensure!(close(fa.hybrid_distance(fb) as f64, rf::hyab(pw, qw), 1e-4, 1e-6), "Lab<f32> HyAB");
    ensure!(fa.delta_e(fa) == 0.0 && fa.hybrid_distance(fa) == 0.0, "f32 identical colours");
    Ok(())
}

#[derive(Debug, Clone, Serialize, Deserialize)]
struct LchPair {
    a: [f64; 3],
    b: [f64; 3],
}

/// polar forms equal the rectangular ones
fn lch_point(c: &LchPair, obs: &mut Obs) -> PropResult {
    let (p, q) = (c.a, c.b);
    let (pl, ql) = (rf::lch_to_lab(p), rf::lch_to_lab(q));
    let r = rf::ciede2000(pl, ql);
    let wrap = r.hue_gap.map_or(false, |g| g > 180.0);
    obs.class(if wrap { "hue wrap (|dh'| > 180)" } else { "no wrap" });
    obs.nontrivial_if(p != q);
    let near_jump = r.hue_gap.map_or(false, |g| (g - 180.0).abs() < 1e-6 || (g > 180.0 && (r.hue_sum - 360.0).abs() < 1e-6));
    let (a, b) = (Lch::<D65, f64>::new(p[0], p[1], p[2]), Lch::<D65, f64>::new(q[0], q[1], q[2]));
    let d = a.difference(b);
    if !near_jump {
        obs.err("lch_ciede2000_abs", (d - r.de).abs());
        if !close(d, r.de, 1e-8, 1e-9) {
            let msg = format!("Lch CIEDE2000({:?},{:?}) = {} but the rectangular reference gives {}", p, q, d, r.de);
            if close(d, r.de_two_branch, 1e-8, 1e-9) && wrap && r.hue_sum >= 360.0 {
                return Err(Fail::keyed("C09:mean-hue-minus-360-branch", msg));
            }
            return Err(Fail::new(msg));
        }
        let viapal = Lab::<D65, f64>::new(pl[0], pl[1], pl[2]).difference(Lab::<D65, f64>::new(ql[0], ql[1], ql[2]));
        ensure!(close(d, viapal, 1e-8, 1e-9), "Lch CIEDE2000 {} != Lab CIEDE2000 {} on the converted pair", d, viapal);
        ensure!((d - b.difference(a)).abs() <= 1e-9 * (1.0 + d), "Lch CIEDE2000 not symmetric");
    }
    ensure!(a.difference(a) == 0.0, "Lch CIEDE2000(a,a) = {}", a.difference(a));
    let want = rf::euclid(&pl, &ql);
    ensure!(close(a.delta_e(b), want, 1e-10, 1e-12), "Lch delta_e({:?},{:?}) = {} expected {}", p, q, a.delta_e(b), want);
    ensure!(close(a.improved_delta_e(b), rf::improved_delta_e(want), 1e-9, 1e-11), "Lch improved delta_e");
    ensure!(close(a.improved_difference(b), rf::improved_ciede(d), 1e-12, 1e-12), "Lch improved CIEDE2000");
    ensure!(a.delta_e(a) == 0.0 && (a.delta_e(b) - b.delta_e(a)).abs() <= 1e-12 * (1.0 + want), "Lch delta_e laws");
    // hue given with extra turns is the same colour
    let a2 = Lch::<D65, f64>::new(p[0], p[1], p[2] + 720.0);
    ensure!(close(a2.delta_e(b), want, 1e-9, 1e-11), "Lch delta_e changes under +720 degrees");
    // CAM16-UCS: Jmh == Jab
    let (jm1, jm2) = (Cam16UcsJmh::<f64>::new(p[0], p[1] * 0.4, p[2]), Cam16UcsJmh::<f64>::new(q[0], q[1] * 0.4, q[2]));
    let (ja, jb) = (rf::lch_to_lab([p[0], p[1] * 0.4, p[2]]), rf::lch_to_lab([q[0], q[1] * 0.4, q[2]]));
    let wj = rf::euclid(&ja, &jb);
    ensure!(close(jm1.delta_e(jm2), wj, 1e-10, 1e-12), "Cam16UcsJmh delta_e = {} expected {}", jm1.delta_e(jm2), wj);
    // Huang et al.: 1.41 dE^0.63 for CAM02/CAM16-UCS (1.26 dE^0.55 is the CIELAB pair)
    ensure!(close(jm1.improved_delta_e(jm2), 1.41 * wj.powf(0.63), 1e-9, 1e-11), "Cam16UcsJmh improved delta_e = {} expected 1.41 dE^0.63 = {}", jm1.improved_delta_e(jm2), 1.41 * wj.powf(0.63));
    let (jab1, jab2) = (Cam16UcsJab::<f64>::new(ja[0], ja[1], ja[2]), Cam16UcsJab::<f64>::new(jb[0], jb[1], jb[2]));
    ensure!(close(jab1.delta_e(jab2), wj, 1e-12, 1e-13) && close(jab1.hybrid_distance(jab2), rf::hyab(ja, jb), 1e-12, 1e-13), "Cam16UcsJab delta_e / HyAB closed forms");
    ensure!(close(jab1.improved_delta_e(jab2), 1.41 * wj.powf(0.63), 1e-11, 1e-12), "Cam16UcsJab improved delta_e = {} expected 1.41 dE^0.63 = {}", jab1.improved_delta_e(jab2), 1.41 * wj.powf(0.63));
    ensure!(jab1.delta_e(jab1) == 0.0 && jm1.delta_e(jm1) == 0.0 && jab1.delta_e(jab2).to_bits() == jab2.delta_e(jab1).to_bits(), "CAM16-UCS metric laws");
    // f32 Lch
    let (af, bf) = (Lch::<D65, f32>::new(p[0] as f32, p[1] as f32, p[2] as f32), Lch::<D65, f32>::new(q[0] as f32, q[1] as f32, q[2] as f32));
    let (plf, qlf) = (rf::lch_to_lab([p[0] as f32 as f64, p[1] as f32 as f64, p[2] as f32 as f64]), rf::lch_to_lab([q[0] as f32 as f64, q[1] as f32 as f64, q[2] as f32 as f64]));
    let rw = rf::ciede2000(plf, qlf);
    let nj = rw.hue_gap.map_or(false, |g| (g - 180.0).abs() < 5e-2 || (g > 180.0 && (rw.hue_sum - 360.0).abs() < 5e-2));
    // a raw hue of many turns loses absolute precision in f32: the angle in radians is only known
    // to ulp(|h|), which moves (a, b) by chroma * ulp(|h|)
    let hue_slack = (p[1] * p[2].abs().to_radians() + q[1] * q[2].abs().to_radians()) * 2.4e-7;
    if !nj {
        ensure!(close(af.difference(bf) as f64, rw.de, 5e-3 + hue_slack, 5e-4), "Lch<f32> CIEDE2000({:?},{:?}) = {} reference {}", p, q, af.difference(bf), rw.de);
    }
    ensure!(close(af.delta_e(bf) as f64, rf::euclid(&plf, &qlf), 2e-3 + hue_slack, 1e-5), "Lch<f32> delta_e({:?},{:?}) = {} reference {}", p, q, af.delta_e(bf), rf::euclid(&plf, &qlf));
    Ok(())
}

#[derive(Debug, Clone, Serialize, Deserialize)]
struct BoxPair {
    a: [f64; 3],
    b: [f64; 3],
}

/// closed forms for the remaining implementors (unit-cube points mapped into each box) + WCAG
fn box_point(c: &BoxPair, obs: &mut Obs) -> PropResult {
    let (p, q) = (c.a, c.b);
    obs.nontrivial_if(p != q);
    macro_rules! euclid3 {
        ($name:expr, $mk:expr, $scale:expr) => {{
            let (x, y) = ($mk(p), $mk(q));
            let sp: Vec<f64> = $scale(p).to_vec();
            let sq: Vec<f64> = $scale(q).to_vec();
            let want = rf::euclid(&sp, &sq);
            let d = x.distance(y);
            ensure!(close(d, want, 1e-12, 1e-12), "{} distance = {} expected {}", $name, d, want);
            ensure!(close(x.distance_squared(y), want * want, 1e-12, 1e-12), "{} distance_squared", $name);
            ensure!(d >= 0.0 && d.to_bits() == y.distance(x).to_bits() && x.distance(x) == 0.0, "{} metric laws", $name);
        }};
    }
    let id = |t: [f64; 3]| t;
    euclid3!("Srgb", |t: [f64; 3]| Srgb::<f64>::new(t[0], t[1], t[2]), id);
    euclid3!("LinSrgb", |t: [f64; 3]| LinSrgb::<f64>::new(t[0], t[1], t[2]), id);
    euclid3!("Xyz", |t: [f64; 3]| Xyz::<D65, f64>::new(t[0], t[1], t[2]), id);
    euclid3!("Yxy", |t: [f64; 3]| Yxy::<D65, f64>::new(t[0], t[1], t[2]), id);
    let luv = |t: [f64; 3]| [100.0 * t[0], 260.0 * t[1] - 84.0, 243.0 * t[2] - 135.0];
    euclid3!("Luv", |t: [f64; 3]| { let v = luv(t); Luv::<D65, f64>::new(v[0], v[1], v[2]) }, luv);
    let ok = |t: [f64; 3]| [t[0], 0.8 * t[1] - 0.4, 0.8 * t[2] - 0.4];
    euclid3!("Oklab", |t: [f64; 3]| { let v = ok(t); Oklab::<f64>::new(v[0], v[1], v[2]) }, ok);
    euclid3!("Lms", |t: [f64; 3]| palette::lms::Lms::<palette::lms::matrix::VonKries, f64>::new(t[0], t[1], t[2]), id);
    let (lu, lv) = (Luv::<D65, f64>::new(luv(p)[0], luv(p)[1], luv(p)[2]), Luv::<D65, f64>::new(luv(q)[0], luv(q)[1], luv(q)[2]));
    ensure!(close(lu.hybrid_distance(lv), rf::hyab(luv(p), luv(q)), 1e-12, 1e-13), "Luv HyAB");
    let (o1, o2) = (Oklab::<f64>::new(ok(p)[0], ok(p)[1], ok(p)[2]), Oklab::<f64>::new(ok(q)[0], ok(q)[1], ok(q)[2]));
    ensure!(close(o1.hybrid_distance(o2), rf::hyab(ok(p), ok(q)), 1e-13, 1e-13), "Oklab HyAB");
    ensure!(o1.hybrid_distance(o1) == 0.0 && lu.hybrid_distance(lu) == 0.0, "HyAB identical");
    let (l1, l2) = (SrgbLuma::<f64>::new(p[0]), SrgbLuma::<f64>::new(q[0]));
    ensure!(close(l1.distance(l2), (p[0] - q[0]).abs(), 1e-15, 1e-15), "Luma distance");
    // ---- WCAG 2.1 ----
    let (s1, s2) = (Srgb::<f64>::new(p[0], p[1], p[2]), Srgb::<f64>::new(q[0], q[1], q[2]));
    let ratio = s1.relative_contrast(s2);
    let want = rf::wcag_contrast(rf::wcag_luminance(p), rf::wcag_luminance(q));
    obs.err("wcag_ratio_rel", ((ratio - want) / want).abs());
    ensure!(ratio.to_bits() == s2.relative_contrast(s1).to_bits(), "relative_contrast not symmetric: {} vs {}", ratio, s2.relative_contrast(s1));
    ensure!(ratio >= 1.0 && ratio <= 21.0 * (1.0 + 1e-6), "relative_contrast({:?},{:?}) = {} outside [1, 21]", p, q, ratio);
    ensure!(close(ratio, want, 0.0, 2e-3), "Srgb relative_contrast({:?},{:?}) = {} but (L1+0.05)/(L2+0.05) = {}", p, q, ratio, want);
    let lum = s1.relative_luminance().luma;
    ensure!(close(lum, rf::wcag_luminance(p), 1e-4, 1e-3), "relative_luminance({:?}) = {} expected {}", p, lum, rf::wcag_luminance(p));
    macro_rules! preds {
        ($x:expr, $y:expr, $r:expr, $name:expr) => {{
            let (x, y, r) = ($x, $y, $r);
            ensure!(x.has_min_contrast_text(y) == (r >= 4.5), "{}: has_min_contrast_text disagrees with ratio {}", $name, r);
            ensure!(x.has_min_contrast_large_text(y) == (r >= 3.0), "{}: has_min_contrast_large_text disagrees with ratio {}", $name, r);
            ensure!(x.has_enhanced_contrast_text(y) == (r >= 7.0), "{}: has_enhanced_contrast_text disagrees with ratio {}", $name, r);
            ensure!(x.has_enhanced_contrast_large_text(y) == (r >= 4.5), "{}: has_enhanced_contrast_large_text disagrees with ratio {}", $name, r);
            ensure!(x.has_min_contrast_graphics(y) == (r >= 3.0), "{}: has_min_contrast_graphics disagrees with ratio {}", $name, r);
        }};
    }
    preds!(s1, s2, ratio, "Srgb<f64>");
    let (f1, f2) = (Srgb::<f32>::new(p[0] as f32, p[1] as f32, p[2] as f32), Srgb::<f32>::new(q[0] as f32, q[1] as f32, q[2] as f32));
    let rf32 = f1.relative_contrast(f2);
    ensure!(close(rf32 as f64, want, 0.0, 3e-3) && rf32 >= 1.0 && rf32 <= 21.001 && rf32.to_bits() == f2.relative_contrast(f1).to_bits(), "Srgb<f32> relative_contrast = {} expected {}", rf32, want);
    preds!(f1, f2, rf32, "Srgb<f32>");
    let lin = |c: f64| if c <= 0.04045 { c / 12.92 } else { ((c + 0.055) / 1.055).powf(2.4) };
    let (n1, n2) = (LinSrgb::<f64>::new(lin(p[0]), lin(p[1]), lin(p[2])), LinSrgb::<f64>::new(lin(q[0]), lin(q[1]), lin(q[2])));
    let rl = n1.relative_contrast(n2);
    ensure!(close(rl, want, 0.0, 2e-3) && rl.to_bits() == n2.relative_contrast(n1).to_bits(), "LinSrgb relative_contrast = {} expected {}", rl, want);
    preds!(n1, n2, rl, "LinSrgb<f64>");
    let (m1, m2) = (SrgbLuma::<f64>::new(p[0]), SrgbLuma::<f64>::new(q[0]));
    let rm = m1.relative_contrast(m2);
    let wm = rf::wcag_contrast(lin(p[0]), lin(q[0]));
    ensure!(close(rm, wm, 0.0, 1e-9) && rm >= 1.0 && rm <= 21.0 * (1.0 + 1e-12), "SrgbLuma relative_contrast = {} expected {}", rm, wm);
    preds!(m1, m2, rm, "SrgbLuma<f64>");
    let (k1, k2) = (LinLuma::<D65, f64>::new(p[1]), LinLuma::<D65, f64>::new(q[1]));
    let rk = k1.relative_contrast(k2);
    ensure!(close(rk, rf::wcag_contrast(p[1], q[1]), 0.0, 1e-12), "LinLuma relative_contrast");
    preds!(k1, k2, rk, "LinLuma<f64>");
    // ---- the older `RelativeContrast` trait (deprecated but public; the only WCAG API of the non-RGB spaces) ----
    {
        use palette::convert::FromColorUnclamped;
        use palette::{Hsl, Hsluv, Hsv, Hwb, Lchuv, Okhsl, Okhwb, Oklch};
        macro_rules! old {
            ($name:expr, $C:ty, $tol:expr) => {{
                let (a, b): ($C, $C) = (<$C>::from_color_unclamped(s1), <$C>::from_color_unclamped(s2));
                old_wcag($name, a, b, want, $tol)?;
            }};
        }
        old!("Srgb<f64>", Srgb<f64>, 2e-3);
        old!("LinSrgb<f64>", LinSrgb<f64>, 2e-3);
        old!("Rgb<AdobeRgb>", palette::rgb::Rgb<palette::encoding::AdobeRgb, f64>, 2e-3);
        old!("Rgb<Rec2020>", palette::rgb::Rgb<palette::encoding::Rec2020, f64>, 2e-3);
        old!("Rgb<DisplayP3>", palette::rgb::Rgb<palette::encoding::DisplayP3, f64>, 2e-3);
        old!("Hsl", Hsl<palette::encoding::Srgb, f64>, 2e-3);
        old!("Hsv", Hsv<palette::encoding::Srgb, f64>, 2e-3);
        old!("Hwb", Hwb<palette::encoding::Srgb, f64>, 2e-3);
        old!("Xyz", Xyz<D65, f64>, 2e-3);
        old!("Yxy", Yxy<D65, f64>, 2e-3);
        old!("Lab", Lab<D65, f64>, 2e-3);
        old!("Lch", Lch<D65, f64>, 2e-3);
        old!("Luv", Luv<D65, f64>, 2e-3);
        old!("Lchuv", Lchuv<D65, f64>, 2e-3);
        old!("Hsluv", Hsluv<D65, f64>, 2e-3);
        old!("Oklab", Oklab<f64>, 3e-3);
        old!("Oklch", Oklch<f64>, 3e-3);
        old!("Okhsl", Okhsl<f64>, 3e-3);
        old!("Okhwb", Okhwb<f64>, 3e-3);
        old_wcag("SrgbLuma<f64>", m1, m2, wm, 1e-9)?;
        old_wcag("LinLuma<f64>", k1, k2, rf::wcag_contrast(p[1], q[1]), 1e-12)?;
        #[allow(deprecated)]
        {
            let r = palette::contrast_ratio(p[1], q[1]);
            ensure!(close(r, rf::wcag_contrast(p[1], q[1]), 0.0, 1e-12) && r.to_bits() == palette::contrast_ratio(q[1], p[1]).to_bits(), "contrast_ratio({}, {}) = {}", p[1], q[1], r);
        }
    }
    Ok(())
}

/// the deprecated trait: ratio symmetric, in [1, 21], equal to (L1 + 0.05) / (L2 + 0.05), and each of its five threshold
/// predicates equal to "ratio >= threshold" (4.5, 3, 7, 4.5, 3) for the ratio the trait itself reports
#[allow(deprecated)]
fn old_wcag<C: palette::RelativeContrast<Scalar = f64> + Copy + core::fmt::Debug>(name: &str, a: C, b: C, want: f64, rel: f64) -> PropResult {
    use palette::RelativeContrast as RC;
    let r = RC::get_contrast_ratio(a, b);
    let r2 = RC::get_contrast_ratio(b, a);
    ensure!(r.to_bits() == r2.to_bits(), "{}: RelativeContrast::get_contrast_ratio is not symmetric: {} vs {} ({:?}, {:?})", name, r, r2, a, b);
    ensure!(r >= 1.0 && r <= 21.0 * (1.0 + 1e-6), "{}: get_contrast_ratio = {} outside [1, 21] ({:?}, {:?})", name, r, a, b);
    ensure!(close(r, want, 0.0, rel), "{}: get_contrast_ratio({:?}, {:?}) = {} but (L1+0.05)/(L2+0.05) = {}", name, a, b, r, want);
    ensure!(RC::has_min_contrast_text(a, b) == (r >= 4.5), "{}: RelativeContrast::has_min_contrast_text disagrees with ratio {}", name, r);
    ensure!(RC::has_min_contrast_large_text(a, b) == (r >= 3.0), "{}: RelativeContrast::has_min_contrast_large_text disagrees with ratio {}", name, r);
    ensure!(RC::has_enhanced_contrast_text(a, b) == (r >= 7.0), "{}: RelativeContrast::has_enhanced_contrast_text disagrees with ratio {}", name, r);
    ensure!(RC::has_enhanced_contrast_large_text(a, b) == (r >= 4.5), "{}: RelativeContrast::has_enhanced_contrast_large_text disagrees with ratio {}", name, r);
    ensure!(RC::has_min_contrast_graphics(a, b) == (r >= 3.0), "{}: RelativeContrast::has_min_contrast_graphics disagrees with ratio {}", name, r);
    Ok(())
}

fn lab_color() -> BoxedStrategy<[f64; 3]> {
    let l = prop_oneof![4 => 0.0..=100.0f64, 1 => Just(50.0), 1 => Just(0.0), 1 => Just(100.0), 1 => 48.0..=52.0f64];
    let ab = prop_oneof![
        8 => (-128.0..=127.0f64, -128.0..=127.0f64).prop_map(|(a, b)| (a, b)),
        2 => Just((0.0, 0.0)),
        // exactly on an axis (b = 0 with a < 0 is hue 180, a = 0 is hue 90 / 270): the hue special cases of the formula
        2 => (-128.0..=127.0f64, any::<bool>(), any::<bool>()).prop_map(|(t, on_a, neg0)| { let z = if neg0 { -0.0 } else { 0.0 }; if on_a { (t, z) } else { (z, t) } }),
        1 => (-1e-9..=1e-9f64, -1e-9..=1e-9f64).prop_map(|(a, b)| (a, b)),
        // both colours next to the neutral axis (G -> 0.5, a' = 1.5 a)
        1 => (-0.02..=0.02f64, -0.02..=0.02f64).prop_map(|(a, b)| (a, b)),
        4 => (0.0..=128.0f64, pv::gen::hue()).prop_map(|(c, h)| (c * h.to_radians().cos(), c * h.to_radians().sin())),
        2 => (20.0..=30.0f64, pv::gen::hue()).prop_map(|(c, h)| (c * h.to_radians().cos(), c * h.to_radians().sin())),
        2 => (0.0..=128.0f64, 265.0..=285.0f64).prop_map(|(c, h)| (c * h.to_radians().cos(), c * h.to_radians().sin())),
    ];
    (l, ab).prop_map(|(l, (a, b))| [l, a, b]).boxed()
}

fn lab_pair() -> BoxedStrategy<LabPair> {
    prop_oneof![
        6 => (lab_color(), lab_color()).prop_map(|(a, b)| LabPair { a, b }),
        1 => lab_color().prop_map(|a| LabPair { a, b: a }),
        // hues straddling 0/360
        4 => (0.0..=100.0f64, 0.0..=100.0f64, 1.0..=128.0f64, 1.0..=128.0f64, 330.0..360.0f64, 0.0..30.0f64, any::<bool>()).prop_map(|(l1, l2, c1, c2, h1, h2, swap)| {
            let a = [l1, c1 * h1.to_radians().cos(), c1 * h1.to_radians().sin()];
            let b = [l2, c2 * h2.to_radians().cos(), c2 * h2.to_radians().sin()];
            if swap { LabPair { a: b, b: a } } else { LabPair { a, b } }
        }),
        // |dh| around 180 (the exact jump is excluded inside the property)
        3 => (0.0..=100.0f64, 0.0..=100.0f64, 1.0..=128.0f64, 1.0..=128.0f64, 0.0..360.0f64, prop_oneof![-20.0..=20.0f64, -1e-3..=1e-3f64], any::<bool>()).prop_map(|(l1, l2, c1, c2, h1, d, swap)| {
            let h2 = h1 + 180.0 + d;
            let a = [l1, c1 * h1.to_radians().cos(), c1 * h1.to_radians().sin()];
            let b = [l2, c2 * h2.to_radians().cos(), c2 * h2.to_radians().sin()];
            if swap { LabPair { a: b, b: a } } else { LabPair { a, b } }
        }),
        // wrap pairs with large hue sum (h1 + h2 >= 360) and big chroma difference: the R_T region
        3 => (0.0..=100.0f64, 0.0..=100.0f64, 1.0..=128.0f64, 1.0..=128.0f64, 181.0..360.0f64, 0.0..179.0f64, any::<bool>()).prop_map(|(l1, l2, c1, c2, h1, h2, swap)| {
            let a = [l1, c1 * h1.to_radians().cos(), c1 * h1.to_radians().sin()];
            let b = [l2, c2 * h2.to_radians().cos(), c2 * h2.to_radians().sin()];
            if swap { LabPair { a: b, b: a } } else { LabPair { a, b } }
        }),
        // same hue, one achromatic
        2 => (lab_color(), 0.0..=100.0f64).prop_map(|(a, l)| LabPair { a, b: [l, 0.0, 0.0] }),
    ]
    .boxed()
}

fn main() {
    let mut h = Harness::new("C09");
    if let Err(e) = rf::self_check() {
        println!("INCONCLUSIVE property=C09 reference self-check failed: {}", e);
        std::process::exit(2);
    }
    h.rule("pairs of L*a*b* colours over the nominal box in structured classes (identical, achromatic member, hues straddling 0/360, |dh| around 180 but not within 1e-7 deg of it, mean hue near 275, mean chroma near 25, L near 50, wrap pairs with h1'+h2' >= 360), Lch/CAM16-UCS polar pairs, and unit-cube pairs mapped into Rgb/Xyz/Yxy/Luv/Oklab/Lms/Luma for the closed forms and WCAG; f64 and f32. Oracles: Sharma's CIEDE2000 (self-checked against the 34 published pairs), closed forms, polar == rectangular, d >= 0, symmetry, d(a,a) == 0, WCAG ratio in [1,21], symmetric, predicates <=> ratio thresholds. Non-trivial = colours differ and the pair wraps, has an achromatic member or |dh'| > 150; distinct by hash.");
    h.assume("CIEDE2000 is compared at 1e-9 (f64) / 2e-3 (f32); pairs within 1e-7 deg (f64) / 2e-2 deg (f32) of the formula's own jumps (|dh'| = 180, h1'+h2' = 360 on the wrap branch) are excluded as the statement allows; WCAG luminance coefficients 0.2126/0.7152/0.0722 vs. the sRGB matrix row: 2e-3 relative");
    let n = h.n(10_000_000, 200_000_000);
    h.prop("lab_pairs", n, lab_pair, lab_point);
    let n = h.n(4_000_000, 80_000_000);
    h.prop(
        "polar_pairs",
        n,
        || {
            let col = || (prop_oneof![4 => 0.0..=100.0f64, 1 => Just(0.0), 1 => Just(100.0)], prop_oneof![6 => 0.0..=128.0f64, 1 => Just(0.0), 1 => 1e-9..=1e-6f64], pv::gen::hue()).prop_map(|(l, c, h)| [l, c, h]);
            prop_oneof![
                5 => (col(), col()).prop_map(|(a, b)| LchPair { a, b }),
                1 => col().prop_map(|a| LchPair { a, b: a }),
                2 => (col(), 0.0..=100.0f64, 0.0..=128.0f64, -30.0..=30.0f64).prop_map(|(a, l, c, d)| LchPair { a, b: [l, c, a[2] + 180.0 + d] }),
                2 => (col(), 0.0..=100.0f64, 0.0..=128.0f64, -30.0..=30.0f64, -3i32..=3).prop_map(|(a, l, c, d, k)| LchPair { a, b: [l, c, a[2] + d + 360.0 * k as f64] }),
            ]
        },
        lch_point,
    );
    let n = h.n(4_000_000, 80_000_000);
    h.prop(
        "closed_forms_and_wcag",
        n,
        || {
            let c = || proptest::array::uniform3(prop_oneof![6 => pv::gen::unit(), 2 => (0u32..=255).prop_map(|k| k as f64 / 255.0)]);
            prop_oneof![
                6 => (c(), c()).prop_map(|(a, b)| BoxPair { a, b }),
                1 => c().prop_map(|a| BoxPair { a, b: a }),
                1 => Just(BoxPair { a: [1.0; 3], b: [0.0; 3] }),
                // grey pairs whose contrast ratio sits near a predicate threshold
                3 => (pv::gen::unit(), prop_oneof![Just(3.0), Just(4.5), Just(7.0)], -1e-3..=1e-3f64).prop_map(|(g, t, d)| {
                    let lin = |c: f64| if c <= 0.04045 { c / 12.92 } else { ((c + 0.055) / 1.055).powf(2.4) };
                    let enc = |l: f64| if l <= 0.0031308 { 12.92 * l } else { 1.055 * l.powf(1.0 / 2.4) - 0.055 };
                    let l2 = ((lin(g) + 0.05) * (t + d) - 0.05).clamp(0.0, 1.0);
                    let e = enc(l2);
                    BoxPair { a: [g, g, g], b: [e, e, e] }
                }),
            ]
        },
        box_point,
    );
    h.require_class("lab_pairs", "wrap with h1'+h2' >= 360 (third mean-hue branch)", 1000);
    h.finish();
}
