//! C07 — finite valid colours never produce NaN, infinity or a panic.
use palette::blend::{Blend, Compose, PreAlpha, Premultiply};
use palette::color_difference::{Ciede2000, DeltaE, EuclideanDistance, HyAb, ImprovedCiede2000, ImprovedDeltaE, Wcag21RelativeContrast};
use palette::white_point::D65;
use palette::{Alpha, Lab, Lch, LinSrgb, LinSrgba, Luv, Oklab, Srgb, SrgbLuma, Xyz};
use proptest::prelude::*;
use pv::ops::{operators, Args, Kind, Op};
use pv::runner::{no_panic, Fail, Harness, Obs, PropResult};
use pv::types::{conversions, lattice, lattice_values, nominal_box, space_info, Comp, Conv, SPACE_NAMES};
use serde::{Deserialize, Serialize};

const ALPHAS: [f64; 4] = [0.0, 1e-9, 0.5, 1.0];
static SUMMARY: std::sync::Mutex<std::collections::BTreeMap<String, u64>> = std::sync::Mutex::new(std::collections::BTreeMap::new());

#[derive(Debug, Clone, Serialize, Deserialize)]
struct ConvCase {
    conv: usize,
    comps: [f64; 3],
    alpha: f64,
}

fn finite(v: &[f64]) -> bool {
    v.iter().all(|x| x.is_finite())
}
fn f32s(c: [f64; 3]) -> [f32; 3] {
    [c[0] as f32, c[1] as f32, c[2] as f32]
}
fn w(c: [f32; 3]) -> [f64; 3] {
    [c[0] as f64, c[1] as f64, c[2] as f64]
}

/// space index of the linear form of a pure power-law RGB standard (the open finding's key)
fn power_law_target(convs: &[Conv], b: usize) -> Option<(&'static str, usize)> {
    let name = SPACE_NAMES[b];
    let (key, lin) = if name.contains("AdobeRgb") && !name.starts_with("Lin") {
        ("AdobeRgb", "LinAdobeRgb")
    } else if name == "DciP3" {
        ("P3Gamma", "LinDciP3")
    } else {
        return None;
    };
    let _ = convs;
    Some((key, SPACE_NAMES.iter().position(|n| *n == lin).unwrap()))
}

/// is the colour outside the target's RGB gamut on the negative side (so that a pure power law
/// sees a negative base)? decided by converting to the *linear* form of the standard, via XYZ
fn negative_in_linear(convs: &[Conv], a: usize, comps: [f64; 3], lin: usize) -> bool {
    let xyz_idx = |n: &str| SPACE_NAMES.iter().position(|s| *s == n).unwrap();
    // direct conversion to the linear space if it exists, otherwise through Xyz<D65> / Xyz<DciWhite>
    let find = |x: usize, y: usize| convs.iter().find(|c| c.a == x && c.b == y);
    let lin_rgb = if let Some(c) = find(a, lin) {
        Some((c.u64_)(comps))
    } else {
        let mut r = None;
        for via in ["Xyz", "Xyz<DciWhite>", "AdobeRgb", "Srgb"] {
            let v = xyz_idx(via);
            if let (Some(c1), Some(c2)) = (find(a, v), find(v, lin)) {
                r = Some((c2.u64_)((c1.u64_)(comps)));
                break;
            }
        }
        r
    };
    match lin_rgb {
        Some(l) => l.iter().any(|x| *x < 0.0),
        None => false,
    }
}

fn conv_point_with(convs: &[Conv], c: &ConvCase, obs: &mut Obs) -> PropResult {
    let cv = &convs[c.conv];
    let (an, bn) = (SPACE_NAMES[cv.a], SPACE_NAMES[cv.b]);
    let comps = c.comps;
    let keyed = |what: &str, out: &[f64]| -> Fail {
        let mut key = None;
        if let Some((k, lin)) = power_law_target(convs, cv.b) {
            if negative_in_linear(convs, cv.a, comps, lin) {
                key = Some(format!("C07:power-law-tf-negative:{}", k));
            }
        }
        let msg = format!("{} {}{:?} -> {} = {:?} (non-finite)", what, an, comps, bn, out);
        match key {
            Some(k) => Fail::keyed(k, msg),
            None => Fail::new(msg),
        }
    };
    macro_rules! run {
        ($what:expr, $e:expr) => {{
            match no_panic(|| $e) {
                Ok(v) => {
                    if !finite(&v) {
                        return Err(keyed($what, &v));
                    }
                }
                Err(p) => return Err(Fail::keyed("panic", format!("{} {}{:?} -> {} panicked: {}", $what, an, comps, bn, p))),
            }
        }};
    }
    run!("f64 unclamped", (cv.u64_)(comps).to_vec());
    run!("f64 clamped", (cv.c64)(comps).to_vec());
    run!("f64 try", (cv.t64)(comps).1.to_vec());
    run!("f64 alpha", (cv.a64)([comps[0], comps[1], comps[2], c.alpha]).to_vec());
    run!("f64 alpha clamped", (cv.ac64)([comps[0], comps[1], comps[2], c.alpha]).to_vec());
    run!("f32 unclamped", w((cv.u32_)(f32s(comps))).to_vec());
    run!("f32 clamped", w((cv.c32)(f32s(comps))).to_vec());
    run!("f32 try", w((cv.t32)(f32s(comps)).1).to_vec());
    run!("f32 alpha", (cv.a32)([comps[0] as f32, comps[1] as f32, comps[2] as f32, c.alpha as f32]).iter().map(|x| *x as f64).collect::<Vec<f64>>());
    let info = space_info(cv.a);
    let on_bound = comps.iter().zip(info.comps.iter()).any(|(v, k)| match k {
        Comp::Lin(a, b) => *v == *a || *v == *b || *v == 0.0 || (*v - *a).abs() <= 1e-9 * (b - a) || (*v - *b).abs() <= 1e-9 * (b - a),
        Comp::Hue => (*v / 60.0).fract() == 0.0,
        Comp::None => false,
    });
    obs.nontrivial_if(on_bound);
    Ok(())
}

// ---------------- operators ----------------
#[derive(Debug, Clone, Serialize, Deserialize)]
struct OpCase {
    op: usize,
    a: [f64; 3],
    b: [f64; 3],
    f: f64,
    alpha_a: f64,
    alpha_b: f64,
}

const FACTORS: [f64; 13] = [-1.0, -0.5, -1e-9, 0.0, 1e-9, 0.25, 0.5, 1.0 - 1e-9, 1.0, 1.0 + 1e-9, 1.5, 2.0, 0.75];

fn op_point_with(ops: &[Op], c: &OpCase, obs: &mut Obs) -> PropResult {
    let op = &ops[c.op];
    let name = SPACE_NAMES[op.space];
    if matches!(op.kind, Kind::Div) && c.b.iter().any(|x| x.abs() < 1e-300 || (*x as f32) == 0.0) {
        obs.class("division by a zero component (IEEE result, outside the property)");
        return Ok(());
    }
    if matches!(op.kind, Kind::Div) && (c.alpha_b as f32) == 0.0 {
        obs.class("division by a zero component (IEEE result, outside the property)");
        return Ok(());
    }
    if matches!(op.kind, Kind::DivScalar) && (c.f.abs() < 1e-300 || (c.f as f32) == 0.0) {
        obs.class("division by a zero component (IEEE result, outside the property)");
        return Ok(());
    }
    let args = Args { a: c.a, b: c.b, f: c.f, alpha_a: c.alpha_a, alpha_b: c.alpha_b };
    for (prec, f) in [("f64", op.f64_), ("f32", op.f32_)] {
        match no_panic(|| f(&args)) {
            Ok(variants) => {
                for (label, out) in variants {
                    if !finite(&out) {
                        return Err(Fail::new(format!("{:?} on {}<{}> a={:?} b={:?} factor={:e} alpha={:e}: variant '{}' = {:?} (non-finite)", op.kind, name, prec, c.a, c.b, c.f, c.alpha_a, label, out)));
                    }
                }
            }
            Err(p) => return Err(Fail::keyed("panic", format!("{:?} on {}<{}> a={:?} b={:?} factor={:e} panicked: {}", op.kind, name, prec, c.a, c.b, c.f, p))),
        }
    }
    Ok(())
}

// ---------------- blending / compositing / premultiply ----------------
#[derive(Debug, Clone, Serialize, Deserialize)]
struct BlendCase {
    s: [f64; 4],
    d: [f64; 4],
}

macro_rules! blend_all {
    ($out:ident, $label:expr, $a:expr, $b:expr, $to:expr) => {{
        let (a, b) = ($a, $b);
        $out.push((concat!($label, " multiply"), $to(a.multiply(b))));
        $out.push((concat!($label, " screen"), $to(a.screen(b))));
        $out.push((concat!($label, " overlay"), $to(a.overlay(b))));
        $out.push((concat!($label, " darken"), $to(a.darken(b))));
        $out.push((concat!($label, " lighten"), $to(a.lighten(b))));
        $out.push((concat!($label, " dodge"), $to(a.dodge(b))));
        $out.push((concat!($label, " burn"), $to(a.burn(b))));
        $out.push((concat!($label, " hard_light"), $to(a.hard_light(b))));
        $out.push((concat!($label, " soft_light"), $to(a.soft_light(b))));
        $out.push((concat!($label, " difference"), $to(a.difference(b))));
        $out.push((concat!($label, " exclusion"), $to(a.exclusion(b))));
    }};
}
macro_rules! compose_all {
    ($out:ident, $label:expr, $a:expr, $b:expr, $to:expr) => {{
        let (a, b) = ($a, $b);
        $out.push((concat!($label, " over"), $to(a.over(b))));
        $out.push((concat!($label, " inside"), $to(a.inside(b))));
        $out.push((concat!($label, " outside"), $to(a.outside(b))));
        $out.push((concat!($label, " atop"), $to(a.atop(b))));
        $out.push((concat!($label, " xor"), $to(a.xor(b))));
        $out.push((concat!($label, " plus"), $to(a.plus(b))));
    }};
}

fn blend_point(c: &BlendCase, obs: &mut Obs) -> PropResult {
    obs.nontrivial();
    let (s, d) = (c.s, c.d);
    let r = no_panic(|| {
        let mut out: Vec<(&'static str, Vec<f64>)> = Vec::new();
        // f64
        let a4 = |x: LinSrgba<f64>| vec![x.red, x.green, x.blue, x.alpha];
        let p4 = |x: PreAlpha<LinSrgb<f64>>| vec![x.color.red, x.color.green, x.color.blue, x.alpha];
        let c3 = |x: LinSrgb<f64>| vec![x.red, x.green, x.blue];
        let sa = LinSrgba::<f64>::new(s[0], s[1], s[2], s[3]);
        let da = LinSrgba::<f64>::new(d[0], d[1], d[2], d[3]);
        blend_all!(out, "LinSrgba<f64>", sa, da, a4);
        compose_all!(out, "LinSrgba<f64>", sa, da, a4);
        blend_all!(out, "PreAlpha<LinSrgb<f64>>", sa.premultiply(), da.premultiply(), p4);
        compose_all!(out, "PreAlpha<LinSrgb<f64>>", sa.premultiply(), da.premultiply(), p4);
        blend_all!(out, "LinSrgb<f64>", sa.color, da.color, c3);
        compose_all!(out, "LinSrgb<f64>", sa.color, da.color, c3);
        out.push(("premultiply/unpremultiply f64", a4(sa.premultiply().unpremultiply())));
        out.push(("unpremultiply raw f64", a4(PreAlpha { color: sa.color, alpha: s[3] }.unpremultiply())));
        // f32
        let a4 = |x: LinSrgba<f32>| vec![x.red as f64, x.green as f64, x.blue as f64, x.alpha as f64];
        let p4 = |x: PreAlpha<LinSrgb<f32>>| vec![x.color.red as f64, x.color.green as f64, x.color.blue as f64, x.alpha as f64];
        let sa = LinSrgba::<f32>::new(s[0] as f32, s[1] as f32, s[2] as f32, s[3] as f32);
        let da = LinSrgba::<f32>::new(d[0] as f32, d[1] as f32, d[2] as f32, d[3] as f32);
        blend_all!(out, "LinSrgba<f32>", sa, da, a4);
        compose_all!(out, "LinSrgba<f32>", sa, da, a4);
        blend_all!(out, "PreAlpha<LinSrgb<f32>>", sa.premultiply(), da.premultiply(), p4);
        out.push(("premultiply/unpremultiply f32", a4(sa.premultiply().unpremultiply())));
        // other colour types
        let x4 = |x: Alpha<Xyz<D65, f64>, f64>| vec![x.x, x.y, x.z, x.alpha];
        let (xs, xd) = (Alpha::<Xyz<D65, f64>, f64>::new(s[0], s[1], s[2], s[3]), Alpha::<Xyz<D65, f64>, f64>::new(d[0], d[1], d[2], d[3]));
        blend_all!(out, "Xyza<f64>", xs, xd, x4);
        compose_all!(out, "Xyza<f64>", xs, xd, x4);
        let l2 = |x: Alpha<SrgbLuma<f64>, f64>| vec![x.luma, x.alpha];
        let (ls, ld) = (Alpha::<SrgbLuma<f64>, f64>::new(s[0], s[3]), Alpha::<SrgbLuma<f64>, f64>::new(d[0], d[3]));
        blend_all!(out, "Lumaa<f64>", ls, ld, l2);
        compose_all!(out, "Lumaa<f64>", ls, ld, l2);
        let lab4 = |x: Alpha<Lab<D65, f64>, f64>| vec![x.l, x.a, x.b, x.alpha];
        let (bs, bd) = (Alpha::<Lab<D65, f64>, f64>::new(100.0 * s[0], 255.0 * s[1] - 128.0, 255.0 * s[2] - 128.0, s[3]), Alpha::<Lab<D65, f64>, f64>::new(100.0 * d[0], 255.0 * d[1] - 128.0, 255.0 * d[2] - 128.0, d[3]));
        compose_all!(out, "Laba<f64>", bs, bd, lab4);
        let ok4 = |x: Alpha<Oklab<f32>, f32>| vec![x.l as f64, x.a as f64, x.b as f64, x.alpha as f64];
        let (os, od) = (Alpha::<Oklab<f32>, f32>::new(s[0] as f32, (0.8 * s[1] - 0.4) as f32, (0.8 * s[2] - 0.4) as f32, s[3] as f32), Alpha::<Oklab<f32>, f32>::new(d[0] as f32, (0.8 * d[1] - 0.4) as f32, (0.8 * d[2] - 0.4) as f32, d[3] as f32));
        compose_all!(out, "Oklaba<f32>", os, od, ok4);
        out
    });
    match r {
        Ok(out) => {
            for (label, v) in out {
                if !finite(&v) {
                    return Err(Fail::new(format!("{} of source {:?} over backdrop {:?} = {:?} (non-finite)", label, s, d, v)));
                }
            }
            Ok(())
        }
        Err(p) => Err(Fail::keyed("panic", format!("blend of {:?} / {:?} panicked: {}", s, d, p))),
    }
}

// ---------------- colour differences ----------------
#[derive(Debug, Clone, Serialize, Deserialize)]
struct DiffCase {
    a: [f64; 3],
    b: [f64; 3],
}

/// a, b are points of the unit cube lattice; mapped into each space's nominal box
fn diff_point(c: &DiffCase, obs: &mut Obs) -> PropResult {
    obs.nontrivial();
    let (p, q) = (c.a, c.b);
    let r = no_panic(|| {
        let mut out: Vec<(&'static str, f64)> = Vec::new();
        let lab = |t: [f64; 3]| Lab::<D65, f64>::new(100.0 * t[0], 255.0 * t[1] - 128.0, 255.0 * t[2] - 128.0);
        let labf = |t: [f64; 3]| Lab::<D65, f32>::new((100.0 * t[0]) as f32, (255.0 * t[1] - 128.0) as f32, (255.0 * t[2] - 128.0) as f32);
        let lch = |t: [f64; 3]| Lch::<D65, f64>::new(100.0 * t[0], 128.0 * t[1], 360.0 * t[2]);
        let lchf = |t: [f64; 3]| Lch::<D65, f32>::new((100.0 * t[0]) as f32, (128.0 * t[1]) as f32, (360.0 * t[2]) as f32);
        let luv = |t: [f64; 3]| Luv::<D65, f64>::new(100.0 * t[0], 260.0 * t[1] - 84.0, 243.0 * t[2] - 135.0);
        let ok = |t: [f64; 3]| Oklab::<f64>::new(t[0], 0.8 * t[1] - 0.4, 0.8 * t[2] - 0.4);
        let jab = |t: [f64; 3]| palette::cam16::Cam16UcsJab::<f64>::new(100.0 * t[0], 100.0 * t[1] - 50.0, 100.0 * t[2] - 50.0);
        let jmh = |t: [f64; 3]| palette::cam16::Cam16UcsJmh::<f64>::new(100.0 * t[0], 50.0 * t[1], 360.0 * t[2]);
        out.push(("Lab ciede2000", lab(p).difference(lab(q))));
        out.push(("Lab<f32> ciede2000", labf(p).difference(labf(q)) as f64));
        out.push(("Lch ciede2000", lch(p).difference(lch(q))));
        out.push(("Lch<f32> ciede2000", lchf(p).difference(lchf(q)) as f64));
        out.push(("Lab improved ciede2000", lab(p).improved_difference(lab(q))));
        out.push(("Lab delta_e", lab(p).delta_e(lab(q))));
        out.push(("Lch delta_e", lch(p).delta_e(lch(q))));
        out.push(("Lab improved delta_e", lab(p).improved_delta_e(lab(q))));
        out.push(("Lch improved delta_e", lch(p).improved_delta_e(lch(q))));
        out.push(("Lab hyab", lab(p).hybrid_distance(lab(q))));
        out.push(("Luv hyab", luv(p).hybrid_distance(luv(q))));
        out.push(("Oklab hyab", ok(p).hybrid_distance(ok(q))));
        out.push(("Jab hyab", jab(p).hybrid_distance(jab(q))));
        out.push(("Jab delta_e", jab(p).delta_e(jab(q))));
        out.push(("Jmh delta_e", jmh(p).delta_e(jmh(q))));
        out.push(("Jab improved delta_e", jab(p).improved_delta_e(jab(q))));
        out.push(("Lab distance_squared", lab(p).distance_squared(lab(q))));
        out.push(("Luv distance", luv(p).distance(luv(q))));
        out.push(("Oklab distance", ok(p).distance(ok(q))));
        let (sp, sq) = (Srgb::<f64>::new(p[0], p[1], p[2]), Srgb::<f64>::new(q[0], q[1], q[2]));
        out.push(("Srgb distance", sp.distance(sq)));
        out.push(("Srgb relative_contrast", sp.relative_contrast(sq)));
        out.push(("Srgb<f32> relative_contrast", Srgb::<f32>::new(p[0] as f32, p[1] as f32, p[2] as f32).relative_contrast(Srgb::<f32>::new(q[0] as f32, q[1] as f32, q[2] as f32)) as f64));
        out.push(("LinSrgb relative_contrast", LinSrgb::<f64>::new(p[0], p[1], p[2]).relative_contrast(LinSrgb::<f64>::new(q[0], q[1], q[2]))));
        out.push(("Luma relative_contrast", SrgbLuma::<f64>::new(p[0]).relative_contrast(SrgbLuma::<f64>::new(q[0]))));
        let _ = sp.has_min_contrast_text(sq) && sp.has_enhanced_contrast_text(sq);
        out
    });
    match r {
        Ok(out) => {
            for (label, v) in out {
                if !v.is_finite() {
                    return Err(Fail::new(format!("{} between unit-lattice points {:?} and {:?} = {} (non-finite)", label, p, q, v)));
                }
            }
            Ok(())
        }
        Err(pn) => Err(Fail::keyed("panic", format!("difference of {:?} / {:?} panicked: {}", p, q, pn))),
    }
}

// ---------------- CAM16 ----------------
#[derive(Debug, Clone, Serialize, Deserialize)]
struct CamCase {
    vc: pv::cam::Vc,
    /// 0..6 partial types (Jch, Jmh, Jsh, Qch, Qmh, Qsh), 6 = XYZ -> CAM16 direction
    kind: u8,
    c: [f64; 3],
}

const CAM_VCS: [pv::cam::Vc; 6] = [
    pv::cam::Vc::DEFAULT,
    pv::cam::Vc { la: 40.0, yb: 0.2, surround: 1, sp: 0.0, disc: 0, dv: 1.0 },
    pv::cam::Vc { la: 4.0, yb: 0.05, surround: 0, sp: 0.0, disc: 0, dv: 1.0 },
    pv::cam::Vc { la: 1000.0, yb: 0.9, surround: 3, sp: 5.0, disc: 1, dv: 0.0 },
    pv::cam::Vc { la: 0.3, yb: 1.0, surround: 3, sp: 25.0, disc: 1, dv: 1.0 },
    pv::cam::Vc { la: 3000.0, yb: 1e-3, surround: 2, sp: 0.0, disc: 1, dv: 0.5 },
];

fn cam_point(c: &CamCase, obs: &mut Obs) -> PropResult {
    use palette::cam16::{Cam16, Cam16Jch, Cam16Jmh, Cam16Jsh, Cam16Qch, Cam16Qmh, Cam16Qsh};
    obs.nontrivial();
    let (vc, v) = (c.vc, c.c);
    let r = no_panic(|| {
        let mut out: Vec<(&'static str, Vec<f64>)> = Vec::new();
        let (p64, p32) = (pv::cam::baked64(&vc), pv::cam::baked32(&vc));
        let x3 = |x: Xyz<D65, f64>| vec![x.x, x.y, x.z];
        let x3f = |x: Xyz<D65, f32>| vec![x.x as f64, x.y as f64, x.z as f64];
        let full = |f: Cam16<f64>| vec![f.lightness, f.chroma, f.hue.into_raw_degrees(), f.brightness, f.colorfulness, f.saturation];
        let fullf = |f: Cam16<f32>| vec![f.lightness as f64, f.chroma as f64, f.hue.into_raw_degrees() as f64, f.brightness as f64, f.colorfulness as f64, f.saturation as f64];
        macro_rules! partial {
            ($P:ident, $label:expr) => {{
                let p = $P::<f64>::new(v[0], v[1], v[2]);
                out.push((concat!($label, " f64 into_xyz"), x3(p.into_xyz(p64))));
                out.push((concat!($label, " f64 into_full"), full(p.into_full(p64))));
                let p = $P::<f32>::new(v[0] as f32, v[1] as f32, v[2] as f32);
                out.push((concat!($label, " f32 into_xyz"), x3f(p.into_xyz(p32))));
                out.push((concat!($label, " f32 into_full"), fullf(p.into_full(p32))));
            }};
        }
        match c.kind {
            0 => partial!(Cam16Jch, "Cam16Jch"),
            1 => partial!(Cam16Jmh, "Cam16Jmh"),
            2 => partial!(Cam16Jsh, "Cam16Jsh"),
            3 => partial!(Cam16Qch, "Cam16Qch"),
            4 => partial!(Cam16Qmh, "Cam16Qmh"),
            5 => partial!(Cam16Qsh, "Cam16Qsh"),
            _ => {
                let f = Cam16::<f64>::from_xyz(Xyz::<D65, f64>::new(v[0], v[1], v[2]), p64);
                out.push(("Cam16 f64 from_xyz", full(f)));
                out.push(("Cam16 f64 from_xyz into_xyz", x3(f.into_xyz(p64))));
                let f = Cam16::<f32>::from_xyz(Xyz::<D65, f32>::new(v[0] as f32, v[1] as f32, v[2] as f32), p32);
                out.push(("Cam16 f32 from_xyz", fullf(f)));
                out.push(("Cam16 f32 from_xyz into_xyz", x3f(f.into_xyz(p32))));
                let j = Cam16Jsh::<f64>::from_xyz(Xyz::<D65, f64>::new(v[0], v[1], v[2]), p64);
                out.push(("Cam16Jsh f64 from_xyz", vec![j.lightness, j.saturation, j.hue.into_raw_degrees()]));
            }
        }
        out
    });
    match r {
        Ok(out) => {
            for (label, vals) in out {
                if !finite(&vals) {
                    let msg = format!("{} of {:?} under {:?} = {:?} (non-finite)", label, v, vc, vals);
                    if c.kind == 6 {
                        // the model's achromatic response is negative for some imaginary colours
                        // (inside the XYZ box, outside the spectral locus): J = 100 (A/Aw)^(cz) is undefined
                        let cond = pv::reference::cam16::Conditions { white: [0.95047, 1.0, 1.08883], la: vc.la, yb: vc.yb, surround_percent: vc.surround_percent(), discount: if vc.disc == 0 { None } else { Some(vc.dv) } };
                        let app = pv::reference::cam16::forward(v, &cond);
                        if app.a < 0.0 {
                            return Err(Fail::keyed("C07:cam16-negative-achromatic-response", msg));
                        }
                    }
                    if c.kind < 6 {
                        // non-realisable attribute combinations drive a post-adaptation response to
                        // |R'a| >= 400, where the inverse non-linearity (27.13|R'a|/(400-|R'a|))^(1/0.42) is undefined
                        use pv::reference::cam16::{Chr, Lum};
                        let cond = pv::reference::cam16::Conditions { white: [0.95047, 1.0, 1.08883], la: vc.la, yb: vc.yb, surround_percent: vc.surround_percent(), discount: if vc.disc == 0 { None } else { Some(vc.dv) } };
                        let lum = if c.kind < 3 { Lum::J(v[0]) } else { Lum::Q(v[0]) };
                        let chr = match c.kind % 3 { 0 => Chr::C(v[1]), 1 => Chr::M(v[1]), _ => Chr::S(v[1]) };
                        let (_, worst) = pv::reference::cam16::inverse(lum, chr, v[2], &cond);
                        if worst >= 400.0 {
                            return Err(Fail::keyed("C07:cam16-inverse-response-beyond-400", msg));
                        }
                    }
                    return Err(Fail::new(msg));
                }
            }
            Ok(())
        }
        Err(p) => Err(Fail::keyed("panic", format!("CAM16 kind {} of {:?} under {:?} panicked: {}", c.kind, v, vc, p))),
    }
}

fn main() {
    let mut h = Harness::new("C07");
    h.rule("the property's boundary lattice (each component in {min, max, 0, +-1e-9 range, min+1e-9 range, max-1e-9 range, 1e-4 inside, 1/4, 1/2, 3/4}; hues at sector edges, +-tiny, 0/360/-180) is enumerated completely for the source space of each of the 513 conversions (unclamped, clamped, try_, Alpha form with alpha in {0,1e-9,.5,1}; f64 and f32) and, in pairs with factors {-1,-.5,-1e-9,0,1e-9,.25,.5,1-1e-9,1,1+1e-9,1.5,2}, for each of the 468 operator table entries (by value / assign / slice / Alpha variants); blend modes, compose operators, premultiply and every difference measure on unit-cube lattice pairs; plus generated nominal-box colours. Oracle: every output component finite, no panic. Non-trivial = lattice case (at least one component on a bound/zero or within 1e-9 range of it, or hue on a sector edge); generated interior cases count as trivial.");
    h.assume("division by a colour/scalar with a zero component is IEEE behaviour, not a colour operator result, and is skipped");
    let convs: &'static [Conv] = Box::leak(conversions().into_boxed_slice());
    let ops: &'static [Op] = Box::leak(operators().into_boxed_slice());
    let thorough = h.is_thorough();

    // ---- complete lattice x every conversion ----
    h.sweep::<ConvCase, _, _>(
        "lattice_conversions",
        true,
        convs.len(),
        |c, obs| conv_point_with(convs, c, obs),
        |i, obs| {
            let info = space_info(convs[i].a);
            let mut k = 0usize;
            for comps in lattice(&info) {
                let c = ConvCase { conv: i, comps, alpha: ALPHAS[k % 4] };
                k += 1;
                if let Err(f) = conv_point_with(convs, &c, obs) {
                    if std::env::var("PV_SUMMARY").is_ok() {
                        let what: String = f.msg.split(' ').take(2).collect::<Vec<_>>().join(" ");
                        let mut g = SUMMARY.lock().unwrap();
                        let k = format!("{} {}->{} key={:?}", what, SPACE_NAMES[convs[i].a], SPACE_NAMES[convs[i].b], f.key);
                        if !g.contains_key(&k) && f.key.is_none() {
                            println!("  FIRST {}", f.msg);
                        }
                        *g.entry(k).or_insert(0) += 1;
                    }
                    obs.report(&c, f);
                }
                obs.evals += 1;
                obs.sweep_nontrivial += 1;
            }
        },
    );
    if std::env::var("PV_SUMMARY").is_ok() {
        for (k, v) in SUMMARY.lock().unwrap().iter() {
            println!("  SUMMARY {:>6} {}", v, k);
        }
    }
    // ---- generated nominal-box sources ----
    let n = h.n(4_000_000, 60_000_000);
    h.prop(
        "generated_conversions",
        n,
        || (0..convs.len()).prop_flat_map(move |conv| (nominal_box(space_info(convs[conv].a)), pv::gen::unit()).prop_map(move |(comps, alpha)| ConvCase { conv, comps, alpha })),
        |c, obs| conv_point_with(convs, c, obs),
    );
    // ---- operators on lattice pairs ----
    h.sweep::<OpCase, _, _>(
        "lattice_operators",
        true,
        ops.len(),
        |c, obs| op_point_with(ops, c, obs),
        |i, obs| {
            let op = &ops[i];
            let info = space_info(op.space);
            let lat = lattice(&info);
            let factors: Vec<f64> = if matches!(op.kind, Kind::WithHue | Kind::ShiftHue) { lattice_values(Comp::Hue) } else { FACTORS.to_vec() };
            let stride = if thorough { 1 } else { 7 };
            let mut k = 0usize;
            for (ia, a) in lat.iter().enumerate() {
                // partner colours: a few lattice points spread over the lattice (all in thorough)
                let partners: Vec<usize> = if thorough { (0..lat.len()).step_by(11).collect() } else { vec![(ia * 31 + 7) % lat.len(), (ia * 17 + 3) % lat.len(), ia] };
                for &ib in &partners {
                    for (jf, f) in factors.iter().enumerate() {
                        if !thorough && (ia + ib + jf) % stride != 0 && jf > 3 {
                            continue;
                        }
                        let c = OpCase { op: i, a: *a, b: lat[ib], f: *f, alpha_a: ALPHAS[k % 4], alpha_b: ALPHAS[(k / 4) % 4] };
                        k += 1;
                        if let Err(fl) = op_point_with(ops, &c, obs) {
                            obs.report(&c, fl);
                        }
                        obs.evals += 1;
                        obs.sweep_nontrivial += 1;
                    }
                }
            }
        },
    );
    let n = h.n(3_000_000, 40_000_000);
    h.prop(
        "generated_operators",
        n,
        || {
            (0..ops.len()).prop_flat_map(move |op| {
                let info = space_info(ops[op].space);
                (nominal_box(info), nominal_box(info), prop_oneof![3 => -1.0..=2.0f64, 1 => pv::gen::hue(), 2 => (0usize..FACTORS.len()).prop_map(|i| FACTORS[i])], pv::gen::unit(), pv::gen::unit())
                    .prop_map(move |(a, b, f, alpha_a, alpha_b)| OpCase { op, a, b, f, alpha_a, alpha_b })
            })
        },
        |c, obs| op_point_with(ops, c, obs),
    );
    // ---- CAM16: attribute lattice -> XYZ / full, XYZ lattice -> CAM16, six viewing conditions ----
    h.sweep::<CamCase, _, _>("lattice_cam16", true, 7 * CAM_VCS.len(), cam_point, |i, obs| {
        let (kind, vc) = ((i % 7) as u8, CAM_VCS[i / 7]);
        let lum = [0.0, 1e-7, 1e-3, 25.0, 50.0, 100.0, 200.0];
        let chr = [0.0, 1e-7, 1.0, 20.0, 50.0, 100.0];
        let pts: Vec<[f64; 3]> = if kind < 6 {
            let mut v = Vec::new();
            for l in lum {
                for c in chr {
                    for hh in lattice_values(Comp::Hue) {
                        v.push([l, c, hh]);
                    }
                }
            }
            v
        } else {
            lattice(&space_info(2))
        };
        for p in pts {
            let c = CamCase { vc, kind, c: p };
            if let Err(f) = cam_point(&c, obs) {
                obs.report(&c, f);
            }
            obs.evals += 1;
            obs.sweep_nontrivial += 1;
        }
    });
    // ---- blends on the unit lattice (components and alphas) ----
    let lat1 = [0.0, 1.0, 1e-9, 1.0 - 1e-9, 0.5, 0.25, 0.75];
    let pts: Vec<[f64; 4]> = {
        let mut v = Vec::new();
        for a in lat1 {
            for b in lat1 {
                for c in [0.0, 1.0, 0.5, 1e-9] {
                    for al in [0.0, 1e-9, 0.5, 1.0, 1.0 - 1e-9] {
                        v.push([a, b, c, al]);
                    }
                }
            }
        }
        v
    };
    let pts: &'static [[f64; 4]] = Box::leak(pts.into_boxed_slice());
    h.sweep::<BlendCase, _, _>("lattice_blend_compose", true, pts.len(), blend_point, |i, obs| {
        for d in pts.iter().step_by(if thorough { 1 } else { 3 }) {
            let c = BlendCase { s: pts[i], d: *d };
            if let Err(f) = blend_point(&c, obs) {
                obs.report(&c, f);
            }
            obs.evals += 1;
            obs.sweep_nontrivial += 1;
        }
    });
    // ---- differences on unit-lattice pairs ----
    let l3: Vec<[f64; 3]> = {
        let vals = [0.0, 1.0, 0.5, 1e-9, 1.0 - 1e-9, 0.25, 128.0 / 255.0, 128.0 / 255.0 + 1e-9];
        let mut v = Vec::new();
        for a in vals {
            for b in vals {
                for c in vals {
                    v.push([a, b, c]);
                }
            }
        }
        v
    };
    let l3: &'static [[f64; 3]] = Box::leak(l3.into_boxed_slice());
    h.sweep::<DiffCase, _, _>("lattice_differences", true, l3.len(), diff_point, |i, obs| {
        for q in l3.iter().step_by(if thorough { 1 } else { 5 }) {
            let c = DiffCase { a: l3[i], b: *q };
            if let Err(f) = diff_point(&c, obs) {
                obs.report(&c, f);
            }
            obs.evals += 1;
            obs.sweep_nontrivial += 1;
        }
        let c = DiffCase { a: l3[i], b: l3[i] };
        if let Err(f) = diff_point(&c, obs) {
            obs.report(&c, f);
        }
        obs.evals += 1;
    });
    h.finish();
}
