//! C13 — in-place conversion equals out-of-place conversion and guards restore on drop.
use palette::convert::{FromColorMut, FromColorMutGuard, FromColorUnclamped, FromColorUnclampedMut, FromColorUnclampedMutGuard};
use palette::encoding::Srgb as ESrgb;
use palette::white_point::D65;
use palette::{FromColor, Hsl, Hwb, IntoColorMut, Lab, Oklch, Srgb};
use proptest::prelude::*;
use pv::ensure;
use pv::runner::{Fail, Harness, Obs, PropResult};
use pv::types::{nominal_box, space_info};
use serde::{Deserialize, Serialize};
use std::marker::PhantomData;

type A0 = Srgb<f32>;
type A1 = Hsl<ESrgb, f32>;
type A2 = Hwb<ESrgb, f32>;
type A3 = Lab<D65, f32>;
type A4 = Oklch<f32>;
const NAMES: [&str; 5] = ["Srgb", "Hsl", "Hwb", "Lab", "Oklch"];
/// index of each universe type in pv::types::SPACE_NAMES (for its nominal-box generator)
const SPACE: [usize; 5] = [0, 9, 11, 4, 13];

type Arr = [f32; 3];
/// bit patterns with -0.0 folded onto +0.0: f32::max(-0.0, 0.0) may return either zero, and which
/// one depends on how a particular call site was compiled, so the sign of a zero is not a
/// property of the conversion
fn bits(a: &[Arr]) -> Vec<[u32; 3]> {
    let z = |x: f32| if x == 0.0 { 0u32 } else { x.to_bits() };
    a.iter().map(|c| [z(c[0]), z(c[1]), z(c[2])]).collect()
}

macro_rules! by_tag {
    ($t:expr, $T:ident => $e:expr) => {
        match $t {
            0 => { type $T = A0; $e }
            1 => { type $T = A1; $e }
            2 => { type $T = A2; $e }
            3 => { type $T = A3; $e }
            4 => { type $T = A4; $e }
            _ => unreachable!(),
        }
    };
}

/// the ordinary out-of-place conversion (the reference model's only primitive)
fn conv(from: usize, to: usize, clamped: bool, a: Arr) -> Arr {
    by_tag!(from, F => by_tag!(to, T => {
        let x: F = a.into();
        let y: T = if clamped { T::from_color(x) } else { T::from_color_unclamped(x) };
        y.into()
    }))
}

#[derive(Debug, Clone, Serialize, Deserialize)]
pub enum GOp {
    Read,
    Write(usize, [f32; 3]),
    /// then_into_color_mut (clamped = true) / then_into_color_unclamped_mut
    Then(usize, bool),
    /// into_unclamped_guard / into_clamped_guard (whichever applies)
    SwitchKind,
}
#[derive(Debug, Clone, Copy, Serialize, Deserialize, PartialEq)]
pub enum Terminal {
    Restore,
    Drop,
    Forget,
}
#[derive(Debug, Clone, Serialize, Deserialize)]
pub struct Program {
    pub orig: usize,
    pub first: (usize, bool),
    pub buf: Vec<[f32; 3]>,
    pub ops: Vec<GOp>,
    pub terminal: Terminal,
}

struct Model {
    orig: usize,
    cur_tag: usize,
    cur: Vec<Arr>,
    clamped_kind: bool,
    ptr: usize,
    len: usize,
    depth: usize,
    mutated: bool,
    /// Some(values) once restore() handed the buffer back
    restored: Option<Vec<Arr>>,
}

trait Pair {
    fn clamped(g: FromColorMutGuard<'_, [Self::T], [Self::U]>, ops: &[GOp], term: Terminal, m: &mut Model) -> PropResult
    where
        [Self::T]: FromColorMut<[Self::U]>,
        [Self::U]: FromColorMut<[Self::T]>;
    fn unclamped(g: FromColorUnclampedMutGuard<'_, [Self::T], [Self::U]>, ops: &[GOp], term: Terminal, m: &mut Model) -> PropResult
    where
        [Self::T]: FromColorUnclampedMut<[Self::U]>,
        [Self::U]: FromColorUnclampedMut<[Self::T]>;
    type T;
    type U;
}
struct P<T, U>(PhantomData<(T, U)>);

macro_rules! guard_body {
    ($g:ident, $ops:ident, $term:ident, $m:ident, $T:ty, $U:ty, $kind_clamped:expr, $other:ident, $method:ident) => {{
        let mut g = $g;
        let mut ops = $ops;
        loop {
            // invariant after every step: same memory, same length, contents == model
            {
                let s: &[$T] = &*g;
                ensure!(s.as_ptr() as usize == $m.ptr && s.len() == $m.len, "guard over [{}] (original [{}]) views {:#x}/{} but the buffer is {:#x}/{}", NAMES[$m.cur_tag], NAMES[$m.orig], s.as_ptr() as usize, s.len(), $m.ptr, $m.len);
                let got: Vec<Arr> = s.iter().map(|c| (*c).into()).collect();
                ensure!(bits(&got) == bits(&$m.cur), "guard over [{}] (original [{}], depth {}) holds {:?} but converting out of place gives {:?}", NAMES[$m.cur_tag], NAMES[$m.orig], $m.depth, got, $m.cur);
            }
            let Some((op, rest)) = ops.split_first() else { break };
            ops = rest;
            match op {
                GOp::Read => {}
                GOp::Write(i, c) => {
                    if $m.len > 0 {
                        let i = i % $m.len;
                        let s: &mut [$T] = &mut *g;
                        s[i] = (*c).into();
                        $m.cur[i] = *c;
                        $m.mutated = true;
                    }
                }
                GOp::SwitchKind => {
                    $m.clamped_kind = !$kind_clamped;
                    return <P<$T, $U> as Pair>::$other(g.$method(), ops, $term, $m);
                }
                GOp::Then(tag, clamped) => {
                    let from = $m.cur_tag;
                    $m.cur = $m.cur.iter().map(|a| conv(from, *tag, *clamped, *a)).collect();
                    $m.cur_tag = *tag;
                    $m.clamped_kind = *clamped;
                    $m.depth += 1;
                    return by_tag!(*tag, C => {
                        if *clamped { <P<C, $U> as Pair>::clamped(g.then_into_color_mut::<[C]>(), ops, $term, $m) } else { <P<C, $U> as Pair>::unclamped(g.then_into_color_unclamped_mut::<[C]>(), ops, $term, $m) }
                    });
                }
            }
        }
        // terminal operation
        match $term {
            Terminal::Restore => {
                let back: &mut [$U] = g.restore();
                ensure!(back.as_ptr() as usize == $m.ptr && back.len() == $m.len, "restore() returned a different slice");
                let got: Vec<Arr> = back.iter().map(|c| (*c).into()).collect();
                $m.restored = Some(got);
            }
            Terminal::Drop => drop(g),
            Terminal::Forget => std::mem::forget(g),
        }
        Ok(())
    }};
}

macro_rules! impl_pair {
    ($T:ty, $U:ty) => {
        impl Pair for P<$T, $U> {
            type T = $T;
            type U = $U;
            fn clamped(g: FromColorMutGuard<'_, [$T], [$U]>, ops: &[GOp], term: Terminal, m: &mut Model) -> PropResult {
                guard_body!(g, ops, term, m, $T, $U, true, unclamped, into_unclamped_guard)
            }
            fn unclamped(g: FromColorUnclampedMutGuard<'_, [$T], [$U]>, ops: &[GOp], term: Terminal, m: &mut Model) -> PropResult {
                guard_body!(g, ops, term, m, $T, $U, false, clamped, into_clamped_guard)
            }
        }
    };
}
macro_rules! impl_row {
    ($U:ty) => {
        impl_pair!(A0, $U);
        impl_pair!(A1, $U);
        impl_pair!(A2, $U);
        impl_pair!(A3, $U);
        impl_pair!(A4, $U);
    };
}
impl_row!(A0);
impl_row!(A1);
impl_row!(A2);
impl_row!(A3);
impl_row!(A4);

pub fn run_program(p: &Program, obs: &mut Obs) -> PropResult {
    let depth = 1 + p.ops.iter().filter(|o| matches!(o, GOp::Then(..))).count();
    obs.class(match depth { 1 => "chain depth 1", 2 => "chain depth 2", 3 => "chain depth 3", _ => "chain depth >= 4" });
    obs.class(match p.terminal { Terminal::Restore => "terminal: restore", Terminal::Drop => "terminal: drop", Terminal::Forget => "terminal: forget" });
    if p.ops.iter().any(|o| matches!(o, GOp::SwitchKind)) {
        obs.class("switches guard kind");
    }
    let mutated = p.ops.iter().any(|o| matches!(o, GOp::Write(..)));
    obs.nontrivial_if(p.buf.len() >= 2 && (depth >= 2 || mutated || p.terminal != Terminal::Drop));
    by_tag!(p.orig, U => {
        let mut buffer: Vec<U> = p.buf.iter().map(|a| (*a).into()).collect();
        let (ptr, len) = (buffer.as_ptr() as usize, buffer.len());
        let (first, clamped) = p.first;
        let mut m = Model {
            orig: p.orig,
            cur_tag: first,
            cur: p.buf.iter().map(|a| conv(p.orig, first, clamped, *a)).collect(),
            clamped_kind: clamped,
            ptr,
            len,
            depth: 1,
            mutated: false,
            restored: None,
        };
        by_tag!(first, T => {
            if clamped {
                <P<T, U> as Pair>::clamped(<[T]>::from_color_mut(&mut buffer[..]), &p.ops, p.terminal, &mut m)?;
            } else {
                <P<T, U> as Pair>::unclamped(<[T]>::from_color_unclamped_mut(&mut buffer[..]), &p.ops, p.terminal, &mut m)?;
            }
        });
        // what the buffer must hold now
        ensure!(buffer.as_ptr() as usize == ptr && buffer.len() == len, "the buffer itself moved");
        let raw: Vec<Arr> = buffer.iter().map(|c| (*c).into()).collect();
        match p.terminal {
            Terminal::Forget => {
                ensure!(bits(&raw) == bits(&m.cur), "after forgetting the guard the buffer must keep the converted [{}] values {:?} but holds {:?}", NAMES[m.cur_tag], m.cur, raw);
            }
            t => {
                // one single-step conversion from the current type back to the original
                let want: Vec<Arr> = m.cur.iter().map(|a| conv(m.cur_tag, p.orig, m.clamped_kind, *a)).collect();
                ensure!(bits(&raw) == bits(&want), "after {:?} the buffer holds {:?} but converting the current [{}] contents back to [{}] in one step gives {:?} (guard kind clamped = {})", t, raw, NAMES[m.cur_tag], NAMES[p.orig], want, m.clamped_kind);
                if let Some(r) = &m.restored {
                    ensure!(bits(r) == bits(&want), "restore() returned {:?}, expected {:?}", r, want);
                }
            }
        }
    });
    Ok(())
}

// ---------------- owned containers, single values, chains without guards ----------------
#[derive(Debug, Clone, Serialize, Deserialize)]
pub struct OwnedCase {
    pub from: usize,
    pub chain: Vec<(usize, bool)>,
    pub buf: Vec<[f32; 3]>,
    pub extra_cap: usize,
}

pub fn owned_point(c: &OwnedCase, obs: &mut Obs) -> PropResult {
    obs.nontrivial_if(c.buf.len() >= 1 && c.chain.len() >= 1 && c.extra_cap > 0);
    obs.class(if c.buf.is_empty() && c.extra_cap > 0 { "empty vec with capacity" } else { "other" });
    // ---- Vec: a whole chain re-uses the one allocation ----
    let mut model: Vec<Arr> = c.buf.clone();
    let mut tag = c.from;
    let (ptr, len, cap);
    let mut holder: Box<dyn std::any::Any> = by_tag!(c.from, F => {
        let mut v: Vec<F> = Vec::with_capacity(c.buf.len() + c.extra_cap);
        v.extend(c.buf.iter().map(|a| F::from(*a)));
        ptr = v.as_ptr() as usize;
        len = v.len();
        cap = v.capacity();
        Box::new(v)
    });
    for (to, clamped) in &c.chain {
        let from = tag;
        model = model.iter().map(|a| conv(from, *to, *clamped, *a)).collect();
        holder = by_tag!(from, F => by_tag!(*to, T => {
            let v = *holder.downcast::<Vec<F>>().unwrap();
            let w: Vec<T> = if *clamped { Vec::<T>::from_color(v) } else { Vec::<T>::from_color_unclamped(v) };
            ensure!(w.as_ptr() as usize == ptr, "Vec<{}> -> Vec<{}>: the buffer moved (len {}, cap {})", NAMES[from], NAMES[*to], len, cap);
            ensure!(w.len() == len && w.capacity() == cap, "Vec<{}> -> Vec<{}>: len {} cap {} expected len {} cap {}", NAMES[from], NAMES[*to], w.len(), w.capacity(), len, cap);
            let got: Vec<Arr> = w.iter().map(|x| (*x).into()).collect();
            ensure!(bits(&got) == bits(&model), "Vec<{}> -> Vec<{}> in place gives {:?}, out of place {:?}", NAMES[from], NAMES[*to], got, model);
            Box::new(w) as Box<dyn std::any::Any>
        }));
        tag = *to;
    }
    // ---- Box<[T]> and single values for the first link ----
    if let Some((to, clamped)) = c.chain.first() {
        by_tag!(c.from, F => by_tag!(*to, T => {
            let b: Box<[F]> = c.buf.iter().map(|a| F::from(*a)).collect();
            let ptr = b.as_ptr() as usize;
            let w: Box<[T]> = if *clamped { Box::<[T]>::from_color(b) } else { Box::<[T]>::from_color_unclamped(b) };
            ensure!(w.as_ptr() as usize == ptr && w.len() == c.buf.len(), "Box<[{}]> -> Box<[{}]>: buffer moved or length changed", NAMES[c.from], NAMES[*to]);
            for (x, a) in w.iter().zip(&c.buf) {
                let want = conv(c.from, *to, *clamped, *a);
                let got: Arr = (*x).into();
                ensure!(bits(&[got]) == bits(&[want]), "Box<[{}]> -> Box<[{}]>: {:?} in place, {:?} out of place", NAMES[c.from], NAMES[*to], got, want);
            }
            // single value behind &mut, with the guard dropped / restored / forgotten
            if let Some(a) = c.buf.first() {
                let mut one: F = (*a).into();
                let p = &one as *const F as usize;
                {
                    let mut g = if *clamped { None } else { Some(T::from_color_unclamped_mut(&mut one)) };
                    if let Some(g) = g.as_mut() {
                        let now: Arr = (**g).into();
                        ensure!(&**g as *const T as usize == p, "single-value guard moved");
                        ensure!(bits(&[now]) == bits(&[conv(c.from, *to, false, *a)]), "single-value unclamped guard holds {:?}", now);
                    }
                }
                let back: Arr = one.into();
                if !*clamped {
                    let want = conv(*to, c.from, false, conv(c.from, *to, false, *a));
                    ensure!(bits(&[back]) == bits(&[want]), "single value after dropping the unclamped guard: {:?} expected {:?}", back, want);
                }
                let mut one: F = (*a).into();
                {
                    let g: FromColorMutGuard<T, F> = one.into_color_mut();
                    let now: Arr = (*g).into();
                    ensure!(bits(&[now]) == bits(&[conv(c.from, *to, true, *a)]), "single-value clamped guard holds {:?}", now);
                    let r: &mut F = g.restore();
                    let back: Arr = (*r).into();
                    let want = conv(*to, c.from, true, conv(c.from, *to, true, *a));
                    ensure!(bits(&[back]) == bits(&[want]), "single value after restore: {:?} expected {:?}", back, want);
                }
                let mut one: F = (*a).into();
                std::mem::forget(T::from_color_mut(&mut one));
                let raw: Arr = palette::cast::into_array(one);
                ensure!(bits(&[raw]) == bits(&[conv(c.from, *to, true, *a)]), "single value after forgetting the guard: {:?}", raw);
            }
        }));
    }
    // ---- cast::map_vec_in_place / map_slice_box_in_place directly, capacity != length ----
    let mut v: Vec<A0> = Vec::with_capacity(c.buf.len() + c.extra_cap);
    v.extend(c.buf.iter().map(|a| A0::from(*a)));
    let (ptr, len, cap) = (v.as_ptr() as usize, v.len(), v.capacity());
    let w: Vec<A3> = palette::cast::map_vec_in_place(v, |x: A0| A3::new(x.red + 1.0, x.green, x.blue));
    ensure!(w.as_ptr() as usize == ptr && w.len() == len && w.capacity() == cap, "map_vec_in_place: ptr/len/cap changed: len {} cap {} -> len {} cap {}", len, cap, w.len(), w.capacity());
    ensure!(w.iter().zip(&c.buf).all(|(x, a)| x.l.to_bits() == (a[0] + 1.0).to_bits() && x.a.to_bits() == a[1].to_bits() && x.b.to_bits() == a[2].to_bits()), "map_vec_in_place values");
    let b: Box<[A0]> = c.buf.iter().map(|a| A0::from(*a)).collect();
    let ptr = b.as_ptr() as usize;
    let w: Box<[A1]> = palette::cast::map_slice_box_in_place(b, |x: A0| A1::new(x.red, x.green, x.blue));
    ensure!(w.as_ptr() as usize == ptr && w.len() == c.buf.len(), "map_slice_box_in_place: ptr/len changed");
    let _ = Fail::new("");
    Ok(())
}

fn colour(tag: usize) -> BoxedStrategy<[f32; 3]> {
    // in range most of the time; sometimes outside so that clamped and unclamped paths differ
    prop_oneof![
        6 => nominal_box(space_info(SPACE[tag])).prop_map(|c| [c[0] as f32, c[1] as f32, c[2] as f32]),
        1 => nominal_box(space_info(SPACE[tag])).prop_map(|c| [(c[0] * 1.5) as f32, (c[1] * 1.3 + 0.1) as f32, (c[2] * 1.2) as f32]),
    ]
    .boxed()
}

fn main() {
    let mut h = Harness::new("C13");
    h.rule("closed universe {Srgb, Hsl, Hwb, Lab, Oklch}<f32> (all layout compatible, 25 ordered pairs, 125 monomorphic guard transitions driven by data): generated programs = original type + buffer of 0..24 colours (nominal box, some out of range) + first conversion (clamped or unclamped) + up to 8 operations from {read, write through the guard, then_into_color_mut, then_into_color_unclamped_mut, into_unclamped_guard/into_clamped_guard} + terminal restore / drop / mem::forget; plus owned containers: Vec chains of 0..4 links with capacity != length (incl. empty Vec with capacity), Box<[T]>, single values, map_vec_in_place / map_slice_box_in_place. Oracle: plain Vec + ordinary from_color / from_color_unclamped: after every step the guard views the original memory (address, length) and holds bitwise the out-of-place values; after restore/drop the buffer holds the one-step conversion of the current contents back to the original type, after forget the converted values; Vec/Box keep address, length, capacity. Non-trivial = buffer length >= 2 and (chain depth >= 2 or a write through the guard or terminal in {restore, forget}).");
    h.assume("reference model = out-of-place conversion of the same values (bitwise equality: same function, same inputs); memory errors invisible to values are left to the Miri stage of the thorough tier");
    let miri = std::env::var("PV_MIRI").is_ok();
    let n = if miri { 50 } else { h.n(2_000_000, 30_000_000) };
    h.prop(
        "guard_programs",
        n,
        || {
            (0usize..5, 0usize..5, any::<bool>()).prop_flat_map(|(orig, first, clamped)| {
                let op = prop_oneof![
                    2 => Just(GOp::Read),
                    3 => (0usize..24, 0usize..5).prop_flat_map(|(i, t)| colour(t).prop_map(move |c| GOp::Write(i, c))),
                    4 => (0usize..5, any::<bool>()).prop_map(|(t, c)| GOp::Then(t, c)),
                    2 => Just(GOp::SwitchKind),
                ];
                (proptest::collection::vec(colour(orig), 0..24), proptest::collection::vec(op, 0..8), prop_oneof![Just(Terminal::Restore), Just(Terminal::Drop), Just(Terminal::Forget)]).prop_map(move |(buf, mut ops, terminal)| {
                    // at most 3 further conversions (chain depth <= 4)
                    let mut thens = 0;
                    ops.retain(|o| if matches!(o, GOp::Then(..)) { thens += 1; thens <= 3 } else { true });
                    Program { orig, first: (first, clamped), buf, ops, terminal }
                })
            })
        },
        run_program,
    );
    let n = if miri { 30 } else { h.n(1_500_000, 20_000_000) };
    h.prop(
        "owned_containers",
        n,
        || {
            (0usize..5).prop_flat_map(|from| {
                (proptest::collection::vec((0usize..5, any::<bool>()), 0..4), prop_oneof![1 => Just(Vec::new()), 6 => proptest::collection::vec(colour(from), 0..12)], prop_oneof![1 => Just(0usize), 3 => 1usize..9]).prop_map(move |(chain, buf, extra_cap)| OwnedCase { from, chain, buf, extra_cap })
            })
        },
        owned_point,
    );
    if !miri {
        h.require_class("guard_programs", "chain depth >= 4", 1000);
        h.require_class("guard_programs", "terminal: forget", 1000);
        h.require_class("owned_containers", "empty vec with capacity", 1000);
    }
    h.finish();
}
