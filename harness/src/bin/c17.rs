//! C17 — results do not depend on the component representation (SIMD lanes vs scalar, f32 vs f64).
#![allow(clippy::type_complexity, clippy::excessive_precision)]
use palette::angle::{AngleEq, RealAngle, SignedAngle, UnsignedAngle};
use palette::bool_mask::{BoolMask, LazySelect, Select};
use palette::num::{Abs, Cbrt, Clamp, ClampAssign, Exp, Hypot, IsValidDivisor, Ln, MinMax, MulAdd, MulSub, PartialCmp, Powf, Powi, Powu, Recip, Round, Signum, Sqrt, Trigonometry};
use proptest::prelude::*;
use pv::runner::{Harness, Obs, PropResult};
use pv::{ensure, fail};
use serde::{Deserialize, Serialize};
use wide::{f32x4, f32x8, f64x2, f64x4};

include!("../../tables/c17_tables.rs");

const VNAMES: [&str; 4] = ["f32x4", "f32x8", "f64x2", "f64x4"];
fn vn(v: u8) -> usize {
    [4, 8, 2, 4][v as usize]
}
fn vf32(v: u8) -> bool {
    v < 2
}

// ------------------------------------------------------------------------------------------
// numeric traits, lane by lane
#[derive(Debug, Clone, Serialize, Deserialize)]
struct NumCase {
    v: u8,
    a: Vec<f64>,
    b: Vec<f64>,
    c: Vec<f64>,
    exp: i32,
}

/// how a vector method is compared with the scalar method
#[derive(Clone, Copy, PartialEq, Debug)]
enum Cmp {
    /// same value (zeros of either sign are the same value)
    Exact,
    /// a few units in the last place
    Ulps(f64),
    /// relative / absolute accuracy of an approximation kernel: (f32, f64)
    Approx(f64, f64),
}
fn close(cmp: Cmp, f32_: bool, got: f64, want: f64) -> bool {
    if got.is_nan() || want.is_nan() {
        return got.is_nan() && want.is_nan();
    }
    if got == want {
        return true;
    }
    if got.is_infinite() || want.is_infinite() {
        return false;
    }
    let eps = if f32_ { f32::EPSILON as f64 } else { f64::EPSILON };
    let tiny = if f32_ { f32::MIN_POSITIVE as f64 } else { f64::MIN_POSITIVE };
    match cmp {
        Cmp::Exact => false,
        Cmp::Ulps(n) => (got - want).abs() <= n * eps * want.abs().max(got.abs()) + 4.0 * tiny,
        Cmp::Approx(r32, r64) => {
            let r = if f32_ { r32 } else { r64 };
            (got - want).abs() <= r * want.abs().max(1.0)
        }
    }
}

macro_rules! num_lanes {
    ($V:ty, $S:ty, $N:expr, $c:expr, $obs:expr, $vname:expr) => {{
        let c: &NumCase = $c;
        let f32_ = std::mem::size_of::<$S>() == 4;
        let arr = |v: &Vec<f64>| -> [$S; $N] { core::array::from_fn(|i| v[i] as $S) };
        let (a, b, cc) = (arr(&c.a), arr(&c.b), arr(&c.c));
        let (va, vb, vc): ($V, $V, $V) = (a.into(), b.into(), cc.into());
        // (name, vector result, scalar results, comparison)
        let mut rows: Vec<(&'static str, [$S; $N], [$S; $N], Cmp)> = Vec::new();
        macro_rules! un {
            ($name:expr, $cmp:expr, |$x:ident| $e:expr) => {{
                let $x = va;
                let v: $V = $e;
                let s: [$S; $N] = core::array::from_fn(|i| { let $x = a[i]; $e });
                rows.push(($name, v.into(), s, $cmp));
            }};
        }
        macro_rules! bin {
            ($name:expr, $cmp:expr, |$x:ident, $y:ident| $e:expr) => {{
                let ($x, $y) = (va, vb);
                let v: $V = $e;
                let s: [$S; $N] = core::array::from_fn(|i| { let ($x, $y) = (a[i], b[i]); $e });
                rows.push(($name, v.into(), s, $cmp));
            }};
        }
        macro_rules! tri {
            ($name:expr, $cmp:expr, |$x:ident, $y:ident, $z:ident| $e:expr) => {{
                let ($x, $y, $z) = (va, vb, vc);
                let v: $V = $e;
                let s: [$S; $N] = core::array::from_fn(|i| { let ($x, $y, $z) = (a[i], b[i], cc[i]); $e });
                rows.push(($name, v.into(), s, $cmp));
            }};
        }
        un!("abs", Cmp::Exact, |x| Abs::abs(x));
        un!("signum", Cmp::Exact, |x| Signum::signum(x));
        un!("sqrt", Cmp::Ulps(1.0), |x| Sqrt::sqrt(Abs::abs(x)));
        un!("cbrt", Cmp::Ulps(1.0), |x| Cbrt::cbrt(x));
        un!("round", Cmp::Exact, |x| Round::round(x));
        un!("floor", Cmp::Exact, |x| Round::floor(x));
        un!("ceil", Cmp::Exact, |x| Round::ceil(x));
        un!("recip", Cmp::Approx(1e-3, 1e-15), |x| Recip::recip(x));
        un!("exp", Cmp::Approx(1e-5, 1e-12), |x| Exp::exp(MinMax::min(x, palette::num::Real::from_f64(20.0))));
        // (zero is a pole: wide's kernel and libm differ there in NaN vs -inf)
        un!("ln", Cmp::Approx(1e-5, 1e-12), |x| Ln::ln(MinMax::max(Abs::abs(x), palette::num::Real::from_f64(1e-30))));
        un!("sin", Cmp::Approx(2e-5, 1e-12), |x| Trigonometry::sin(Clamp::clamp(x, palette::num::Real::from_f64(-100.0), palette::num::Real::from_f64(100.0))));
        un!("cos", Cmp::Approx(2e-5, 1e-12), |x| Trigonometry::cos(Clamp::clamp(x, palette::num::Real::from_f64(-100.0), palette::num::Real::from_f64(100.0))));
        un!("tan", Cmp::Approx(1e-3, 1e-9), |x| Trigonometry::tan(Clamp::clamp(x, palette::num::Real::from_f64(-1.5), palette::num::Real::from_f64(1.5))));
        un!("atan", Cmp::Approx(2e-6, 1e-12), |x| Trigonometry::atan(x));
        un!("degrees_to_radians", Cmp::Ulps(4.0), |x| RealAngle::degrees_to_radians(x));
        un!("radians_to_degrees", Cmp::Ulps(4.0), |x| RealAngle::radians_to_degrees(x));
        un!("normalize_signed_angle", Cmp::Approx(1e-4, 1e-11), |x| SignedAngle::normalize_signed_angle(x));
        un!("normalize_unsigned_angle", Cmp::Approx(1e-4, 1e-11), |x| UnsignedAngle::normalize_unsigned_angle(x));
        // (negative exponents go through the 12-bit f32 reciprocal)
        un!("powi", Cmp::Approx(4e-3, 1e-12), |x| Powi::powi(x, c.exp));
        un!("powu", Cmp::Ulps(64.0), |x| Powu::powu(x, c.exp.unsigned_abs()));
        bin!("min", Cmp::Exact, |x, y| MinMax::min(x, y));
        bin!("max", Cmp::Exact, |x, y| MinMax::max(x, y));
        bin!("min_max.0", Cmp::Exact, |x, y| MinMax::min_max(x, y).0);
        bin!("min_max.1", Cmp::Exact, |x, y| MinMax::min_max(x, y).1);
        bin!("clamp_min", Cmp::Exact, |x, y| Clamp::clamp_min(x, y));
        bin!("clamp_max", Cmp::Exact, |x, y| Clamp::clamp_max(x, y));
        bin!("clamp_min_assign", Cmp::Exact, |x, y| { let mut t = x; ClampAssign::clamp_min_assign(&mut t, y); t });
        bin!("clamp_max_assign", Cmp::Exact, |x, y| { let mut t = x; ClampAssign::clamp_max_assign(&mut t, y); t });
        bin!("hypot", Cmp::Ulps(8.0), |x, y| Hypot::hypot(x, y));
        bin!("atan2", Cmp::Approx(2e-6, 1e-12), |x, y| Trigonometry::atan2(x, y));
        bin!("powf", Cmp::Approx(2e-4, 1e-10), |x, y| Powf::powf(MinMax::min(Abs::abs(x), palette::num::Real::from_f64(100.0)), MinMax::min(Abs::abs(y), palette::num::Real::from_f64(8.0))));
        // clamp and clamp_assign are only meaningful for min <= max: order the bounds first
        tri!("clamp", Cmp::Exact, |x, y, z| { let (lo, hi) = MinMax::min_max(y, z); Clamp::clamp(x, lo, hi) });
        tri!("clamp_assign", Cmp::Exact, |x, y, z| { let (lo, hi) = MinMax::min_max(y, z); let mut t = x; ClampAssign::clamp_assign(&mut t, lo, hi); t });
        tri!("mul_add", Cmp::Approx(1e-5, 1e-13), |x, y, z| MulAdd::mul_add(x, y, z));
        tri!("mul_sub", Cmp::Approx(1e-5, 1e-13), |x, y, z| MulSub::mul_sub(x, y, z));
        for (name, v, s, cmp) in rows {
            for i in 0..$N {
                let (g, w) = (v[i] as f64, s[i] as f64);
                if let (0, Cmp::Approx(..) | Cmp::Ulps(_)) = (i, cmp) {
                    if g.is_finite() && w.is_finite() {
                        $obs.err(pv::runner::intern(&format!("{} {}", if f32_ { "f32" } else { "f64" }, name)), (g - w).abs() / w.abs().max(1.0));
                    }
                }
                // mul_add & co: compare against the magnitude of the operands, not of a cancelled result
                let ok = match (name, cmp) {
                    ("mul_add", Cmp::Approx(r32, r64)) | ("mul_sub", Cmp::Approx(r32, r64)) => {
                        let r = if f32_ { r32 } else { r64 };
                        let scale = (a[i] as f64 * b[i] as f64).abs().max((cc[i] as f64).abs()).max(1.0);
                        (g.is_nan() && w.is_nan()) || g == w || (g - w).abs() <= r * scale
                    }
                    _ => close(cmp, f32_, g, w),
                };
                ensure!(ok, "{}::{}: lane {} of the vector result is {:e}, the scalar method gives {:e} (inputs a = {:e}, b = {:e}, c = {:e}, exp = {})", $vname, name, i, g, w, a[i], b[i], cc[i], c.exp);
            }
        }
        // is_valid_divisor: mask vs bool
        let m: $V = IsValidDivisor::is_valid_divisor(&va);
        let ml: [$S; $N] = m.into();
        for i in 0..$N {
            let want = IsValidDivisor::is_valid_divisor(&a[i]);
            ensure!((ml[i].to_bits() != 0) == want, "{}::is_valid_divisor: lane {} is {} for {:e}, scalar says {}", $vname, i, ml[i].to_bits() != 0, a[i], want);
        }
        // angle_eq
        let m: $V = AngleEq::angle_eq(&va, &vb);
        let ml: [$S; $N] = m.into();
        for i in 0..$N {
            let want = AngleEq::angle_eq(&a[i], &b[i]);
            ensure!((ml[i].to_bits() != 0) == want, "{}::angle_eq: lane {} is {} for ({:e}, {:e}), scalar says {}", $vname, i, ml[i].to_bits() != 0, a[i], b[i], want);
        }
        Ok(())
    }};
}
fn num_point(c: &NumCase, obs: &mut Obs) -> PropResult {
    obs.class(VNAMES[c.v as usize]);
    let distinct = c.a.iter().map(|x| x.to_bits()).collect::<std::collections::HashSet<_>>().len();
    obs.nontrivial_if(distinct >= 2);
    match c.v {
        0 => num_lanes!(f32x4, f32, 4, c, obs, "f32x4"),
        1 => num_lanes!(f32x8, f32, 8, c, obs, "f32x8"),
        2 => num_lanes!(f64x2, f64, 2, c, obs, "f64x2"),
        _ => num_lanes!(f64x4, f64, 4, c, obs, "f64x4"),
    }
}

// ------------------------------------------------------------------------------------------
// masks
#[derive(Debug, Clone, Serialize, Deserialize)]
struct MaskCase {
    v: u8,
    /// bit patterns so that NaN and signed zeros survive the replay file
    a: Vec<u64>,
    b: Vec<u64>,
    x: Vec<f64>,
    y: Vec<f64>,
    flag: bool,
}
macro_rules! mask_lanes {
    ($V:ty, $S:ty, $U:ty, $N:expr, $c:expr, $vname:expr) => {{
        let c: &MaskCase = $c;
        let val = |bits: u64| -> $S { if std::mem::size_of::<$S>() == 4 { f32::from_bits(f64::from_bits(bits).to_bits() as u32 ^ 0).max(f32::MIN) as $S } else { f64::from_bits(bits) as $S } };
        let _ = val;
        let cvt = |bits: u64| -> $S { f64::from_bits(bits) as $S };
        let a: [$S; $N] = core::array::from_fn(|i| cvt(c.a[i]));
        let b: [$S; $N] = core::array::from_fn(|i| cvt(c.b[i]));
        let x: [$S; $N] = core::array::from_fn(|i| c.x[i] as $S);
        let y: [$S; $N] = core::array::from_fn(|i| c.y[i] as $S);
        let (va, vb, vx, vy): ($V, $V, $V, $V) = (a.into(), b.into(), x.into(), y.into());
        let lanes = |m: $V| -> [bool; $N] { let l: [$S; $N] = m.into(); core::array::from_fn(|i| l[i].to_bits() != 0) };
        let full = |m: $V| -> bool { let l: [$S; $N] = m.into(); l.iter().all(|v| v.to_bits() == 0 || v.to_bits() == <$U>::MAX) };
        let cmps: [(&str, $V, [bool; $N]); 6] = [
            ("lt", PartialCmp::lt(&va, &vb), core::array::from_fn(|i| PartialCmp::lt(&a[i], &b[i]))),
            ("lt_eq", PartialCmp::lt_eq(&va, &vb), core::array::from_fn(|i| PartialCmp::lt_eq(&a[i], &b[i]))),
            ("eq", PartialCmp::eq(&va, &vb), core::array::from_fn(|i| PartialCmp::eq(&a[i], &b[i]))),
            ("neq", PartialCmp::neq(&va, &vb), core::array::from_fn(|i| PartialCmp::neq(&a[i], &b[i]))),
            ("gt_eq", PartialCmp::gt_eq(&va, &vb), core::array::from_fn(|i| PartialCmp::gt_eq(&a[i], &b[i]))),
            ("gt", PartialCmp::gt(&va, &vb), core::array::from_fn(|i| PartialCmp::gt(&a[i], &b[i]))),
        ];
        for (name, m, want) in cmps.iter() {
            ensure!(full(*m), "{}::{}: a mask lane is neither all zeros nor all ones (a = {:?}, b = {:?})", $vname, name, a, b);
            ensure!(lanes(*m) == *want, "{}::{}: lanes {:?}, scalar comparisons {:?} (a = {:?}, b = {:?})", $vname, name, lanes(*m), want, a, b);
        }
        // select / lazy_select with each comparison mask
        for (name, m, want) in cmps.iter() {
            let sel: [$S; $N] = Select::select(*m, vx, vy).into();
            let lazy: [$S; $N] = LazySelect::lazy_select(*m, || vx, || vy).into();
            for i in 0..$N {
                let w = Select::select(want[i], x[i], y[i]);
                ensure!(sel[i].to_bits() == w.to_bits(), "{}: select with the {} mask: lane {} is {:e}, scalar select gives {:e}", $vname, name, i, sel[i], w);
                let wl = LazySelect::lazy_select(want[i], || x[i], || y[i]);
                ensure!(lazy[i].to_bits() == wl.to_bits(), "{}: lazy_select with the {} mask: lane {} is {:e}, scalar gives {:e}", $vname, name, i, lazy[i], wl);
            }
        }
        // bit operations on masks
        let (m1, m2) = (cmps[0].1, cmps[2].1);
        let (w1, w2) = (cmps[0].2, cmps[2].2);
        let and = lanes(m1 & m2);
        let or = lanes(m1 | m2);
        let xor = lanes(m1 ^ m2);
        let not = lanes(!m1);
        for i in 0..$N {
            ensure!(and[i] == (w1[i] & w2[i]) && or[i] == (w1[i] | w2[i]) && xor[i] == (w1[i] ^ w2[i]) && not[i] == !w1[i], "{}: mask bit operations differ from bool in lane {}", $vname, i);
        }
        // from_bool / is_true / is_false
        let fb = <$V as BoolMask>::from_bool(c.flag);
        ensure!(lanes(fb) == [c.flag; $N] && BoolMask::is_true(&fb) == c.flag && BoolMask::is_false(&fb) == !c.flag, "{}: from_bool({}) gives lanes {:?}", $vname, c.flag, lanes(fb));
        ensure!(BoolMask::is_true(&m1) == w1.iter().all(|v| *v), "{}: is_true of a mask with lanes {:?}", $vname, w1);
        ensure!(BoolMask::is_false(&m1) == w1.iter().all(|v| !*v), "{}: is_false of a mask with lanes {:?}", $vname, w1);
        Ok(())
    }};
}
fn mask_point(c: &MaskCase, obs: &mut Obs) -> PropResult {
    obs.class(VNAMES[c.v as usize]);
    let n = vn(c.v);
    let mixed = (0..n).map(|i| f64::from_bits(c.a[i]).partial_cmp(&f64::from_bits(c.b[i]))).collect::<std::collections::HashSet<_>>().len() >= 2;
    obs.nontrivial_if(mixed);
    match c.v {
        0 => mask_lanes!(f32x4, f32, u32, 4, c, "f32x4"),
        1 => mask_lanes!(f32x8, f32, u32, 8, c, "f32x8"),
        2 => mask_lanes!(f64x2, f64, u64, 2, c, "f64x2"),
        _ => mask_lanes!(f64x4, f64, u64, 4, c, "f64x4"),
    }
}

// ------------------------------------------------------------------------------------------
// conversions and operators through the generated tables
#[derive(Debug, Clone, Serialize, Deserialize)]
struct LaneCase {
    /// index into the table
    k: usize,
    lanes: Vec<[f64; 4]>,
    lanes2: Vec<[f64; 4]>,
    factor: Vec<f64>,
    perm: Vec<usize>,
}

fn tol_lane(f32_: bool) -> f64 {
    if f32_ { 2e-3 } else { 1e-11 }
}

/// distance of two results of the named space in its cartesian embedding
fn space_dist(name: &str, a: &[f64], b: &[f64]) -> f64 {
    if a.len() != 3 {
        return a.iter().zip(b).map(|(x, y)| if x == y { 0.0 } else { let d = (x - y).abs(); if d.is_nan() { f64::INFINITY } else { d / x.abs().max(y.abs()).max(1.0) } }).fold(0.0, f64::max);
    }
    match pv::types::SPACE_NAMES.iter().position(|n| *n == name) {
        Some(i) => {
            let info = pv::types::space_info(i);
            let (x, y) = ([a[0], a[1], a[2]], [b[0], b[1], b[2]]);
            if x == y { 0.0 } else { pv::types::embed_dist(&info, x, y) }
        }
        None => a.iter().zip(b).map(|(x, y)| if x == y { 0.0 } else { let d = (x - y).abs(); if d.is_nan() { f64::INFINITY } else { d / x.abs().max(y.abs()).max(1.0) } }).fold(0.0, f64::max),
    }
}

/// largest nominal component range of a space (plain numbers: 1)
fn range_of(name: &str) -> f64 {
    match pv::types::SPACE_NAMES.iter().position(|n| *n == name) {
        Some(i) => pv::types::space_info(i).comps.iter().map(|c| match c { pv::types::Comp::Lin(lo, hi) => (hi - lo).abs().max(lo.abs()).max(hi.abs()), _ => 1.0 }).fold(1.0, f64::max),
        None => 1.0,
    }
}

fn lane_point(table: &[Entry], c: &LaneCase, obs: &mut Obs) -> PropResult {
    let e = &table[c.k];
    let n = vn(e.v);
    let f32_ = vf32(e.v);
    obs.class(pv::runner::intern(&format!("{} {}", VNAMES[e.v as usize], e.kind)));
    let out = (e.run)(&c.lanes[..n], &c.lanes2[..n], &c.factor[..n]);
    // lanes on different branches: at least two lanes differ in a coarse class (grey / hue sector / dark / bright)
    let class = |l: &[f64; 4]| -> u8 {
        let (mx, mn) = (l[0].max(l[1]).max(l[2]), l[0].min(l[1]).min(l[2]));
        if mx == mn { 0 } else if l[0] >= l[1] && l[0] >= l[2] { 1 } else if l[1] >= l[2] { 2 } else { 3 }
    };
    let classes: std::collections::HashSet<u8> = c.lanes[..n].iter().map(class).collect();
    obs.nontrivial_if(classes.len() >= 2);
    ensure!(out.pack_ok, "{} {}: packing the lanes into a vector colour and unpacking it again changed them (inputs {:?})", VNAMES[e.v as usize], e.name, &c.lanes[..n]);
    // conversions and colour differences go through the approximation kernels; everything else is the same generic
    // arithmetic on both sides and agrees to rounding (measured: bitwise)
    let kernel = e.kind == "conversion" || e.kind.starts_with("difference") || e.kind == "get_hue";
    let tol = if kernel { tol_lane(f32_) * e.tol_scale } else if e.tol_scale == 0.0 { 0.0 } else if f32_ { 1e-6 } else { 2e-15 };
    for i in 0..n {
        let (g, w) = (&out.lanes[i], &out.scalar[i]);
        if !w.iter().all(|v| v.is_finite()) {
            // the scalar result is not finite: the lane must not be an ordinary number either
            continue;
        }
        // results far outside the nominal range are compared relatively
        let mag = w.iter().fold(1.0f64, |m, v| m.max(v.abs() / range_of(e.out_space)));
        let d = space_dist(e.out_space, g, w) / mag;
        let mut lim = tol;
        if d > lim && kernel {
            // ill-conditioned lane? how far does the *scalar* result move when the inputs move by the accuracy of the
            // vector kernels (f32: 12-bit reciprocal, 5e-4; f64: rounding)
            let step = if f32_ { 5e-4 } else { 1e-12 };
            let mut sc: f64 = 0.0;
            for comp in 0..4 {
                for sgn in [1.0, -1.0] {
                    let bump = |l: &[[f64; 4]]| -> Vec<[f64; 4]> { l.iter().map(|x| { let mut y = *x; y[comp] += sgn * step * if comp == 3 { 1.0 } else { x[comp].abs().max(1.0) }; y }).collect() };
                    for which in 0..2 {
                        let (l1, l2) = if which == 0 { (bump(&c.lanes[..n]), c.lanes2[..n].to_vec()) } else { (c.lanes[..n].to_vec(), bump(&c.lanes2[..n])) };
                        let o = (e.run)(&l1, &l2, &c.factor[..n]);
                        let dd = space_dist(e.out_space, &o.scalar[i], w) / mag;
                        sc = sc.max(if dd.is_nan() { f64::INFINITY } else { dd });
                    }
                }
            }
            lim = lim.max(2.0 * sc);
            obs.class("tolerance scaled by measured conditioning");
        } else if i == 0 {
            obs.err(pv::runner::intern(&format!("{} {}", if f32_ { "f32" } else { "f64" }, e.kind)), d);
            // (worst error per table entry, without the case: 2230 entries x 8 lanes would make the evidence file 7 MB)
            obs.err(pv::runner::intern(&format!("{} {}", VNAMES[e.v as usize], e.name)), d);
        }
        ensure!(d <= lim, "{} {}: lane {} gives {:?}, the scalar operation on that lane's input gives {:?} (distance {:e}, allowed {:e}; lane input {:?} / {:?} / {})", VNAMES[e.v as usize], e.name, i, g, w, d, lim, c.lanes[i], c.lanes2[i], c.factor[i]);
    }
    // permutation metamorphism: permuting the input lanes permutes the output lanes, bitwise
    let perm: Vec<usize> = c.perm[..n].to_vec();
    let pl: Vec<[f64; 4]> = perm.iter().map(|&p| c.lanes[p]).collect();
    let pl2: Vec<[f64; 4]> = perm.iter().map(|&p| c.lanes2[p]).collect();
    let pf: Vec<f64> = perm.iter().map(|&p| c.factor[p]).collect();
    let pout = (e.run)(&pl, &pl2, &pf);
    for i in 0..n {
        let (g, w) = (&pout.lanes[i], &out.lanes[perm[i]]);
        let same = g.iter().zip(w.iter()).all(|(x, y)| x.to_bits() == y.to_bits() || (x.is_nan() && y.is_nan()));
        ensure!(same, "{} {}: with the input lanes permuted by {:?}, output lane {} is {:?} but the lane that held this input gave {:?}: lanes are not independent", VNAMES[e.v as usize], e.name, perm, i, g, w);
    }
    Ok(())
}

// ------------------------------------------------------------------------------------------
// f32 vs f64 over the scalar conversion matrix
#[derive(Debug, Clone, Serialize, Deserialize)]
struct PrecCase {
    conv: usize,
    x: [f64; 3],
}
fn prec_point(convs: &[pv::types::Conv], c: &PrecCase, obs: &mut Obs) -> PropResult {
    let cv = &convs[c.conv];
    let (ia, ib) = (pv::types::space_info(cv.a), pv::types::space_info(cv.b));
    let x = [c.x[0] as f32 as f64, c.x[1] as f32 as f64, c.x[2] as f32 as f64];
    let w = (cv.u64_)(x);
    let g32 = (cv.u32_)([x[0] as f32, x[1] as f32, x[2] as f32]);
    let g = [g32[0] as f64, g32[1] as f64, g32[2] as f64];
    obs.nontrivial_if(cv.a != cv.b && pv::types::embed_chroma(&ia, x) > 1e-3);
    if !w.iter().all(|v| v.is_finite()) {
        obs.class("f64 result not finite (left to C07)");
        return Ok(());
    }
    // conditioning filter: the f64 computation under perturbations of a few f32 ulps
    let mut scatter: f64 = 0.0;
    for i in 0..3 {
        let r = match ia.comps[i] { pv::types::Comp::Lin(lo, hi) => (hi - lo).abs(), pv::types::Comp::Hue => 360.0, _ => continue };
        for rel in [3e-7, -3e-7, 3e-6, -3e-6] {
            let mut y = x;
            y[i] += rel * r;
            let d = pv::types::embed_dist(&ib, (cv.u64_)(y), w);
            scatter = scatter.max(if d.is_nan() { f64::INFINITY } else { d });
        }
    }
    if !(scatter <= 1e-4) {
        obs.class("ill-conditioned input (skipped)");
        return Ok(());
    }
    let d = pv::types::embed_dist(&ib, g, w);
    obs.err("f32 vs f64", d);
    ensure!(d <= 2e-3, "{} -> {} of {:?}: f32 gives {:?}, f64 gives {:?} (distance {:e} in the target embedding, allowed 2e-3)", pv::types::SPACE_NAMES[cv.a], pv::types::SPACE_NAMES[cv.b], x, g, w, d);
    Ok(())
}

fn lane_values() -> BoxedStrategy<f64> {
    prop_oneof![
        6 => -10.0..=10.0f64,
        3 => -1.0..=1.0f64,
        2 => -1000.0..=1000.0f64,
        2 => prop_oneof![Just(0.0), Just(-0.0), Just(1.0), Just(-1.0), Just(0.5), Just(-0.5), Just(1.5), Just(2.5), Just(-2.5), Just(3.5)],
        3 => (-8i32..=8, prop_oneof![Just(0.0), Just(1e-4), Just(-1e-4)]).prop_map(|(k, d)| 90.0 * k as f64 + d),
        1 => (-4i32..=4).prop_map(|k| k as f64 + 0.5),
        1 => (-30.0..=30.0f64).prop_map(|e| 2f64.powf(e)),
        1 => (0i32..=20).prop_map(|k| k as f64),
    ]
    .boxed()
}

fn main() {
    let mut h = Harness::new("C17");
    h.rule("wide::{f32x4, f32x8, f64x2, f64x4} with lanes filled independently from class-mixing generators (greys, every hue sector, dark and bright, values on both sides of curve knees and piecewise thresholds, out-of-range values for clamp) so that the lanes of one vector sit on different branches. Oracles: every numeric, angle and mask trait method of the vector type lane by lane against the scalar method (exact for selection / rounding / comparison, ulps for arithmetic kernels, stated accuracy for the approximation kernels; masks incl. NaN, signed zeros, equal pairs); pack / unpack of colours, Alpha and PreAlpha is the identity and field i holds component i of every lane; each conversion and operator available for the vector type: lane i == scalar operation on lane i's input within 1e-11 (f64 lanes) / 2e-3 (f32 lanes: 12-bit hardware reciprocal, polynomial kernels) in the target's cartesian embedding, and permuting the input lanes permutes the output lanes bitwise; f32 vs f64 over the whole scalar conversion matrix at 2e-3 after a conditioning filter. Non-trivial = lanes of at least two different classes; distinct by hash.");
    h.assume("vector results are compared with the scalar methods palette itself provides for f32 / f64 (the property is agreement between representations, not correctness of either: that is C02)");
    let table = table();
    h.extra("vector_operations", serde_json::json!(table.len()));

    let n = h.n(400_000, 20_000_000);
    h.prop(
        "numeric_traits_lane_by_lane",
        n,
        || (0u8..4, proptest::collection::vec(lane_values(), 8), proptest::collection::vec(lane_values(), 8), proptest::collection::vec(lane_values(), 8), -4i32..=6).prop_map(|(v, a, b, c, exp)| NumCase { v, a, b, c, exp }),
        num_point,
    );
    let n = h.n(300_000, 10_000_000);
    h.prop(
        "masks_lane_by_lane",
        n,
        || {
            let special = || prop_oneof![4 => (-3i32..=3).prop_map(|k| (k as f64).to_bits()), 2 => (-2.0..=2.0f64).prop_map(|x| x.to_bits()), 1 => Just(f64::NAN.to_bits()), 1 => Just((-0.0f64).to_bits()), 1 => Just(0.0f64.to_bits()), 1 => Just(f64::INFINITY.to_bits()), 1 => Just(f64::NEG_INFINITY.to_bits())];
            (0u8..4, proptest::collection::vec(special(), 8), proptest::collection::vec(special(), 8), proptest::collection::vec(-5.0..=5.0f64, 8), proptest::collection::vec(-5.0..=5.0f64, 8), any::<bool>(), proptest::collection::vec(any::<bool>(), 8)).prop_map(|(v, a, mut b, x, y, flag, tie)| {
                // equal pairs are frequent
                for i in 0..8 {
                    if tie[i] && i % 3 == 0 {
                        b[i] = a[i];
                    }
                }
                MaskCase { v, a, b, x, y, flag }
            })
        },
        mask_point,
    );
    let nt = table.len();
    let per = h.n(800, 20_000);
    let tr = &table;
    h.prop(
        "vector_operations_lane_by_lane",
        per * nt as u64,
        || {
            let colour = || (pv::types::in_gamut_rgb(), pv::gen::unit(), 0u8..8).prop_map(|(c, a, out)| {
                // some lanes out of range, for clamp and the bounds predicates
                if out == 0 { [c[0] * 3.0 - 1.0, c[1] * 3.0 - 1.0, c[2] * 3.0 - 1.0, a * 2.0 - 0.5] } else { [c[0], c[1], c[2], a] }
            });
            (0..nt, proptest::collection::vec(colour(), 8), proptest::collection::vec(colour(), 8), proptest::collection::vec(prop_oneof![4 => pv::gen::unit(), 1 => -1.0..=2.0f64], 8), Just((0..8usize).collect::<Vec<_>>()).prop_shuffle())
                .prop_map(move |(k, lanes, lanes2, factor, perm8)| {
                    let n = vn(tr[k].v);
                    let perm: Vec<usize> = perm8.into_iter().filter(|p| *p < n).collect();
                    // the property is about in-gamut colours; out-of-range lanes are kept for clamp and the bounds predicate
                    let keep = matches!(tr[k].kind, "clamp" | "is_within_bounds" | "alpha packing");
                    let fix = |v: Vec<[f64; 4]>| -> Vec<[f64; 4]> { if keep { v } else { v.into_iter().map(|l| [l[0].clamp(0.0, 1.0), l[1].clamp(0.0, 1.0), l[2].clamp(0.0, 1.0), l[3].clamp(0.0, 1.0)]).collect() } };
                    LaneCase { k, lanes: fix(lanes), lanes2: fix(lanes2), factor, perm }
                })
        },
        |c, obs| lane_point(tr, c, obs),
    );
    let convs = pv::types::conversions();
    let nc = convs.len();
    let per = h.n(600, 20_000);
    let cr = &convs;
    h.prop(
        "f32_vs_f64_conversions",
        per * nc as u64,
        || {
            (0..nc).prop_flat_map(move |k| {
                let a = cr[k].a;
                let sp = pv::refgraph::parse(pv::types::SPACE_NAMES[a]);
                let srgb = pv::reference::spaces::standard("Srgb");
                pv::types::in_gamut_rgb().prop_map(move |c| {
                    let xyz = pv::reference::spaces::rgb_to_xyz(&srgb, c);
                    let d65 = pv::reference::spaces::D65;
                    let v = pv::refgraph::from_xyz(&sp, [xyz[0] * sp.wp[0] / d65[0], xyz[1], xyz[2] * sp.wp[2] / d65[2]]);
                    PrecCase { conv: k, x: if v.iter().all(|t| t.is_finite()) { v } else { [0.5, 0.5, 0.5] } }
                })
            })
        },
        |c, obs| prec_point(cr, c, obs),
    );
    for v in VNAMES {
        h.require_class("numeric_traits_lane_by_lane", v, 1000);
        h.require_class("masks_lane_by_lane", v, 1000);
    }
    if false {
        let r: PropResult = (|| { fail!("unreachable") })();
        let _ = r;
    }
    h.finish();
}
