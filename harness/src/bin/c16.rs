//! C16 — CAM16 appearance correlates round-trip and are mutually consistent.
use palette::cam16::{Cam16, Cam16IntoUnclamped, Cam16Jch, Cam16Jmh, Cam16Jsh, Cam16Qch, Cam16Qmh, Cam16Qsh, Cam16UcsJab, Cam16UcsJmh, IntoCam16Unclamped, Parameters, StaticWp};
use palette::convert::{Convert, FromColorUnclamped};
use palette::white_point::{Any, D50, D65};
use palette::{FromColor, Xyz};
use proptest::prelude::*;
use pv::cam::Vc;
use pv::ensure;
use pv::reference::cam16 as rf;
use pv::runner::{Fail, Harness, Obs, PropResult};
use serde::{Deserialize, Serialize};

#[derive(Debug, Clone, Serialize, Deserialize)]
struct Case {
    xyz: [f64; 3],
    vc: Vc,
    /// 0 static D65, 1 static D50, 2 dynamic (white given)
    wp_kind: u8,
    white: [f64; 3],
}

fn rel(a: f64, b: f64) -> f64 {
    (a - b).abs() / b.abs().max(1e-6)
}
fn ang(a: f64, b: f64) -> f64 {
    let d = (a - b).rem_euclid(360.0);
    d.min(360.0 - d)
}
fn full6(f: &Cam16<f64>) -> [f64; 6] {
    [f.lightness, f.chroma, f.hue.into_positive_degrees(), f.brightness, f.colorfulness, f.saturation]
}

const D65W: [f64; 3] = [0.95047, 1.0, 1.08883];
const D50W: [f64; 3] = [0.96422, 1.0, 0.82521];

fn point(c: &Case, obs: &mut Obs) -> PropResult {
    let vc = c.vc;
    let xyz = c.xyz;
    let white = match c.wp_kind {
        0 => D65W,
        1 => D50W,
        _ => c.white,
    };
    let cond = rf::Conditions { white, la: vc.la, yb: vc.yb, surround_percent: vc.surround_percent(), discount: if vc.disc == 0 { None } else { Some(vc.dv) } };
    let want = rf::forward(xyz, &cond);
    let black = xyz == [0.0; 3];
    obs.class(match vc.surround { 0 => "surround: dark", 1 => "surround: dim", 2 => "surround: average", _ => "surround: percent" });
    obs.class(if vc.disc == 0 { "discounting: auto" } else { "discounting: custom" });
    obs.class(match c.wp_kind { 0 => "white: static D65", 1 => "white: static D50", _ => "white: dynamic" });
    if !black && !(want.a > 0.0 && [want.j, want.c, want.h, want.q, want.m, want.s].iter().all(|x| x.is_finite())) {
        obs.class("reference model undefined here (negative achromatic response or chroma base; skipped)");
        return Ok(());
    }
    obs.nontrivial_if(want.m > 1.0 && !vc.is_default());
    {
        // class: does any cone response go negative? (XYZ -> CAT16 cone space, published matrix)
        let m = [[0.401288, 0.650173, -0.051461], [-0.250268, 1.204414, 0.045854], [-0.002079, 0.048952, 0.953127]];
        let neg = (0..3).any(|i| m[i][0] * xyz[0] + m[i][1] * xyz[1] + m[i][2] * xyz[2] < 0.0);
        obs.class(if neg { "negative cone response (gamut halo)" } else { "positive cone responses" });
    }
    // ---- forward + inverse through the three white point parameterisations ----
    // each closure returns (full, round trips of full + 6 partials, partial-from-xyz fields, into_full results)
    macro_rules! run {
        ($params:expr, $X:ty) => {{
            let p = $params.bake();
            let x: $X = Xyz::new(xyz[0], xyz[1], xyz[2]);
            let full = Cam16::from_xyz(x, p);
            let back = |v: $X| [v.x, v.y, v.z];
            let mut rts: Vec<(&'static str, [f64; 3])> = vec![("Cam16", back(full.into_xyz(p)))];
            let mut parts: Vec<(&'static str, [f64; 3], [f64; 3], [f64; 6])> = Vec::new();
            macro_rules! partial {
                ($P:ident, $name:expr, $a:ident, $b:ident) => {{
                    let pt = $P::from_xyz(x, p);
                    let ff = $P::from_full(full);
                    let via_from: $P<f64> = full.into();
                    let fcu = $P::<f64>::from_color_unclamped(full);
                    assert!(ff.$a.to_bits() == via_from.$a.to_bits() && ff.$b.to_bits() == fcu.$b.to_bits());
                    rts.push(($name, back(pt.into_xyz(p))));
                    parts.push(($name, [pt.$a, pt.$b, pt.hue.into_raw_degrees()], [ff.$a, ff.$b, ff.hue.into_raw_degrees()], full6(&pt.into_full(p))));
                    // trait forms agree bitwise with the inherent methods
                    let t1: $P<f64> = x.into_cam16_unclamped(p);
                    assert!(t1.$a.to_bits() == pt.$a.to_bits() && t1.$b.to_bits() == pt.$b.to_bits(), "IntoCam16Unclamped differs from from_xyz");
                    let t2: $X = pt.cam16_into_unclamped(p);
                    let t3: $X = p.convert(pt);
                    let inh = pt.into_xyz(p);
                    assert!(t2.x.to_bits() == inh.x.to_bits() && t3.z.to_bits() == inh.z.to_bits(), "Cam16IntoUnclamped / Convert differ from into_xyz");
                }};
            }
            partial!(Cam16Jch, "Cam16Jch", lightness, chroma);
            partial!(Cam16Jmh, "Cam16Jmh", lightness, colorfulness);
            partial!(Cam16Jsh, "Cam16Jsh", lightness, saturation);
            partial!(Cam16Qch, "Cam16Qch", brightness, chroma);
            partial!(Cam16Qmh, "Cam16Qmh", brightness, colorfulness);
            partial!(Cam16Qsh, "Cam16Qsh", brightness, saturation);
            let conv: Cam16<f64> = p.convert(x);
            assert!(conv.lightness.to_bits() == full.lightness.to_bits() && conv.saturation.to_bits() == full.saturation.to_bits(), "BakedParameters::convert differs from Cam16::from_xyz");
            (full, rts, parts)
        }};
    }
    let (full, rts, parts) = match c.wp_kind {
        0 => run!(pv::cam::static64(&vc), Xyz<D65, f64>),
        1 => {
            let mut p = Parameters::<StaticWp<D50>, f64>::default_static_wp(vc.la);
            let q = pv::cam::static64(&vc);
            p.background_luminance = q.background_luminance;
            p.surround = q.surround;
            p.discounting = q.discounting;
            run!(p, Xyz<D50, f64>)
        }
        _ => run!(pv::cam::dynamic64(&vc, white), Xyz<Any, f64>),
    };
    let got = full6(&full);
    ensure!(got.iter().all(|x| x.is_finite()), "Cam16::from_xyz({:?}) under {:?} = {:?}", xyz, vc, got);
    // ---- (c) published equations ----
    if black {
        ensure!(got[0] == 0.0 && got[1] == 0.0 && got[3] == 0.0 && got[4] == 0.0 && got[5] == 0.0, "black must map to all-zero attributes: {:?}", got);
    } else {
        let wantv = [want.j, want.c, want.h, want.q, want.m, want.s];
        let names = ["J", "C", "h", "Q", "M", "s"];
        for i in 0..6 {
            if i == 2 {
                if want.m > 1e-6 {
                    let e = ang(got[2], want.h);
                    obs.err("forward_hue_deg", e);
                    ensure!(e <= 1e-7 + 1e-7 / want.m, "hue {} but the published CAM16 equations give {} (xyz {:?}, {:?}, white {:?})", got[2], want.h, xyz, vc, white);
                }
            } else {
                // chroma-like correlates of (near-)greys are differences of nearly equal numbers:
                // rounding noise of ~1e-14 in a, b becomes ~1e-12 in C, M and, through the square
                // root, ~1e-5 in s; there they only have to be (numerically) zero
                if matches!(i, 1 | 4 | 5) && want.m < 1e-6 {
                    ensure!((got[i] - wantv[i]).abs() <= if i == 5 { 1e-1 } else { 1e-5 }, "{} = {} for an achromatic colour (reference {})", names[i], got[i], wantv[i]);
                    continue;
                }
                let slack = if matches!(i, 1 | 4 | 5) { 1e-9 / want.m.max(1e-9) } else { 0.0 };
                let e = rel(got[i], wantv[i]);
                obs.err("forward_rel", if slack < 1e-7 { e } else { 0.0 });
                ensure!(e <= 1e-9 + slack.min(1.0), "{} = {} but the published CAM16 equations give {} (xyz {:?}, {:?}, white {:?})", names[i], got[i], wantv[i], xyz, vc, white);
            }
        }
    }
    // the adopted white has lightness 100
    if xyz == white {
        ensure!((got[0] - 100.0).abs() <= 1e-9, "the adopted white must have J = 100, got {}", got[0]);
    }
    // ---- (a) round trips ----
    for (name, back) in &rts {
        let e = (0..3).map(|i| (back[i] - xyz[i]).abs()).fold(0.0, f64::max);
        obs.err("roundtrip_xyz_abs", e);
        if black {
            ensure!(*back == [0.0; 3], "{}: black must come back as exactly (0,0,0): {:?}", name, back);
        }
        ensure!(e <= 1e-10, "{}: XYZ {:?} -> CAM16 -> XYZ {:?} (error {:e}) under {:?}, white {:?}", name, xyz, back, e, vc, white);
    }
    // ---- (b) partial / full consistency ----
    for (name, from_xyz, from_full, into_full) in &parts {
        ensure!(from_xyz[0].to_bits() == from_full[0].to_bits() && from_xyz[1].to_bits() == from_full[1].to_bits() && from_xyz[2].to_bits() == from_full[2].to_bits(), "{}: from_xyz {:?} differs from the full colour's attributes {:?}", name, from_xyz, from_full);
        let idx = |n: &str| -> (usize, usize) { (if n.as_bytes()[5] == b'J' { 0 } else { 3 }, match n.as_bytes()[6] { b'c' => 1, b'm' => 4, _ => 5 }) };
        let (li, ci) = idx(name);
        ensure!(from_full[0].to_bits() == got_raw(&full, li).to_bits() && from_full[1].to_bits() == got_raw(&full, ci).to_bits(), "{}: from_full fields are not the full colour's fields", name);
        for i in 0..6 {
            if i == 2 {
                ensure!(ang(into_full[2], got[2]) <= 1e-9, "{}: into_full hue {} vs {}", name, into_full[2], got[2]);
            } else {
                let e = rel(into_full[i], got[i]);
                obs.err("into_full_rel", e);
                ensure!(e <= 1e-9 || (into_full[i] - got[i]).abs() <= 1e-10, "{}: into_full attribute {} = {} but the full colour has {} (xyz {:?}, {:?})", name, i, into_full[i], got[i], xyz, vc);
            }
        }
    }
    // ---- (d) CAM16-UCS ----
    let jmh = Cam16Jmh::from_full(full);
    let ucs = Cam16UcsJmh::from_color_unclamped(jmh);
    let (jp, mp, ap, bp) = rf::ucs(got[0], got[4], got[2]);
    ensure!((ucs.lightness - jp).abs() <= 1e-12 * (1.0 + jp) && (ucs.colorfulness - mp).abs() <= 1e-12 * (1.0 + mp), "Cam16UcsJmh({}, {}) but J' = 1.7J/(1+0.007J) = {}, M' = ln(1+0.0228M)/0.0228 = {}", ucs.lightness, ucs.colorfulness, jp, mp);
    ensure!(ucs.hue.into_raw_degrees().to_bits() == jmh.hue.into_raw_degrees().to_bits(), "UCS conversion changed the hue");
    let jab = Cam16UcsJab::from_color_unclamped(ucs);
    ensure!((jab.lightness - jp).abs() <= 1e-12 * (1.0 + jp) && (jab.a - ap).abs() <= 1e-11 * (1.0 + mp) && (jab.b - bp).abs() <= 1e-11 * (1.0 + mp), "Cam16UcsJab {:?} but (J', M' cos h, M' sin h) = ({}, {}, {})", jab, jp, ap, bp);
    let back_jmh = Cam16UcsJmh::from_color_unclamped(jab);
    ensure!((back_jmh.lightness - ucs.lightness).abs() <= 1e-12 * (1.0 + jp) && (back_jmh.colorfulness - ucs.colorfulness).abs() <= 1e-11 * (1.0 + mp) && (mp < 1e-9 || ang(back_jmh.hue.into_raw_degrees(), ucs.hue.into_raw_degrees()) <= 1e-9 / mp.min(1.0)), "Jab -> Jmh does not return {:?}: {:?}", ucs, back_jmh);
    let back_partial = Cam16Jmh::from_color_unclamped(back_jmh);
    ensure!(rel(back_partial.lightness, jmh.lightness) <= 1e-10 || (back_partial.lightness - jmh.lightness).abs() <= 1e-10, "UCS -> Cam16Jmh lightness {} vs {}", back_partial.lightness, jmh.lightness);
    ensure!(rel(back_partial.colorfulness, jmh.colorfulness) <= 1e-10 || (back_partial.colorfulness - jmh.colorfulness).abs() <= 1e-10, "UCS -> Cam16Jmh colorfulness {} vs {}", back_partial.colorfulness, jmh.colorfulness);
    let clamped = Cam16UcsJab::from_color(ucs);
    ensure!(clamped.lightness == jab.lightness.clamp(0.0, 100.0), "from_color on the UCS types");
    // ---- f32 ----
    if c.wp_kind == 0 {
        let p = pv::cam::baked32(&vc);
        let x = Xyz::<D65, f32>::new(xyz[0] as f32, xyz[1] as f32, xyz[2] as f32);
        let f = Cam16::<f32>::from_xyz(x, p);
        if !black && want.j > 1.0 {
            // the reference evaluated on the f32-rounded input
            let w32 = rf::forward([x.x as f64, x.y as f64, x.z as f64], &cond);
            ensure!(rel(f.lightness as f64, w32.j) <= 2e-3 && rel(f.brightness as f64, w32.q) <= 2e-3, "f32 J/Q = {}/{} but f64 reference {}/{}", f.lightness, f.brightness, w32.j, w32.q);
            // (colourfulness beyond anything a stimulus can have - negative tristimulus values of the gamut halo drive the
            // denominator t towards zero and M into the millions - is not compared in f32: no accuracy is left there)
            if w32.m > 1.0 && w32.m < 1000.0 {
                ensure!(rel(f.colorfulness as f64, w32.m) <= 5e-3 && ang(f.hue.into_positive_degrees() as f64, w32.h) <= 0.5, "f32 M/h = {}/{} but f64 reference {}/{} (xyz {:?}, {:?})", f.colorfulness, f.hue.into_positive_degrees(), w32.m, w32.h, xyz, vc);
            }
        }
        let b = f.into_xyz(p);
        let e = [(b.x - x.x).abs(), (b.y - x.y).abs(), (b.z - x.z).abs()].iter().cloned().fold(0.0f32, f32::max) as f64;
        obs.err("roundtrip_xyz_abs_f32", e);
        ensure!(e <= 2e-3, "f32 round trip {:?} -> {:?} under {:?}", x, b, vc);
        let pj = Cam16Qsh::<f32>::from_xyz(x, p).into_xyz(p);
        let e = [(pj.x - x.x).abs(), (pj.y - x.y).abs(), (pj.z - x.z).abs()].iter().cloned().fold(0.0f32, f32::max) as f64;
        ensure!(e <= 2e-3, "f32 Cam16Qsh round trip {:?} -> {:?} under {:?}", x, pj, vc);
    }
    let _ = Fail::new("");
    Ok(())
}

fn got_raw(f: &Cam16<f64>, i: usize) -> f64 {
    match i {
        0 => f.lightness,
        1 => f.chroma,
        3 => f.brightness,
        4 => f.colorfulness,
        _ => f.saturation,
    }
}

fn lin_to_xyz(m: [[f64; 3]; 3], c: [f64; 3]) -> [f64; 3] {
    [m[0][0] * c[0] + m[0][1] * c[1] + m[0][2] * c[2], m[1][0] * c[0] + m[1][1] * c[1] + m[1][2] * c[2], m[2][0] * c[0] + m[2][1] * c[1] + m[2][2] * c[2]]
}

fn xyz_pool() -> BoxedStrategy<[f64; 3]> {
    // linear RGB -> XYZ with the published sRGB and Rec.2020 matrices: in and around the sRGB gamut
    const SRGB: [[f64; 3]; 3] = [[0.4124564, 0.3575761, 0.1804375], [0.2126729, 0.7151522, 0.0721750], [0.0193339, 0.1191920, 0.9503041]];
    const R2020: [[f64; 3]; 3] = [[0.6369580, 0.1446169, 0.1688810], [0.2627002, 0.6779981, 0.0593017], [0.0000000, 0.0280727, 1.0609851]];
    let lin = |c: [f64; 3]| -> [f64; 3] { let f = |v: f64| if v <= 0.04045 { v / 12.92 } else { ((v + 0.055) / 1.055).powf(2.4) }; [f(c[0]), f(c[1]), f(c[2])] };
    prop_oneof![
        8 => pv::types::in_gamut_rgb().prop_map(move |c| lin_to_xyz(SRGB, lin(c))),
        4 => pv::types::in_gamut_rgb().prop_map(move |c| lin_to_xyz(R2020, lin(c))),
        // the halo around the gamut: one linear component slightly negative or above one (cone
        // responses can be negative there; the model keeps their sign)
        4 => (-0.1..=1.1f64, -0.1..=1.1f64, -0.1..=1.1f64, 0usize..3, -0.1..=0.0f64).prop_map(move |(r, g, b, i, neg)| { let mut c = [r, g, b]; c[i] = neg; lin_to_xyz(SRGB, c) }),
        1 => Just([0.5, 0.08, 0.1]),
        1 => Just([0.0, 0.0, 0.0]),
        1 => Just(D65W),
        1 => Just(D50W),
        2 => (0.0..=1.0f64).prop_map(|g| [0.95047 * g, g, 1.08883 * g]),
    ]
    .boxed()
}

fn vc() -> BoxedStrategy<Vc> {
    (
        prop_oneof![4 => (-0.52..=3.48f64).prop_map(|e| 10f64.powf(e)), 1 => Just(40.0), 1 => Just(64.0 / std::f64::consts::PI / 5.0), 1 => Just(0.3), 1 => Just(3000.0)],
        prop_oneof![4 => 0.05..=0.95f64, 2 => Just(0.2), 1 => Just(1e-3), 1 => Just(1.0)],
        prop_oneof![2 => Just(0u8), 2 => Just(1u8), 3 => Just(2u8), 3 => Just(3u8)],
        prop_oneof![4 => 0.0..=20.0f64, 1 => Just(-5.0), 1 => Just(25.0), 1 => Just(10.0), 1 => Just(9.999999), 1 => Just(10.000001)],
        prop_oneof![3 => Just(0u8), 2 => Just(1u8)],
        prop_oneof![3 => 0.0..=1.0f64, 1 => Just(0.0), 1 => Just(1.0), 1 => Just(1.5)],
    )
        .prop_map(|(la, yb, surround, sp, disc, dv)| Vc { la, yb, surround, sp, disc, dv })
        .boxed()
}

fn main() {
    let mut h = Harness::new("C16");
    h.rule("XYZ colours in and around the sRGB gamut (class-mixed in-gamut sRGB and Rec.2020 colours through the published matrices, greys, black, the adopted whites) x generated viewing conditions (adapting luminance log-uniform 0.3..3000, background 0.05..0.95 plus 1e-3 and 1.0, surround dark/dim/average/percent incl. -5, 25 and the row joins, discounting auto / custom 0..1 and 1.5) x static D65, static D50 and dynamic white points (D65, D50, A, E, generated). Oracles: XYZ -> {Cam16, six partials} -> XYZ within 1e-10 (f32 2e-3), black exact; partial == full attributes bitwise, into_full within 1e-9; trait/Convert forms bitwise equal to the inherent methods; forward model against the published CAM16 equations (Li et al. 2017 form) within 1e-9; adopted white J = 100; CAM16-UCS J', M', Jab<->Jmh closed forms and chain. Non-trivial = colourful (M > 1) under non-default conditions; distinct by hash.");
    h.assume("reference CAM16 written from Li et al. (2017) with CIE 159 surround rows interpolated linearly; colours whose reference achromatic response is not positive are outside the model and skipped (counted)");
    let n = h.n(5_000_000, 100_000_000);
    h.prop(
        "cam16_model",
        n,
        || {
            (xyz_pool(), vc(), prop_oneof![3 => Just(0u8), 1 => Just(1u8), 3 => Just(2u8)], prop_oneof![2 => Just(D65W), 1 => Just(D50W), 1 => Just([1.09850, 1.0, 0.35585]), 1 => Just([1.0, 1.0, 1.0]), 2 => (0.8..=1.15f64, 0.3..=1.3f64).prop_map(|(x, z)| [x, 1.0, z])], any::<bool>()).prop_map(|(xyz, vc, wp_kind, white, use_white)| {
                // sometimes the colour is the adopted white itself
                let w = match wp_kind { 0 => D65W, 1 => D50W, _ => white };
                Case { xyz: if use_white && xyz[1] > 0.9 { w } else { xyz }, vc, wp_kind, white }
            })
        },
        point,
    );
    for c in ["negative cone response (gamut halo)", "surround: dark", "surround: dim", "surround: percent", "discounting: custom", "white: dynamic", "white: static D50"] {
        h.require_class("cam16_model", c, 1000);
    }
    h.finish();
}
