//! C19 — random colour sampling respects the requested range and volume.
use palette::cam16::{Cam16UcsJab, Cam16UcsJmh};
use palette::encoding::Srgb as ESrgb;
use palette::hues::Cam16Hue;
use palette::white_point::D65;
use palette::{Alpha, Hsl, Hsluv, Hsv, Hwb, IsWithinBounds, Lab, LabHue, Lch, Lchuv, LinSrgb, Luv, LuvHue, Okhsl, Okhsv, Okhwb, Oklab, OklabHue, Oklch, RgbHue, Srgb, SrgbLuma, Xyz, Yxy};
use proptest::prelude::*;
use pv::ensure;
use pv::runner::{no_panic, Fail, Harness, Obs, PropResult};
use rand::distributions::uniform::{SampleUniform, Uniform};
use rand::distributions::{Distribution, Standard};
use rand::{Rng, SeedableRng};
use rand_mt::Mt;
use serde::{Deserialize, Serialize};

// ------------------------------------------------------------------------------------------
// shapes: how a colour type's components relate to its sampling shape
#[derive(Clone, Copy, Debug, PartialEq)]
enum Shape {
    /// three independent linear components with nominal (min, max)
    Cart([(f64, f64); 3]),
    /// hue index, height index (min,max), radius index (max)
    Cyl { h: usize, height: usize, hmax: f64, radius: usize, rmax: f64 },
    /// hue, radius (saturation), height (value): volume-uniform in the cone
    Cone { h: usize, radius: usize, height: usize, scale: f64 },
    /// hue, radius (saturation), height (lightness): volume-uniform in the bicone
    Bicone { h: usize, radius: usize, height: usize, scale: f64 },
    /// [hue, whiteness, blackness], uniform through the equivalent HSV cone
    Hwb,
    Hue,
}

trait Flt: Copy + SampleUniform + 'static + PartialOrd {
    fn f(v: f64) -> Self;
    fn d(self) -> f64;
    const NAME: &'static str;
    const TOL: f64;
}
impl Flt for f32 {
    fn f(v: f64) -> f32 { v as f32 }
    fn d(self) -> f64 { self as f64 }
    const NAME: &'static str = "f32";
    const TOL: f64 = 4e-6;
}
impl Flt for f64 {
    fn f(v: f64) -> f64 { v }
    fn d(self) -> f64 { self }
    const NAME: &'static str = "f64";
    const TOL: f64 = 1e-12;
}

struct TypeEntry {
    name: &'static str,
    shape: Shape,
    /// draw n samples from Standard with the given RNG seed -> components, within-bounds flag
    standard: fn(u64, usize, bool) -> Vec<([f64; 3], bool)>,
    /// build a uniform sampler between the two ends and draw n samples; Err = panicked
    uniform: fn(&[f64; 3], &[f64; 3], bool, u64, usize) -> Result<Vec<[f64; 3]>, String>,
}

macro_rules! rng_for {
    ($seed:expr, $std:expr) => {{
        // two RNG families: Mersenne twister (as the crate's own tests) and StdRng
        let a: Box<dyn rand::RngCore> = if $std { Box::new(rand::rngs::StdRng::seed_from_u64($seed)) } else { Box::new(Mt::new($seed as u32 ^ ($seed >> 32) as u32)) };
        a
    }};
}

macro_rules! entry {
    ($name:expr, $C:ty, $T:ty, $shape:expr, mk: |$a:ident| $mk:expr, comps: |$c:ident| $comps:expr) => {{
        fn standard(seed: u64, n: usize, std: bool) -> Vec<([f64; 3], bool)> {
            let mut rng = rng_for!(seed, std);
            (0..n).map(|_| { let $c: $C = rng.gen(); let w = $c.is_within_bounds(); ($comps, w) }).collect()
        }
        fn uniform(lo: &[f64; 3], hi: &[f64; 3], inclusive: bool, seed: u64, n: usize) -> Result<Vec<[f64; 3]>, String> {
            let (lo, hi) = (*lo, *hi);
            no_panic(move || {
                let mk = |$a: [f64; 3]| -> $C { $mk };
                let u = if inclusive { Uniform::new_inclusive(mk(lo), mk(hi)) } else { Uniform::new(mk(lo), mk(hi)) };
                let mut rng = rng_for!(seed, seed % 2 == 0);
                (0..n).map(|_| { let $c: $C = u.sample(&mut rng); $comps }).collect()
            })
        }
        TypeEntry { name: concat!($name, "<", stringify!($T), ">"), shape: $shape, standard, uniform }
    }};
}

fn entries() -> Vec<TypeEntry> {
    let unit3 = Shape::Cart([(0.0, 1.0); 3]);
    let mut v = Vec::new();
    macro_rules! both {
        ($m:ident) => { $m!(f32); $m!(f64); };
    }
    macro_rules! add { ($t:ty) => {
        v.push(entry!("Srgb", Srgb<$t>, $t, unit3, mk: |a| Srgb::new(a[0] as $t, a[1] as $t, a[2] as $t), comps: |c| [c.red as f64, c.green as f64, c.blue as f64]));
        v.push(entry!("LinSrgb", LinSrgb<$t>, $t, unit3, mk: |a| LinSrgb::new(a[0] as $t, a[1] as $t, a[2] as $t), comps: |c| [c.red as f64, c.green as f64, c.blue as f64]));
        v.push(entry!("Xyz", Xyz<D65, $t>, $t, Shape::Cart([(0.0, 0.95047), (0.0, 1.0), (0.0, 1.08883)]), mk: |a| Xyz::new(a[0] as $t, a[1] as $t, a[2] as $t), comps: |c| [c.x as f64, c.y as f64, c.z as f64]));
        v.push(entry!("Yxy", Yxy<D65, $t>, $t, unit3, mk: |a| Yxy::new(a[0] as $t, a[1] as $t, a[2] as $t), comps: |c| [c.x as f64, c.y as f64, c.luma as f64]));
        v.push(entry!("Lab", Lab<D65, $t>, $t, Shape::Cart([(0.0, 100.0), (-128.0, 127.0), (-128.0, 127.0)]), mk: |a| Lab::new(a[0] as $t, a[1] as $t, a[2] as $t), comps: |c| [c.l as f64, c.a as f64, c.b as f64]));
        v.push(entry!("Luv", Luv<D65, $t>, $t, Shape::Cart([(0.0, 100.0), (-84.0, 176.0), (-135.0, 108.0)]), mk: |a| Luv::new(a[0] as $t, a[1] as $t, a[2] as $t), comps: |c| [c.l as f64, c.u as f64, c.v as f64]));
        v.push(entry!("Oklab", Oklab<$t>, $t, Shape::Cart([(0.0, 1.0), (-1.0, 1.0), (-1.0, 1.0)]), mk: |a| Oklab::new(a[0] as $t, a[1] as $t, a[2] as $t), comps: |c| [c.l as f64, c.a as f64, c.b as f64]));
        v.push(entry!("Cam16UcsJab", Cam16UcsJab<$t>, $t, Shape::Cart([(0.0, 100.0), (-50.0, 50.0), (-50.0, 50.0)]), mk: |a| Cam16UcsJab::new(a[0] as $t, a[1] as $t, a[2] as $t), comps: |c| [c.lightness as f64, c.a as f64, c.b as f64]));
        v.push(entry!("Luma", SrgbLuma<$t>, $t, Shape::Cart([(0.0, 1.0), (0.0, 0.0), (0.0, 0.0)]), mk: |a| SrgbLuma::new(a[0] as $t), comps: |c| [c.luma as f64, 0.0, 0.0]));
        v.push(entry!("Lch", Lch<D65, $t>, $t, Shape::Cyl { h: 2, height: 0, hmax: 100.0, radius: 1, rmax: 128.0 }, mk: |a| Lch::new(a[0] as $t, a[1] as $t, a[2] as $t), comps: |c| [c.l as f64, c.chroma as f64, c.hue.into_raw_degrees() as f64]));
        v.push(entry!("Lchuv", Lchuv<D65, $t>, $t, Shape::Cyl { h: 2, height: 0, hmax: 100.0, radius: 1, rmax: 180.0 }, mk: |a| Lchuv::new(a[0] as $t, a[1] as $t, a[2] as $t), comps: |c| [c.l as f64, c.chroma as f64, c.hue.into_raw_degrees() as f64]));
        v.push(entry!("Oklch", Oklch<$t>, $t, Shape::Cyl { h: 2, height: 0, hmax: 1.0, radius: 1, rmax: 1.0 }, mk: |a| Oklch::new(a[0] as $t, a[1] as $t, a[2] as $t), comps: |c| [c.l as f64, c.chroma as f64, c.hue.into_raw_degrees() as f64]));
        v.push(entry!("Cam16UcsJmh", Cam16UcsJmh<$t>, $t, Shape::Cyl { h: 2, height: 0, hmax: 100.0, radius: 1, rmax: Cam16UcsJmh::<f64>::max_srgb_colorfulness() }, mk: |a| Cam16UcsJmh::new(a[0] as $t, a[1] as $t, a[2] as $t), comps: |c| [c.lightness as f64, c.colorfulness as f64, c.hue.into_raw_degrees() as f64]));
        v.push(entry!("Hsv", Hsv<ESrgb, $t>, $t, Shape::Cone { h: 0, radius: 1, height: 2, scale: 1.0 }, mk: |a| Hsv::new(a[0] as $t, a[1] as $t, a[2] as $t), comps: |c| [c.hue.into_raw_degrees() as f64, c.saturation as f64, c.value as f64]));
        v.push(entry!("Okhsv", Okhsv<$t>, $t, Shape::Cone { h: 0, radius: 1, height: 2, scale: 1.0 }, mk: |a| Okhsv::new(a[0] as $t, a[1] as $t, a[2] as $t), comps: |c| [c.hue.into_raw_degrees() as f64, c.saturation as f64, c.value as f64]));
        v.push(entry!("Hsl", Hsl<ESrgb, $t>, $t, Shape::Bicone { h: 0, radius: 1, height: 2, scale: 1.0 }, mk: |a| Hsl::new(a[0] as $t, a[1] as $t, a[2] as $t), comps: |c| [c.hue.into_raw_degrees() as f64, c.saturation as f64, c.lightness as f64]));
        v.push(entry!("Okhsl", Okhsl<$t>, $t, Shape::Bicone { h: 0, radius: 1, height: 2, scale: 1.0 }, mk: |a| Okhsl::new(a[0] as $t, a[1] as $t, a[2] as $t), comps: |c| [c.hue.into_raw_degrees() as f64, c.saturation as f64, c.lightness as f64]));
        v.push(entry!("Hsluv", Hsluv<D65, $t>, $t, Shape::Bicone { h: 0, radius: 1, height: 2, scale: 100.0 }, mk: |a| Hsluv::new(a[0] as $t, a[1] as $t, a[2] as $t), comps: |c| [c.hue.into_raw_degrees() as f64, c.saturation as f64, c.l as f64]));
        v.push(entry!("Hwb", Hwb<ESrgb, $t>, $t, Shape::Hwb, mk: |a| Hwb::new(a[0] as $t, a[1] as $t, a[2] as $t), comps: |c| [c.hue.into_raw_degrees() as f64, c.whiteness as f64, c.blackness as f64]));
        v.push(entry!("Okhwb", Okhwb<$t>, $t, Shape::Hwb, mk: |a| Okhwb::new(a[0] as $t, a[1] as $t, a[2] as $t), comps: |c| [c.hue.into_raw_degrees() as f64, c.whiteness as f64, c.blackness as f64]));
    }; }
    both!(add);
    v
}

// hue types and Alpha: bounds-only entries (handled separately)
fn hue_standard<H, T>(seed: u64, n: usize, get: fn(H) -> f64) -> Vec<f64>
where
    Standard: Distribution<H>,
{
    let mut rng = Mt::new(seed as u32);
    (0..n).map(|_| get(rng.gen::<H>())).collect()
}

// ------------------------------------------------------------------------------------------
// (a) + (b): bounds
#[derive(Debug, Clone, Serialize, Deserialize)]
struct StdCase {
    ty: usize,
    seed: u64,
    std_rng: bool,
}

fn std_point(ents: &[TypeEntry], c: &StdCase, obs: &mut Obs) -> PropResult {
    obs.nontrivial();
    let e = &ents[c.ty];
    for (comps, within) in (e.standard)(c.seed, 64, c.std_rng) {
        ensure!(within, "{}: rng.gen() with seed {} produced {:?}, which is not within bounds", e.name, c.seed, comps);
        ensure!(comps.iter().all(|x| x.is_finite()), "{}: non-finite sample {:?}", e.name, comps);
        let h = match e.shape {
            Shape::Cyl { h, .. } | Shape::Cone { h, .. } | Shape::Bicone { h, .. } => Some(h),
            Shape::Hwb => Some(0),
            _ => None,
        };
        if let Some(h) = h {
            ensure!(comps[h] >= 0.0 && comps[h] < 360.0 + 1e-9, "{}: sampled hue {} outside [0, 360)", e.name, comps[h]);
        }
        if let Shape::Cart(r) = e.shape {
            for i in 0..3 {
                ensure!(comps[i] >= r[i].0 - 1e-9 && comps[i] <= r[i].1 + 1e-9, "{}: component {} = {} outside the documented [{}, {}]", e.name, i, comps[i], r[i].0, r[i].1);
            }
        }
    }
    Ok(())
}

#[derive(Debug, Clone, Serialize, Deserialize)]
struct UniCase {
    ty: usize,
    lo: [f64; 3],
    hi: [f64; 3],
    inclusive: bool,
    seed: u64,
}

fn hwb_to_sv(w: f64, b: f64) -> (f64, f64) {
    let v = 1.0 - b;
    let s = if v > 0.0 { 1.0 - w / v } else { 0.0 };
    (s, v)
}

fn on_arc(x: f64, lo: f64, hi: f64, tol: f64) -> bool {
    // hi >= lo (raw); the arc runs from lo in the positive direction over hi - lo degrees
    let span = hi - lo;
    if span >= 360.0 - tol {
        return true;
    }
    let d = (x - lo).rem_euclid(360.0);
    d <= span + tol || d >= 360.0 - tol
}

fn uni_point(ents: &[TypeEntry], c: &UniCase, obs: &mut Obs) -> PropResult {
    let e = &ents[c.ty];
    let is32 = e.name.ends_with("<f32>");
    let tol = if is32 { 4e-6 } else { 1e-12 };
    let cast = |x: f64| if is32 { x as f32 as f64 } else { x };
    let lo = [cast(c.lo[0]), cast(c.lo[1]), cast(c.lo[2])];
    let hi = [cast(c.hi[0]), cast(c.hi[1]), cast(c.hi[2])];
    let hidx = match e.shape {
        Shape::Cyl { h, .. } | Shape::Cone { h, .. } | Shape::Bicone { h, .. } => Some(h),
        Shape::Hwb => Some(0),
        _ => None,
    };
    if let Some(h) = hidx {
        let wraps = lo[h].rem_euclid(360.0) > hi[h].rem_euclid(360.0) || hi[h] - lo[h] >= 360.0;
        obs.class(if wraps { "hue arc through 0 degrees" } else { "hue arc without wrap" });
        if lo[h] == hi[h] {
            obs.class("equal hue ends (inclusive)");
        }
    }
    obs.nontrivial_if((0..3).all(|i| lo[i] != hi[i] || matches!(e.shape, Shape::Cart(r) if r[i].1 == r[i].0)));
    let samples = match (e.uniform)(&c.lo, &c.hi, c.inclusive, c.seed, 48) {
        Ok(s) => s,
        Err(p) => return Err(Fail::new(format!("{}: Uniform::{}({:?}, {:?}) panicked: {}", e.name, if c.inclusive { "new_inclusive" } else { "new" }, lo, hi, p))),
    };
    for s in samples {
        ensure!(s.iter().all(|x| x.is_finite()), "{}: non-finite sample {:?} between {:?} and {:?}", e.name, s, lo, hi);
        if e.shape == Shape::Hwb {
            let (s_lo, v_lo) = hwb_to_sv(lo[1], lo[2]);
            let (s_hi, v_hi) = hwb_to_sv(hi[1], hi[2]);
            let (ss, vv) = hwb_to_sv(s[1], s[2]);
            let t = tol * 50.0 + 1e-9;
            ensure!(ss >= s_lo.min(s_hi) - t && ss <= s_lo.max(s_hi) + t, "{}: sample {:?} has equivalent HSV saturation {} outside [{}, {}] of the ends {:?} / {:?}", e.name, s, ss, s_lo.min(s_hi), s_lo.max(s_hi), lo, hi);
            ensure!(vv >= v_lo.min(v_hi) - t && vv <= v_lo.max(v_hi) + t, "{}: sample {:?} has equivalent HSV value {} outside [{}, {}]", e.name, s, vv, v_lo.min(v_hi), v_lo.max(v_hi));
        } else {
            for i in 0..3 {
                if Some(i) == hidx {
                    continue;
                }
                let r = (hi[i] - lo[i]).abs().max(hi[i].abs()).max(1e-3);
                let inside = s[i] >= lo[i] - tol * r * 4.0 && s[i] <= hi[i] + tol * r * 4.0;
                if let (false, Shape::Bicone { height, scale, .. }) = (inside, e.shape) {
                    if i == height {
                        // The bicone samplers map the height h to 1 + 4 (h - 1)^3 (resp. 4 h^3): next to a tip that is
                        // 1 - tiny and loses the end point to rounding. How far a sample can overshoot an end that is
                        // x away from the tip: the whole of x once 4 x^3 < eps, eps / (12 x^2) before that.
                        let eps = if is32 { f32::EPSILON as f64 } else { f64::EPSILON };
                        let (end, over) = if s[i] > hi[i] { (hi[i], s[i] - hi[i]) } else { (lo[i], lo[i] - s[i]) };
                        let x = (end / scale).min(1.0 - end / scale).max(0.0);
                        let bound = x.min(eps / (6.0 * x * x)) + tol * 4.0;
                        if over / scale <= bound {
                            pv::fail_keyed!("C19:bicone-end-lost-near-tip", "{}: sampled height {} outside [{}, {}] by {:e}: the end is {:e} from a tip of the bicone, where the sampler's cube loses it to rounding", e.name, s[i], lo[i], hi[i], over, x * scale);
                        }
                    }
                }
                ensure!(inside, "{}: sampled component {} = {} outside [{}, {}] (ends {:?} / {:?}, inclusive = {})", e.name, i, s[i], lo[i], hi[i], lo, hi, c.inclusive);
            }
        }
        if let Some(h) = hidx {
            ensure!(on_arc(s[h], lo[h], hi[h], if is32 { 1e-3 } else { 1e-9 }), "{}: sampled hue {} is not on the arc from {} to {} (inclusive = {})", e.name, s[h], lo[h], hi[h], c.inclusive);
        }
    }
    Ok(())
}

/// ends in the nominal range with low < high in every (transformed) component
fn ends(shape: Shape) -> BoxedStrategy<([f64; 3], [f64; 3], bool)> {
    fn pair(min: f64, max: f64) -> BoxedStrategy<(f64, f64)> {
        if max <= min {
            return Just((min, min)).boxed();
        }
        let r = max - min;
        (0.0..=0.95f64, 0.02..=1.0f64).prop_map(move |(a, w)| { let lo = min + r * a; let hi = (lo + r * w * (1.0 - a)).min(max); (lo, if hi > lo { hi } else { max }) }).boxed()
    }
    fn hue_pair() -> BoxedStrategy<(f64, f64)> {
        prop_oneof![
            4 => (-360.0..=360.0f64, 0.5..=359.0f64).prop_map(|(lo, span)| (lo, lo + span)),
            2 => (340.0..=359.0f64, 2.0..=60.0f64).prop_map(|(lo, span)| (lo, lo + span + (360.0 - lo))),
            2 => (-40.0..=-1.0f64, 41.0..=120.0f64).prop_map(|(lo, span)| (lo, lo + span)),
            1 => Just((0.0, 360.0)),
            1 => Just((-10.0, 10.0)),
            1 => Just((350.0, 370.0)),
            1 => (0.0..=360.0f64, 181.0..=359.0f64).prop_map(|(lo, span)| (lo, lo + span)),
        ]
        .boxed()
    }
    match shape {
        Shape::Cart(r) => (pair(r[0].0, r[0].1), pair(r[1].0, r[1].1), pair(r[2].0, r[2].1), any::<bool>()).prop_map(|(a, b, c, inc)| ([a.0, b.0, c.0], [a.1, b.1, c.1], inc)).boxed(),
        Shape::Cyl { h, height, hmax, radius, rmax } => (hue_pair(), pair(0.0, hmax), pair(0.0, rmax), any::<bool>())
            .prop_map(move |(hh, a, b, inc)| { let mut lo = [0.0; 3]; let mut hi = [0.0; 3]; lo[h] = hh.0; hi[h] = hh.1; lo[height] = a.0; hi[height] = a.1; lo[radius] = b.0; hi[radius] = b.1; (lo, hi, inc) })
            .boxed(),
        Shape::Cone { h, radius, height, scale } | Shape::Bicone { h, radius, height, scale } => (hue_pair(), pair(0.0, scale), pair(0.0, scale), any::<bool>())
            .prop_map(move |(hh, a, b, inc)| { let mut lo = [0.0; 3]; let mut hi = [0.0; 3]; lo[h] = hh.0; hi[h] = hh.1; lo[height] = a.0; hi[height] = a.1; lo[radius] = b.0; hi[radius] = b.1; (lo, hi, inc) })
            .boxed(),
        Shape::Hwb => (hue_pair(), pair(0.0, 1.0), pair(0.05, 1.0), any::<bool>())
            .prop_map(|(hh, s, v, inc)| {
                // ends chosen in the equivalent HSV cone, expressed as whiteness/blackness
                let w = |s: f64, v: f64| (1.0 - s) * v;
                ([hh.0, w(s.0, v.0), 1.0 - v.0], [hh.1, w(s.1, v.1), 1.0 - v.1], inc)
            })
            .boxed(),
        Shape::Hue => unreachable!(),
    }
}

// ------------------------------------------------------------------------------------------
// (c) volume uniformity: Kolmogorov-Smirnov on the transformed variates
fn ks(mut xs: Vec<f64>) -> f64 {
    xs.sort_by(|a, b| a.partial_cmp(b).unwrap());
    let n = xs.len() as f64;
    let mut d: f64 = 0.0;
    for (i, x) in xs.iter().enumerate() {
        d = d.max((x - i as f64 / n).abs()).max(((i + 1) as f64 / n - x).abs());
    }
    d
}
fn chi2_8x8(a: &[f64], b: &[f64]) -> f64 {
    let mut cells = [[0f64; 8]; 8];
    for (x, y) in a.iter().zip(b) {
        let i = ((x * 8.0) as usize).min(7);
        let j = ((y * 8.0) as usize).min(7);
        cells[i][j] += 1.0;
    }
    let e = a.len() as f64 / 64.0;
    cells.iter().flatten().map(|o| (o - e) * (o - e) / e).sum()
}
fn bicone_cdf(l: f64) -> f64 {
    if l <= 0.5 { 4.0 * l.powi(3) } else { 1.0 - 4.0 * (1.0 - l).powi(3) }
}

/// map a sample to variates that must be U(0,1) (given the ends lo/hi in the same transformed space)
fn variates(shape: Shape, s: [f64; 3], lo: [f64; 3], hi: [f64; 3]) -> Vec<(&'static str, f64)> {
    let u = |x: f64, a: f64, b: f64| (x - a) / (b - a);
    match shape {
        Shape::Cart(_) => vec![("c0", u(s[0], lo[0], hi[0])), ("c1", if hi[1] > lo[1] { u(s[1], lo[1], hi[1]) } else { 0.5 }), ("c2", if hi[2] > lo[2] { u(s[2], lo[2], hi[2]) } else { 0.5 })],
        Shape::Cyl { h, height, radius, .. } => vec![("hue", u((s[h] - lo[h]).rem_euclid(360.0), 0.0, hi[h] - lo[h])), ("height", u(s[height], lo[height], hi[height])), ("radius^2", u(s[radius].powi(2), lo[radius].powi(2), hi[radius].powi(2)))],
        Shape::Cone { h, radius, height, scale } => vec![("hue", u((s[h] - lo[h]).rem_euclid(360.0), 0.0, hi[h] - lo[h])), ("height^3", u((s[height] / scale).powi(3), (lo[height] / scale).powi(3), (hi[height] / scale).powi(3))), ("radius^2", u((s[radius] / scale).powi(2), (lo[radius] / scale).powi(2), (hi[radius] / scale).powi(2)))],
        Shape::Bicone { h, radius, height, scale } => vec![("hue", u((s[h] - lo[h]).rem_euclid(360.0), 0.0, hi[h] - lo[h])), ("bicone-cdf(height)", u(bicone_cdf(s[height] / scale), bicone_cdf(lo[height] / scale), bicone_cdf(hi[height] / scale))), ("radius^2", u((s[radius] / scale).powi(2), (lo[radius] / scale).powi(2), (hi[radius] / scale).powi(2)))],
        Shape::Hwb => {
            let (ss, vv) = hwb_to_sv(s[1], s[2]);
            let (s0, v0) = hwb_to_sv(lo[1], lo[2]);
            let (s1, v1) = hwb_to_sv(hi[1], hi[2]);
            vec![("hue", u((s[0] - lo[0]).rem_euclid(360.0), 0.0, hi[0] - lo[0])), ("v^3", u(vv.powi(3), v0.min(v1).powi(3), v0.max(v1).powi(3))), ("s^2", u(ss.powi(2), s0.min(s1).powi(2), s0.max(s1).powi(2)))]
        }
        Shape::Hue => vec![],
    }
}

#[derive(Debug, Clone, Serialize, Deserialize)]
struct KsCase {
    ty: usize,
    /// 0 = Standard, 1 = Uniform over the whole shape, 2 = Uniform over a sub-range
    mode: u8,
    seed: u64,
    n: usize,
}

fn full_range(shape: Shape) -> ([f64; 3], [f64; 3]) {
    match shape {
        Shape::Cart(r) => ([r[0].0, r[1].0, r[2].0], [r[0].1, r[1].1, r[2].1]),
        Shape::Cyl { h, height, hmax, radius, rmax } => { let mut lo = [0.0; 3]; let mut hi = [0.0; 3]; hi[h] = 360.0; hi[height] = hmax; hi[radius] = rmax; lo[h] = 0.0; (lo, hi) }
        Shape::Cone { h, radius, height, scale } | Shape::Bicone { h, radius, height, scale } => { let lo = [0.0; 3]; let mut hi = [0.0; 3]; hi[h] = 360.0; hi[height] = scale; hi[radius] = scale; (lo, hi) }
        Shape::Hwb => ([0.0, 0.0, 1.0], [360.0, 0.0, 0.0]),
        Shape::Hue => ([0.0; 3], [0.0; 3]),
    }
}
fn sub_range(shape: Shape) -> ([f64; 3], [f64; 3]) {
    let (lo, hi) = full_range(shape);
    match shape {
        Shape::Hwb => {
            // HSV ends s: 0.2..0.9, v: 0.3..0.8, hue arc through 0
            let w = |s: f64, v: f64| (1.0 - s) * v;
            ([300.0, w(0.2, 0.3), 0.7], [420.0, w(0.9, 0.8), 0.2])
        }
        _ => {
            let mut l = [0.0; 3];
            let mut h = [0.0; 3];
            for i in 0..3 {
                l[i] = lo[i] + 0.2 * (hi[i] - lo[i]);
                h[i] = lo[i] + 0.85 * (hi[i] - lo[i]);
            }
            if let Shape::Cyl { h: hh, .. } | Shape::Cone { h: hh, .. } | Shape::Bicone { h: hh, .. } = shape {
                l[hh] = 300.0;
                h[hh] = 420.0;
            }
            (l, h)
        }
    }
}

fn ks_point(ents: &[TypeEntry], c: &KsCase, obs: &mut Obs) -> PropResult {
    let e = &ents[c.ty];
    obs.nontrivial();
    let (lo, hi) = if c.mode == 2 { sub_range(e.shape) } else { full_range(e.shape) };
    let samples: Vec<[f64; 3]> = match c.mode {
        0 => (e.standard)(c.seed, c.n, false).into_iter().map(|x| x.0).collect(),
        _ => (e.uniform)(&lo, &hi, c.mode == 1, c.seed | 1, c.n).map_err(|p| Fail::new(format!("{}: uniform sampler panicked: {}", e.name, p)))?,
    };
    let (vlo, vhi) = if c.mode == 0 { full_range(e.shape) } else { (lo, hi) };
    let vs: Vec<Vec<(&'static str, f64)>> = samples.iter().map(|s| variates(e.shape, *s, vlo, vhi)).collect();
    let k = vs[0].len();
    // threshold: p = 2 exp(-2 N D^2) = 1.5e-11 at N = 2e5, D = 0.008; scaled with 1/sqrt(N)
    let thr = 0.008 * (200_000f64 / c.n as f64).sqrt();
    let mut cols: Vec<Vec<f64>> = vec![Vec::with_capacity(c.n); k];
    for v in &vs {
        for (j, (_, x)) in v.iter().enumerate() {
            cols[j].push(*x);
        }
    }
    for j in 0..k {
        let name = vs[0][j].0;
        if cols[j].iter().all(|x| *x == 0.5) {
            continue;
        }
        let d = ks(cols[j].clone());
        obs.err("ks_statistic", d);
        ensure!(d < thr, "{} mode {}: variate '{}' is not uniform: Kolmogorov-Smirnov D = {:.5} >= {:.5} over {} samples (seed {}): the samples are not uniform with respect to the volume of the shape", e.name, c.mode, name, d, thr, c.n, c.seed);
    }
    if k == 3 && !matches!(e.shape, Shape::Cart(_)) {
        for (i, j) in [(0, 1), (0, 2), (1, 2)] {
            let x = chi2_8x8(&cols[i], &cols[j]);
            obs.err("chi2_independence_63dof", x);
            // 63 dof: p(chi2 > 160) ~ 1e-10
            ensure!(x < 160.0, "{} mode {}: variates '{}' and '{}' are not independent: chi^2 = {:.1} (63 dof)", e.name, c.mode, vs[0][i].0, vs[0][j].0, x);
        }
    }
    Ok(())
}

// ------------------------------------------------------------------------------------------
#[derive(Debug, Clone, Serialize, Deserialize)]
struct HueCase {
    lo: f64,
    span: f64,
    inclusive: bool,
    seed: u64,
}

fn hue_point(c: &HueCase, obs: &mut Obs) -> PropResult {
    let (lo, hi) = (c.lo, c.lo + c.span);
    obs.nontrivial_if(c.span > 0.0);
    obs.class(if lo.rem_euclid(360.0) > hi.rem_euclid(360.0) { "hue arc through 0 degrees" } else { "hue arc without wrap" });
    macro_rules! one {
        ($H:ident, $t:ty, $tol:expr) => {{
            let (l, h) = (lo as $t, hi as $t);
            let r = no_panic(|| {
                let u = if c.inclusive { Uniform::new_inclusive($H::<$t>::from_degrees(l), $H::<$t>::from_degrees(h)) } else { Uniform::new($H::<$t>::from_degrees(l), $H::<$t>::from_degrees(h)) };
                let mut rng = Mt::new(c.seed as u32);
                (0..32).map(|_| u.sample(&mut rng).into_raw_degrees() as f64).collect::<Vec<f64>>()
            });
            match r {
                Ok(v) => {
                    for x in v {
                        ensure!(on_arc(x, l as f64, h as f64, $tol), "{}<{}>: sampled hue {} is not on the arc from {} to {} (inclusive = {})", stringify!($H), stringify!($t), x, l, h, c.inclusive);
                    }
                }
                Err(p) => {
                    // rand rejects an empty half-open range; that is its documented precondition
                    ensure!(!c.inclusive && (l >= h), "{}<{}>: Uniform over hues {}..{} panicked: {}", stringify!($H), stringify!($t), l, h, p);
                }
            }
        }};
    }
    one!(RgbHue, f64, 1e-9);
    one!(RgbHue, f32, 2e-3);
    one!(LabHue, f64, 1e-9);
    one!(LuvHue, f32, 2e-3);
    one!(OklabHue, f64, 1e-9);
    one!(Cam16Hue, f32, 2e-3);
    // standard distribution of hues
    for x in hue_standard::<RgbHue<f64>, f64>(c.seed, 16, |h| h.into_raw_degrees()) {
        ensure!((0.0..360.0).contains(&x), "RgbHue standard sample {} outside [0, 360)", x);
    }
    for x in hue_standard::<OklabHue<f32>, f32>(c.seed, 16, |h| h.into_raw_degrees() as f64) {
        ensure!((0.0..360.0 + 1e-4).contains(&x), "OklabHue<f32> standard sample {} outside [0, 360)", x);
    }
    // Alpha: colour and alpha sampled independently between their own ends
    let (al, ah) = ((c.seed % 97) as f64 / 200.0, 0.5 + (c.seed % 89) as f64 / 200.0);
    let u = Uniform::new_inclusive(Alpha { color: Hsv::<ESrgb, f64>::new(lo, 0.25, 0.5), alpha: al }, Alpha { color: Hsv::<ESrgb, f64>::new(hi, 0.75, 0.9), alpha: ah });
    let mut rng = Mt::new(c.seed as u32 ^ 99);
    for _ in 0..16 {
        let s = u.sample(&mut rng);
        ensure!(s.alpha >= al && s.alpha <= ah, "Alpha<Hsv> uniform: alpha {} outside [{}, {}]", s.alpha, al, ah);
        ensure!(s.color.saturation >= 0.25 - 1e-12 && s.color.saturation <= 0.75 + 1e-12 && s.color.value >= 0.5 - 1e-12 && s.color.value <= 0.9 + 1e-12, "Alpha<Hsv> uniform: colour {:?} outside the ends", s.color);
        ensure!(on_arc(s.color.hue.into_raw_degrees(), lo, hi, 1e-9), "Alpha<Hsv> uniform: hue {} not on the arc {}..{}", s.color.hue.into_raw_degrees(), lo, hi);
    }
    let s: Alpha<Srgb<f32>, f32> = rng.gen();
    ensure!(s.color.is_within_bounds() && (0.0..=1.0).contains(&s.alpha), "Alpha<Srgb> standard sample out of bounds");
    Ok(())
}


// ------------------------------------------------------------------------------------------
// Alpha-wrapped samplers: colour and alpha are sampled independently between their own ends, for every alpha number
// format, exclusive and inclusive, including ends that coincide in the alpha (two opaque colours) or in every component.
#[derive(Debug, Clone, Serialize, Deserialize)]
struct AlphaCase {
    ty: usize,
    lo: [f64; 3],
    hi: [f64; 3],
    al: f64,
    ah: f64,
    inclusive: bool,
    seed: u64,
}
const ALPHA_TYPES: usize = 8;

fn alpha_point(c: &AlphaCase, obs: &mut Obs) -> PropResult {
    let eq_alpha = c.al == c.ah;
    let eq_all = eq_alpha && (0..3).all(|i| c.lo[i] == c.hi[i]);
    obs.nontrivial();
    obs.class(match (c.inclusive, eq_all, eq_alpha) {
        (true, true, _) => "alpha: inclusive, both ends equal",
        (true, false, true) => "alpha: inclusive, same alpha at both ends",
        (true, false, false) => "alpha: inclusive, distinct ends",
        (false, ..) => "alpha: exclusive",
    });
    // $mk: (components scaled to the type's range) -> colour; $get: colour -> [f64; 3]; $A: alpha type; $ua: f64 in [0,1] -> alpha
    macro_rules! run {
        ($name:expr, $C:ty, $A:ty, $mk:expr, $get:expr, $ua:expr, $fa:expr, $tol:expr) => {{
            let mk = $mk;
            let get = $get;
            let (l, h): ($C, $C) = (mk(c.lo), mk(c.hi));
            let (al, ah): ($A, $A) = ($ua(c.al), $ua(c.ah));
            let (lv, hv): ([f64; 3], [f64; 3]) = (get(l), get(h));
            // the precondition of rand's Uniform in the component type actually used: low < high (exclusive), low <= high (inclusive)
            let ok_excl = (0..3).all(|i| lv[i] < hv[i] || (lv[i] == hv[i] && lv[i].is_nan())) && al < ah;
            if !c.inclusive && !ok_excl {
                obs.class("alpha: exclusive range empty in this number format (skipped)");
            } else {
                let r = no_panic(|| {
                    let lo = Alpha::<$C, $A> { color: l, alpha: al };
                    let hi = Alpha::<$C, $A> { color: h, alpha: ah };
                    let u = if c.inclusive { Uniform::new_inclusive(lo, hi) } else { Uniform::new(lo, hi) };
                    let mut rng = Mt::new(c.seed as u32);
                    (0..24).map(|_| { let s = u.sample(&mut rng); (get(s.color), s.alpha) }).collect::<Vec<([f64; 3], $A)>>()
                });
                match r {
                    Err(p) => pv::fail!("Alpha<{}, {}>: Uniform::{} between {:?} alpha {:?} and {:?} alpha {:?} panicked: {}", $name, stringify!($A), if c.inclusive { "new_inclusive" } else { "new" }, lv, al, hv, ah, p),
                    Ok(v) => {
                        for (col, a) in v {
                            ensure!(a >= al && a <= ah && (c.inclusive || a < ah), "Alpha<{}, {}>: sampled alpha {:?} outside {:?}..{}{:?}", $name, stringify!($A), a, al, if c.inclusive { "=" } else { "" }, ah);
                            for i in 0..3 {
                                ensure!(col[i] >= lv[i] - $tol && col[i] <= hv[i] + $tol, "Alpha<{}, {}>: sampled component {} = {} outside [{}, {}] (inclusive = {})", $name, stringify!($A), i, col[i], lv[i], hv[i], c.inclusive);
                            }
                            let _ = $fa(a);
                        }
                    }
                }
            }
        }};
    }
    let unit32 = |x: f64| x as f32;
    let unit64 = |x: f64| x;
    let unit8 = |x: f64| (x * 255.0).round() as u8;
    let unit16 = |x: f64| (x * 65535.0).round() as u16;
    match c.ty {
        0 => run!("Srgb<f32>", Srgb<f32>, f32, |v: [f64; 3]| Srgb::new(v[0] as f32, v[1] as f32, v[2] as f32), |x: Srgb<f32>| [x.red as f64, x.green as f64, x.blue as f64], unit32, |a: f32| a as f64, 0.0),
        1 => run!("LinSrgb<f64>", LinSrgb<f64>, f64, |v: [f64; 3]| LinSrgb::new(v[0], v[1], v[2]), |x: LinSrgb<f64>| [x.red, x.green, x.blue], unit64, |a: f64| a, 0.0),
        2 => run!("Lab<f64>", Lab<D65, f64>, f32, |v: [f64; 3]| Lab::new(v[0] * 100.0, v[1] * 255.0 - 128.0, v[2] * 255.0 - 128.0), |x: Lab<D65, f64>| [x.l, x.a, x.b], unit32, |a: f32| a as f64, 0.0),
        3 => run!("Xyz<f32>", Xyz<D65, f32>, f64, |v: [f64; 3]| Xyz::new(v[0] as f32, v[1] as f32, v[2] as f32), |x: Xyz<D65, f32>| [x.x as f64, x.y as f64, x.z as f64], unit64, |a: f64| a, 0.0),
        4 => run!("Oklab<f32>", Oklab<f32>, u8, |v: [f64; 3]| Oklab::new(v[0] as f32, v[1] as f32 - 0.5, v[2] as f32 - 0.5), |x: Oklab<f32>| [x.l as f64, x.a as f64, x.b as f64], unit8, |a: u8| a as f64, 0.0),
        5 => run!("SrgbLuma<f64>", SrgbLuma<f64>, u16, |v: [f64; 3]| SrgbLuma::new(v[0]), |x: SrgbLuma<f64>| [x.luma, x.luma, x.luma], unit16, |a: u16| a as f64, 0.0),
        6 => run!("Luv<f32>", Luv<D65, f32>, f32, |v: [f64; 3]| Luv::new(v[0] as f32 * 100.0, v[1] as f32 * 100.0, v[2] as f32 * 100.0), |x: Luv<D65, f32>| [x.l as f64, x.u as f64, x.v as f64], unit32, |a: f32| a as f64, 0.0),
        _ => run!("Yxy<f64>", Yxy<D65, f64>, f64, |v: [f64; 3]| Yxy::new(v[0], v[1], v[2]), |x: Yxy<D65, f64>| [x.x, x.y, x.luma], unit64, |a: f64| a, 0.0),
    }
    Ok(())
}

fn alpha_case() -> impl Strategy<Value = AlphaCase> {
    let comp = || prop_oneof![3 => (0.0..=1.0f64, 0.0..=1.0f64).prop_map(|(a, b)| (a.min(b), a.max(b))), 1 => (0.0..=1.0f64).prop_map(|a| (a, a)), 1 => Just((0.0, 1.0)), 1 => (0u32..=255).prop_map(|k| (k as f64 / 255.0, k as f64 / 255.0))];
    (0usize..ALPHA_TYPES, [comp(), comp(), comp()], prop_oneof![3 => comp(), 2 => Just((1.0, 1.0)), 1 => Just((0.0, 0.0)), 1 => Just((0.0, 1.0))], any::<bool>(), any::<bool>(), any::<u64>()).prop_map(|(ty, cs, (al, ah), inclusive, all_equal, seed)| {
        let mut lo = [cs[0].0, cs[1].0, cs[2].0];
        let mut hi = [cs[0].1, cs[1].1, cs[2].1];
        let (mut al, mut ah) = (al, ah);
        if inclusive && all_equal && seed % 4 == 0 {
            hi = lo;
            ah = al;
        }
        if !inclusive {
            // exclusive samplers need low < high in every component: widen coincident ends
            for i in 0..3 {
                if lo[i] >= hi[i] {
                    lo[i] = (lo[i] - 0.25).max(0.0);
                    hi[i] = (lo[i] + 0.5).min(1.0);
                }
            }
            if al >= ah {
                al = (al - 0.25).max(0.0);
                ah = (al + 0.5).min(1.0);
            }
        }
        AlphaCase { ty, lo, hi, al, ah, inclusive, seed }
    })
}

fn main() {
    let mut h = Harness::new("C19");
    let ents: &'static [TypeEntry] = Box::leak(entries().into_boxed_slice());
    h.rule("(a) Standard: 64 samples per generated (type, RNG seed, RNG family {Mersenne twister, StdRng}) for 20 colour types x f32/f64: within bounds, hue in [0,360); (b) Uniform::new / new_inclusive between generated ends inside the nominal range with low < high in every transformed component (hue arcs: through 0, > 180, full turn, -10..10, 350..370; equal ends for inclusive hue samplers), 48 samples each: every component between the ends (Hwb forms: equivalent HSV saturation/value), hue on the arc from low to high; hue types and Alpha separately; (c) volume uniformity at fixed seeds derived from VERIF_SEED: Kolmogorov-Smirnov statistic of the transformed variates (cone: v^3, s^2; bicone: bicone CDF of l, s^2; Hwb via equivalent HSV; cylinder: c^2; hue) over 2e5 samples (thorough 2e6) must stay below 0.008 (p ~ 1.5e-11; a wrong exponent gives D ~ 0.1), plus 8x8 chi^2 independence, for Standard, whole-shape Uniform and sub-range Uniform with an arc through 0. Non-trivial = low != high in every component.");
    h.assume("statistical clause: pure function of tree + VERIF_SEED; residual false-alarm probability < 1e-7 per seed over all ~400 tests; rand's documented precondition low < high for Uniform::new is respected by the generator");
    let nty = ents.len();
    let n = h.n(3_000_000, 40_000_000);
    h.prop("standard_within_bounds", n, move || (0..nty, any::<u64>(), any::<bool>()).prop_map(|(ty, seed, std_rng)| StdCase { ty, seed, std_rng }), move |c, obs| std_point(ents, c, obs));
    let n = h.n(4_000_000, 60_000_000);
    h.prop(
        "uniform_between_ends",
        n,
        move || (0..nty).prop_flat_map(move |ty| (ends(ents[ty].shape), any::<u64>()).prop_map(move |((lo, hi, inclusive), seed)| UniCase { ty, lo, hi, inclusive, seed })),
        move |c, obs| uni_point(ents, c, obs),
    );
    let n = h.n(2_000_000, 30_000_000);
    h.prop(
        "hue_and_alpha_samplers",
        n,
        || {
            (prop_oneof![3 => -360.0..=360.0f64, 1 => Just(0.0), 1 => Just(350.0), 1 => Just(-10.0)], prop_oneof![6 => 0.01..=360.0f64, 1 => Just(20.0), 1 => Just(360.0), 2 => Just(0.0)], any::<bool>(), any::<u64>()).prop_map(|(lo, span, inclusive, seed)| {
                // equal ends only make sense for the inclusive sampler
                let inclusive = inclusive || span == 0.0;
                // a full turn is only a full turn if low + 360 is exact; otherwise the arc is a
                // hair longer or shorter than the circle, which is outside the property's domain
                let lo = if span == 360.0 { (lo * 4.0).round() / 4.0 } else { lo };
                HueCase { lo, span, inclusive, seed }
            })
        },
        hue_point,
    );
    let n = h.n(600_000, 10_000_000);
    h.prop("alpha_wrapped_samplers", n, alpha_case, alpha_point);
    h.require_class("alpha_wrapped_samplers", "alpha: inclusive, same alpha at both ends", n / 40);
    h.require_class("alpha_wrapped_samplers", "alpha: inclusive, both ends equal", n / 200);
    // (c) volume uniformity
    let ksn = if h.is_thorough() { 2_000_000 } else { 200_000 };
    let seed = h.seed;
    let reps = if h.is_thorough() { 6 } else { 3 };
    let total = nty * 3 * reps;
    h.sweep::<KsCase, _, _>("volume_uniformity_ks", false, total, move |c, obs| ks_point(ents, c, obs), move |i, obs| {
        let (ty, mode, rep) = (i % nty, ((i / nty) % 3) as u8, i / (nty * 3));
        let c = KsCase { ty, mode, seed: pv::runner::mix_seed(seed, "ks", (i as u64) << 8 | rep as u64), n: ksn };
        if let Err(f) = ks_point(ents, &c, obs) {
            obs.report(&c, f);
        }
        obs.evals += ksn as u64;
        obs.sweep_nontrivial += ksn as u64;
        obs.sample(&c);
    });
    h.require_class("uniform_between_ends", "hue arc through 0 degrees", n / 20);
    h.finish();
}
