//! C11 — hues behave as angles on a circle.
use palette::hues::Cam16Hue;
use palette::{LabHue, LuvHue, OklabHue, RgbHue};
use proptest::prelude::*;
use pv::gen::{next_up32, next_up64, ulp32, ulp64};
use pv::runner::{Fail, Harness, Obs, PropResult};
use pv::ensure;
use serde::{Deserialize, Serialize};

const HNAMES: [&str; 5] = ["LabHue", "RgbHue", "LuvHue", "OklabHue", "Cam16Hue"];

macro_rules! by_hue {
    ($k:expr, $H:ident => $e:expr) => {
        match $k {
            0 => { type $H<T> = LabHue<T>; $e }
            1 => { type $H<T> = RgbHue<T>; $e }
            2 => { type $H<T> = LuvHue<T>; $e }
            3 => { type $H<T> = OklabHue<T>; $e }
            4 => { type $H<T> = Cam16Hue<T>; $e }
            _ => unreachable!(),
        }
    };
}

/// exact value of a finite f64 as (mantissa, exponent): x = m * 2^e
fn decompose(x: f64) -> (i128, i32) {
    if x == 0.0 {
        return (0, 0);
    }
    let bits = x.to_bits();
    let sign = if bits >> 63 == 1 { -1i128 } else { 1 };
    let exp = ((bits >> 52) & 0x7ff) as i32;
    let frac = (bits & 0xf_ffff_ffff_ffff) as i128;
    if exp == 0 {
        (sign * frac, -1074)
    } else {
        (sign * (frac | (1 << 52)), exp - 1075)
    }
}

/// distance of (y - x) to the nearest multiple of 360, computed exactly when the exponents allow
fn congruence_error(x: f64, y: f64) -> f64 {
    let (mx, ex) = decompose(x);
    let (my, ey) = decompose(y);
    let e = ex.min(ey);
    if e >= -64 && ex - e <= 40 && ey - e <= 40 && (mx == 0 || ex + 53 <= 22) && (my == 0 || ey + 53 <= 22) {
        // both are integers times 2^e, |value| < 2^22 -> fits i128 comfortably (<= 2^(22+64))
        let ix = mx << (ex - e);
        let iy = my << (ey - e);
        let d = iy - ix;
        if e >= 0 {
            let dd = d << e;
            let r = dd.rem_euclid(360);
            return r.min(360 - r) as f64;
        }
        let unit = 360i128 << (-e); // 360 in units of 2^e
        let r = d.rem_euclid(unit);
        let r = r.min(unit - r);
        return (r as f64) * 2f64.powi(e);
    }
    // fallback (tiny components): plain f64 arithmetic, error <= ulp(y)/2
    let d = y - x;
    let r = d - 360.0 * (d / 360.0).round();
    r.abs()
}

/// exact residue of x in [0, 360) as f64 (rounded once), via the same exact path
fn residue(x: f64) -> f64 {
    let (m, e) = decompose(x);
    if m == 0 {
        return 0.0;
    }
    if e >= 0 {
        return ((m << e).rem_euclid(360)) as f64;
    }
    if e >= -80 {
        let unit = 360i128 << (-e);
        let r = m.rem_euclid(unit);
        return (r as f64) * 2f64.powi(e);
    }
    if x >= 0.0 {
        x
    } else {
        360.0 + x
    }
}

#[derive(Debug, Clone, Serialize, Deserialize)]
struct F32Angle {
    hue: usize,
    bits: u32,
}

fn f32_norm_point(c: &F32Angle, obs: &mut Obs) -> PropResult {
    let x = f32::from_bits(c.bits);
    let k = c.hue;
    if !x.is_finite() {
        return Ok(());
    }
    let (s, p, sr, pr, viaf32, viaf64) = by_hue!(k, H => {
        let h = H::<f32>::from_degrees(x);
        (h.into_degrees(), h.into_positive_degrees(), h.into_radians(), h.into_positive_radians(), f32::from(h), f64::from(h))
    });
    let u = ulp32(x.abs().max(360.0)) as f64;
    obs.err("signed_excess_ulps", ((s.abs() as f64 - 180.0) / u).max(0.0));
    obs.err("unsigned_excess_ulps", ((p as f64 - 360.0) / u).max((-(p as f64)) / u).max(0.0));
    ensure!(s as f64 >= -180.0 - u && s as f64 <= 180.0 + u, "{}({:e}).into_degrees() = {:e} outside [-180,180] +- ulp", HNAMES[k], x, s);
    ensure!(p as f64 >= -u && p as f64 <= 360.0 + u, "{}({:e}).into_positive_degrees() = {:e} outside [0,360] +- ulp", HNAMES[k], x, p);
    let es = congruence_error(x as f64, s as f64);
    let ep = congruence_error(x as f64, p as f64);
    obs.err("congruence_ulps", es.max(ep) / u);
    ensure!(es <= u, "{}({:e}).into_degrees() = {:e} not congruent mod 360 (error {:e} > ulp {:e})", HNAMES[k], x, s, es, u);
    ensure!(ep <= u, "{}({:e}).into_positive_degrees() = {:e} not congruent mod 360 (error {:e} > ulp {:e})", HNAMES[k], x, p, ep, u);
    ensure!(sr.to_bits() == s.to_radians().to_bits(), "{}: into_radians != to_radians(into_degrees) for {:e}", HNAMES[k], x);
    ensure!(pr.to_bits() == p.to_radians().to_bits(), "{}: into_positive_radians != to_radians(into_positive_degrees) for {:e}", HNAMES[k], x);
    ensure!(viaf32.to_bits() == s.to_bits() && viaf64.to_bits() == (s as f64).to_bits(), "{}: From<hue> for float differs from into_degrees for {:e}", HNAMES[k], x);
    Ok(())
}

#[derive(Debug, Clone, Serialize, Deserialize)]
struct F64Angle {
    hue: usize,
    x: f64,
}

fn f64_norm_point(c: &F64Angle, obs: &mut Obs) -> PropResult {
    let x = c.x;
    let k = c.hue;
    if !x.is_finite() {
        return Ok(());
    }
    obs.nontrivial_if(x.abs() > 360.0 || x < 0.0 || (residue(x) % 180.0).min(180.0 - residue(x) % 180.0) < 4.0 * ulp64(x.abs().max(360.0)));
    obs.class(if x.abs() > 360.0 { "beyond-one-turn" } else if x < 0.0 { "negative" } else { "in-first-turn" });
    let (s, p, sr, pr, via) = by_hue!(k, H => {
        let h = H::<f64>::from_degrees(x);
        (h.into_degrees(), h.into_positive_degrees(), h.into_radians(), h.into_positive_radians(), f64::from(h))
    });
    let u = ulp64(x.abs().max(360.0));
    ensure!(s >= -180.0 - u && s <= 180.0 + u, "{}({:e}).into_degrees() = {:e} outside [-180,180] +- ulp", HNAMES[k], x, s);
    ensure!(p >= -u && p <= 360.0 + u, "{}({:e}).into_positive_degrees() = {:e} outside [0,360] +- ulp", HNAMES[k], x, p);
    let es = congruence_error(x, s);
    let ep = congruence_error(x, p);
    obs.err("congruence_ulps", es.max(ep) / u);
    ensure!(es <= u, "{}({:e}).into_degrees() = {:e} not congruent mod 360 (error {:e} > ulp {:e})", HNAMES[k], x, s, es, u);
    ensure!(ep <= u, "{}({:e}).into_positive_degrees() = {:e} not congruent mod 360 (error {:e} > ulp {:e})", HNAMES[k], x, p, ep, u);
    ensure!(sr.to_bits() == s.to_radians().to_bits() && pr.to_bits() == p.to_radians().to_bits(), "{}: radian accessors inconsistent for {:e}", HNAMES[k], x);
    ensure!(via.to_bits() == s.to_bits(), "{}: From<hue> for f64 differs from into_degrees", HNAMES[k]);
    // f32::from(Hue<f64>): the signed normal form of the *stored f64 angle*, rounded once to f32 (not the normal form of
    // the angle rounded to f32, which loses the fraction at large magnitudes)
    let via32: f32 = by_hue!(k, H => f32::from(H::<f64>::from_degrees(x)));
    let e32 = (via32 as f64 - s).abs();
    obs.err("f64_hue_to_f32_ulps32", e32 / ulp32(via32.abs().max(f32::MIN_POSITIVE)) as f64);
    ensure!(e32 <= 1.0 * ulp32((s as f32).abs().max(1e-30)) as f64 + 4.0 * u, "{}({:e}): f32::from(hue) = {:e} but the signed normal form of the stored f64 angle is {:e} (error {:e})", HNAMES[k], x, via32, s, e32);
    // raw accessors
    let (raw, rawrad, back) = by_hue!(k, H => {
        let h = H::<f64>::from_degrees(x);
        (h.into_raw_degrees(), h.into_raw_radians(), H::<f64>::from_radians(h.into_raw_radians()).into_raw_degrees())
    });
    ensure!(raw.to_bits() == x.to_bits(), "into_raw_degrees changed the angle");
    ensure!(rawrad.to_bits() == x.to_radians().to_bits(), "into_raw_radians != to_radians");
    ensure!((back - x).abs() <= 2.0 * ulp64(x) + 4.0 * f64::MIN_POSITIVE, "from_radians(into_raw_radians) = {:e} vs {:e}", back, x);
    Ok(())
}

fn f64_angle() -> BoxedStrategy<f64> {
    prop_oneof![
        4 => (-2800i32..=2800, -3i64..=3).prop_map(|(k, n)| next_up64(360.0 * k as f64, n)),
        3 => (-2800i32..=2800, -3i64..=3).prop_map(|(k, n)| next_up64(180.0 + 360.0 * k as f64, n)),
        4 => -1.0e6..=1.0e6f64,
        3 => -720.0..=720.0f64,
        2 => (any::<i64>(), -70i32..=-20).prop_map(|(m, e)| { let v = (m >> 11) as f64 * 2f64.powi(e); if v.abs() <= 1e6 { v } else { v % 1e6 } }),
        2 => (-300.0..=6.0f64, any::<bool>()).prop_map(|(e, neg)| { let v = 10f64.powf(e); if neg { -v } else { v } }),
        1 => prop_oneof![Just(0.0), Just(-0.0), Just(1e-300), Just(-1e-300), Just(360.0), Just(-360.0), Just(180.0), Just(-180.0), Just(1e6), Just(-1e6),
                 Just(359.99999999999994), Just(-359.99999999999994), Just(f64::from_bits(1)), Just(-f64::from_bits(1))],
        2 => (-100000i32..=100000).prop_map(|a| a as f64),
    ]
    .boxed()
}

// ---- equality under whole turns ----
#[derive(Debug, Clone, Serialize, Deserialize)]
struct EqCase {
    hue: usize,
    /// angle as exact dyadic: num / 2^shift
    num: i64,
    shift: u32,
    turns: i32,
}

fn eq_point(c: &EqCase, obs: &mut Obs) -> PropResult {
    let k = c.hue;
    let scale = (1i64 << c.shift) as f64;
    let x = c.num as f64 / scale; // exact (|num| < 2^53)
    let y_exact_num = c.num as i128 + 360i128 * c.turns as i128 * (1i128 << c.shift);
    let y = y_exact_num as f64 / scale;
    // exact representability in f64 of the shifted angle
    let y_ok64 = (y * scale) as i128 == y_exact_num && y.abs() <= 1.1e6;
    if y_ok64 {
        obs.class("f64-pair");
        obs.nontrivial_if(c.turns != 0);
        let (eq, eq_raw, eq_sym) = by_hue!(k, H => {
            let a = H::<f64>::from_degrees(x);
            let b = H::<f64>::from_degrees(y);
            (a == b, a == y, b == a)
        });
        ensure!(eq && eq_sym, "{}({}) != {}({}) although they differ by {} whole turns (f64)", HNAMES[k], x, HNAMES[k], y, c.turns);
        // the approximate comparisons (approx traits) are comparisons too: equal under whole turns, in both orders, and
        // the negated forms are their negations
        let appr = by_hue!(k, H => {
            use approx::{AbsDiffEq, RelativeEq, UlpsEq};
            let a = H::<f64>::from_degrees(x);
            let b = H::<f64>::from_degrees(y);
            [a.abs_diff_eq(&b, <H<f64> as AbsDiffEq>::default_epsilon()), b.abs_diff_eq(&a, <H<f64> as AbsDiffEq>::default_epsilon()), !a.abs_diff_ne(&b, <H<f64> as AbsDiffEq>::default_epsilon()),
             a.relative_eq(&b, <H<f64> as AbsDiffEq>::default_epsilon(), <H<f64> as RelativeEq>::default_max_relative()), b.relative_eq(&a, <H<f64> as AbsDiffEq>::default_epsilon(), <H<f64> as RelativeEq>::default_max_relative()), !a.relative_ne(&b, <H<f64> as AbsDiffEq>::default_epsilon(), <H<f64> as RelativeEq>::default_max_relative()),
             a.ulps_eq(&b, <H<f64> as AbsDiffEq>::default_epsilon(), <H<f64> as UlpsEq>::default_max_ulps()), b.ulps_eq(&a, <H<f64> as AbsDiffEq>::default_epsilon(), <H<f64> as UlpsEq>::default_max_ulps()), !a.ulps_ne(&b, <H<f64> as AbsDiffEq>::default_epsilon(), <H<f64> as UlpsEq>::default_max_ulps())]
        });
        const FORMS: [&str; 9] = ["abs_diff_eq(a, b)", "abs_diff_eq(b, a)", "!abs_diff_ne(a, b)", "relative_eq(a, b)", "relative_eq(b, a)", "!relative_ne(a, b)", "ulps_eq(a, b)", "ulps_eq(b, a)", "!ulps_ne(a, b)"];
        for (i, ok) in appr.iter().enumerate() {
            ensure!(*ok, "{}: {} is false for a = {} and b = {}, which differ by {} whole turns (f64)", HNAMES[k], FORMS[i], x, y, c.turns);
        }
        ensure!(eq_raw, "{}({}) != raw angle {} although they differ by {} whole turns (f64, PartialEq<T>)", HNAMES[k], x, y, c.turns);
    }
    let xf = x as f32;
    let yf = y as f32;
    if y_ok64 && xf as f64 == x && yf as f64 == y {
        obs.class("f32-pair");
        let (eq, eq_raw) = by_hue!(k, H => {
            let a = H::<f32>::from_degrees(xf);
            let b = H::<f32>::from_degrees(yf);
            (a == b && b == a, a == yf)
        });
        ensure!(eq, "{}({}) != {}({}) although they differ by {} whole turns (f32)", HNAMES[k], xf, HNAMES[k], yf, c.turns);
        ensure!(eq_raw, "{}({}) != raw {} (f32, PartialEq<T>)", HNAMES[k], xf, yf);
    }
    Ok(())
}

#[derive(Debug, Clone, Serialize, Deserialize)]
struct NeqCase {
    hue: usize,
    x: f64,
    y: f64,
}

fn neq_point(c: &NeqCase, obs: &mut Obs) -> PropResult {
    let k = c.hue;
    let (x, y) = (c.x, c.y);
    let rx = residue(x);
    let ry = residue(y);
    let d = (rx - ry).abs();
    let d = d.min(360.0 - d);
    let u = ulp64(x.abs().max(y.abs()).max(360.0));
    if d > 4.0 * u {
        obs.nontrivial();
        obs.class(if d < 1e-6 { "close-but-distinct" } else { "distinct" });
        let eq = by_hue!(k, H => H::<f64>::from_degrees(x) == H::<f64>::from_degrees(y));
        ensure!(!eq, "{}({:e}) == {}({:e}) although residues differ by {:e}", HNAMES[k], x, HNAMES[k], y, d);
        if d > 1e-3 {
            let appr = by_hue!(k, H => {
                use approx::{AbsDiffEq, RelativeEq, UlpsEq};
                let a = H::<f64>::from_degrees(x);
                let b = H::<f64>::from_degrees(y);
                let e = <H<f64> as AbsDiffEq>::default_epsilon();
                [a.abs_diff_eq(&b, e), b.abs_diff_eq(&a, e), !a.abs_diff_ne(&b, e), a.relative_eq(&b, e, <H<f64> as RelativeEq>::default_max_relative()), !a.relative_ne(&b, e, <H<f64> as RelativeEq>::default_max_relative()), a.ulps_eq(&b, e, 4), b.ulps_eq(&a, e, 4), !a.ulps_ne(&b, e, 4)]
            });
            ensure!(appr.iter().all(|t| !*t), "{}: an approximate comparison holds ({:?}: abs_diff_eq both orders, !abs_diff_ne, relative_eq, !relative_ne, ulps_eq both orders, !ulps_ne) for {:e} and {:e}, whose residues differ by {:e} deg", HNAMES[k], appr, x, y, d);
        }
    } else {
        obs.class("within-rounding");
    }
    let (xf, yf) = (x as f32, y as f32);
    let rx = residue(xf as f64);
    let ry = residue(yf as f64);
    let d = (rx - ry).abs();
    let d = d.min(360.0 - d);
    let u = ulp32(xf.abs().max(yf.abs()).max(360.0)) as f64;
    if d > 4.0 * u && xf.is_finite() && yf.is_finite() {
        let eq = by_hue!(k, H => H::<f32>::from_degrees(xf) == H::<f32>::from_degrees(yf));
        ensure!(!eq, "{}({:e}) == {}({:e}) (f32) although residues differ by {:e}", HNAMES[k], xf, HNAMES[k], yf, d);
    }
    Ok(())
}

// ---- cartesian ----
#[derive(Debug, Clone, Serialize, Deserialize)]
struct CartCase {
    hue: usize,
    a: f64,
    b: f64,
}

fn cart_point(c: &CartCase, obs: &mut Obs) -> PropResult {
    let k = c.hue;
    let (a, b) = (c.a, c.b);
    let r = a.hypot(b);
    obs.nontrivial_if(r > 0.0);
    let (deg, ca, cb) = by_hue!(k, H => {
        let h = H::<f64>::from_cartesian(a, b);
        let (ca, cb) = h.into_cartesian();
        (h.into_raw_degrees(), ca, cb)
    });
    ensure!(deg.is_finite() && ca.is_finite() && cb.is_finite(), "non-finite cartesian result for ({:e},{:e})", a, b);
    ensure!(deg >= -1e-12 && deg <= 360.0 + 1e-12, "{}::from_cartesian({:e},{:e}) = {} outside [0,360]", HNAMES[k], a, b, deg);
    if r == 0.0 {
        ensure!(deg == 0.0 || deg == 360.0 || deg == 180.0, "from_cartesian(0,0) = {} (documented: 0)", deg);
        return Ok(());
    }
    let n = (ca * ca + cb * cb).sqrt();
    ensure!((n - 1.0).abs() < 1e-12, "into_cartesian not unit length: {}", n);
    let cross = (a * cb - b * ca) / r;
    let dot = (a * ca + b * cb) / r;
    obs.err("direction_cross_f64", cross.abs());
    ensure!(cross.abs() <= 1e-12 && dot > 0.0, "{}: direction not preserved for ({:e},{:e}): hue {} -> ({:e},{:e})", HNAMES[k], a, b, deg, ca, cb);
    // degrees == atan2 reference (mod 360)
    let want = b.atan2(a).to_degrees();
    let e = congruence_error(want, deg);
    ensure!(e < 1e-9, "{}::from_cartesian({:e},{:e}) = {} but atan2 gives {}", HNAMES[k], a, b, deg, want);
    // f32
    let (af, bf) = (a as f32, b as f32);
    if af.is_finite() && bf.is_finite() && (af != 0.0 || bf != 0.0) && af.abs().max(bf.abs()) > 1e-30 && af.abs().max(bf.abs()) < 1e30 {
        let (deg, ca, cb) = by_hue!(k, H => {
            let h = H::<f32>::from_cartesian(af, bf);
            let (ca, cb) = h.into_cartesian();
            (h.into_raw_degrees(), ca, cb)
        });
        ensure!(deg >= -1e-4 && deg <= 360.0 + 1e-4, "{}::<f32>::from_cartesian = {} outside [0,360]", HNAMES[k], deg);
        let rf = (af as f64).hypot(bf as f64);
        let cross = (af as f64 * cb as f64 - bf as f64 * ca as f64) / rf;
        let dot = (af as f64 * ca as f64 + bf as f64 * cb as f64) / rf;
        obs.err("direction_cross_f32", cross.abs());
        ensure!(cross.abs() <= 2e-6 && dot > 0.0, "{}<f32>: direction not preserved for ({:e},{:e}): hue {} -> ({:e},{:e})", HNAMES[k], af, bf, deg, ca, cb);
    }
    Ok(())
}

// ---- 8-bit ----
#[derive(Debug, Clone, Serialize, Deserialize)]
struct U8Case {
    hue: usize,
    x: f64,
}

fn expected_u8(x: f64, tie_band: f64) -> (u8, Option<u8>) {
    let r = residue(x);
    let t = r * 256.0 / 360.0;
    let f = t.floor();
    let frac = t - f;
    let lo = (f as u32 % 256) as u8;
    let hi = ((f as u32 + 1) % 256) as u8;
    if (frac - 0.5).abs() <= tie_band {
        (lo, Some(hi))
    } else if frac < 0.5 {
        (lo, None)
    } else {
        (hi, None)
    }
}

fn u8_point(c: &U8Case, obs: &mut Obs) -> PropResult {
    let k = c.hue;
    let x = c.x;
    obs.nontrivial_if(x < 0.0 || x >= 360.0 || residue(x) > 358.0);
    let got: u8 = by_hue!(k, H => H::<f64>::from_degrees(x).into_format::<u8>().into_inner());
    let u = ulp64(x.abs().max(360.0));
    let (e1, e2) = expected_u8(x, 1e-9 + 4.0 * u * 256.0 / 360.0);
    ensure!(got == e1 || Some(got) == e2, "{}({:e}).into_format::<u8>() = {} expected {} (or {:?})", HNAMES[k], x, got, e1, e2);
    let xf = x as f32;
    if xf.is_finite() {
        let got: u8 = by_hue!(k, H => H::<f32>::from_degrees(xf).into_format::<u8>().into_inner());
        let u = ulp32(xf.abs().max(360.0)) as f64;
        let (e1, e2) = expected_u8(xf as f64, 1e-4 + 4.0 * u * 256.0 / 360.0);
        ensure!(got == e1 || Some(got) == e2, "{}({:e}f32).into_format::<u8>() = {} expected {} (or {:?})", HNAMES[k], xf, got, e1, e2);
    }
    Ok(())
}

// ---- arithmetic ----
#[derive(Debug, Clone, Serialize, Deserialize)]
struct ArithCase {
    hue: usize,
    x: f64,
    y: f64,
}

fn arith_point(c: &ArithCase, obs: &mut Obs) -> PropResult {
    let k = c.hue;
    let (x, y) = (c.x, c.y);
    obs.nontrivial();
    by_hue!(k, H => {
        let a = H::<f64>::from_degrees(x);
        let b = H::<f64>::from_degrees(y);
        ensure!((a + b).into_raw_degrees().to_bits() == (x + y).to_bits(), "hue + hue is not raw addition");
        ensure!((a - b).into_raw_degrees().to_bits() == (x - y).to_bits(), "hue - hue is not raw subtraction");
        ensure!((a + y).into_raw_degrees().to_bits() == (x + y).to_bits(), "hue + T is not raw addition");
        ensure!((a - y).into_raw_degrees().to_bits() == (x - y).to_bits(), "hue - T is not raw subtraction");
        let mut m = a; m += b;
        ensure!(m.into_raw_degrees().to_bits() == (x + y).to_bits(), "hue += hue differs");
        let mut m = a; m -= b;
        ensure!(m.into_raw_degrees().to_bits() == (x - y).to_bits(), "hue -= hue differs");
        let mut m = a; m += y;
        ensure!(m.into_raw_degrees().to_bits() == (x + y).to_bits(), "hue += T differs");
        let mut m = a; m -= y;
        ensure!(m.into_raw_degrees().to_bits() == (x - y).to_bits(), "hue -= T differs");
        let (xf, yf) = (x as f32, y as f32);
        let a = H::<f32>::from_degrees(xf);
        let b = H::<f32>::from_degrees(yf);
        ensure!((a + b).into_raw_degrees().to_bits() == (xf + yf).to_bits(), "f32 hue + hue is not raw addition");
        ensure!((a - b).into_raw_degrees().to_bits() == (xf - yf).to_bits(), "f32 hue - hue is not raw subtraction");
        ensure!((a + yf).into_raw_degrees().to_bits() == (xf + yf).to_bits(), "f32 hue + T is not raw addition");
        ensure!((a - yf).into_raw_degrees().to_bits() == (xf - yf).to_bits(), "f32 hue - T is not raw subtraction");
        let mut m = a; m += b;
        ensure!(m.into_raw_degrees().to_bits() == (xf + yf).to_bits(), "f32 hue += hue differs");
        let mut m = a; m -= b;
        ensure!(m.into_raw_degrees().to_bits() == (xf - yf).to_bits(), "f32 hue -= hue differs");
        let mut m = a; m += yf;
        ensure!(m.into_raw_degrees().to_bits() == (xf + yf).to_bits(), "f32 hue += T differs");
        let mut m = a; m -= yf;
        ensure!(m.into_raw_degrees().to_bits() == (xf - yf).to_bits(), "f32 hue -= T differs");
        // the raw angle on the left-hand side (separate impls for f32 and f64): T + hue, T - hue, T += hue, T -= hue
        let r = xf + b;
        ensure!(r.into_raw_degrees().to_bits() == (xf + yf).to_bits(), "{}: {}f32 + hue({}) = hue({}) expected hue({})", HNAMES[k], xf, yf, r.into_raw_degrees(), xf + yf);
        let r = xf - b;
        ensure!(r.into_raw_degrees().to_bits() == (xf - yf).to_bits(), "{}: {}f32 - hue({}) = hue({}) expected hue({})", HNAMES[k], xf, yf, r.into_raw_degrees(), xf - yf);
        let mut m = xf; m += b;
        ensure!(m.to_bits() == (xf + yf).to_bits(), "{}: f32 += hue gives {} expected {}", HNAMES[k], m, xf + yf);
        let mut m = xf; m -= b;
        ensure!(m.to_bits() == (xf - yf).to_bits(), "{}: f32 -= hue gives {} expected {}", HNAMES[k], m, xf - yf);
        let b = H::<f64>::from_degrees(y);
        let r = x + b;
        ensure!(r.into_raw_degrees().to_bits() == (x + y).to_bits(), "{}: {}f64 + hue({}) = hue({}) expected hue({})", HNAMES[k], x, y, r.into_raw_degrees(), x + y);
        let r = x - b;
        ensure!(r.into_raw_degrees().to_bits() == (x - y).to_bits(), "{}: {}f64 - hue({}) = hue({}) expected hue({})", HNAMES[k], x, y, r.into_raw_degrees(), x - y);
        let mut m = x; m += b;
        ensure!(m.to_bits() == (x + y).to_bits(), "{}: f64 += hue gives {} expected {}", HNAMES[k], m, x + y);
        let mut m = x; m -= b;
        ensure!(m.to_bits() == (x - y).to_bits(), "{}: f64 -= hue gives {} expected {}", HNAMES[k], m, x - y);
        // 8-bit hues: saturating forms and wrapping-free addition on the raw code
        use palette::num::{SaturatingAdd, SaturatingSub};
        let (p, q) = ((x.abs() as u64 % 256) as u8, (y.abs() as u64 % 256) as u8);
        let (hp, hq) = (H::<u8>::new(p), H::<u8>::new(q));
        ensure!(hp.saturating_add(hq).into_inner() == p.saturating_add(q) && hp.saturating_add(q).into_inner() == p.saturating_add(q), "u8 hue saturating_add is not the raw saturating addition");
        ensure!(hp.saturating_sub(hq).into_inner() == p.saturating_sub(q) && hp.saturating_sub(q).into_inner() == p.saturating_sub(q), "u8 hue saturating_sub is not the raw saturating subtraction");
        ensure!(u8::from(hp) == p && H::<u8>::from(p).into_inner() == p, "u8 hue From round trip");
    });
    Ok(())
}

fn main() {
    let mut h = Harness::new("C11");
    h.rule("normalisation/congruence: every f32 bit pattern with |x| <= 2^20 (both signs) per hue type, exact residues via i128; f64 angles generated as 360k/180+360k +- ulps, dyadic m*2^e, log-uniform magnitudes, uniform up to 1e6; equality: all integer angles in +-100000 x shifts of +-{1,2,37,50,100} turns plus generated dyadic angles with exactly representable shifts; inequality: generated pairs whose exact residues differ by > 4 ulp; cartesian: 2^20-point circle x radii + generated; 8-bit: all 256 codes, all f32 in [0,360) and generated angles. Non-trivial = |x| > 360, negative, or within 4 ulp of a multiple of 180 (for sweeps: x outside [0,360)); distinct by construction in sweeps, by hash otherwise.");
    h.assume("exact modular arithmetic in i128 in the harness; tolerance u = ulp(max(|x|,360)) in the angle's own float type");
    let thorough = h.is_thorough();

    // ---- exhaustive f32 normalisation ----
    let top: u32 = 0x4980_0000; // 2^20
    let nchunks = 2048usize;
    for k in 0..5usize {
        let full = k == 1 || thorough;
        let name: &'static str = ["f32_normalise_LabHue", "f32_normalise_RgbHue_all_bits", "f32_normalise_LuvHue", "f32_normalise_OklabHue", "f32_normalise_Cam16Hue"][k];
        h.sweep::<F32Angle, _, _>(name, full, nchunks, f32_norm_point, |i, obs| {
            let per = (top as u64 + 1 + nchunks as u64 - 1) / nchunks as u64;
            let lo = i as u64 * per;
            let hi = ((i as u64 + 1) * per - 1).min(top as u64);
            if lo > hi {
                return;
            }
            let step = if full { 1 } else { 16 };
            let mut nt = 0u64;
            let mut n = 0u64;
            for sign in [0u32, 0x8000_0000] {
                let mut b = lo;
                while b <= hi {
                    let bits = b as u32 | sign;
                    let c = F32Angle { hue: k, bits };
                    if let Err(f) = f32_norm_point(&c, obs) {
                        obs.report(&c, f);
                    }
                    n += 1;
                    let x = f32::from_bits(bits);
                    if !(0.0..360.0).contains(&x) {
                        nt += 1;
                    }
                    b += step;
                }
            }
            obs.evals += n;
            obs.sweep_nontrivial += nt;
        });
    }

    // ---- f64 normalisation ----
    let n = h.n(2_000_000, 60_000_000);
    h.prop("f64_normalise_generated", n, || (0usize..5, f64_angle()).prop_map(|(hue, x)| F64Angle { hue, x }), f64_norm_point);

    // ---- equality: all integer angles x shifts ----
    const SHIFTS: [i32; 10] = [1, -1, 2, -2, 37, -37, 50, -50, 100, -100];
    h.sweep::<EqCase, _, _>("equal_under_whole_turns_integers", true, 200, eq_point, |i, obs| {
        let lo = -100000i64 + i as i64 * 1001;
        let hi = (lo + 1000).min(100000);
        let mut n = 0;
        for a in lo..=hi {
            for hue in 0..5 {
                for &t in SHIFTS.iter() {
                    let c = EqCase { hue, num: a, shift: 0, turns: t };
                    if let Err(f) = eq_point(&c, obs) {
                        obs.report(&c, f);
                    }
                    n += 1;
                }
            }
        }
        obs.evals += n;
        obs.sweep_nontrivial += n;
    });
    let n = h.n(2_000_000, 50_000_000);
    h.prop(
        "equal_under_whole_turns_dyadic",
        n,
        || {
            (0usize..5, prop_oneof![0u32..=6, 0u32..=20, 0u32..=33, 34u32..=52], any::<i64>(), prop_oneof![-100i32..=100, -2800i32..=2800, Just(1), Just(-1)]).prop_map(|(hue, shift, m, turns)| {
                // |num / 2^shift| <= 2^20 and |num| < 2^53 (so that num / 2^shift is an exact f64)
                let lim = 1i64 << (20 + shift).min(53);
                let num = m % lim;
                EqCase { hue, num, shift, turns }
            })
        },
        eq_point,
    );
    h.prop(
        "special_equalities",
        64,
        || (0usize..5, prop_oneof![Just((0i64, 1)), Just((0, -1)), Just((360, -2)), Just((180, -1)), Just((-180, 1)), Just((0, 0)), Just((360, -1)), Just((-360, 1)), Just((-360, 2))]).prop_map(|(hue, (num, turns))| EqCase { hue, num, shift: 0, turns }),
        eq_point,
    );
    let n = h.n(2_000_000, 50_000_000);
    h.prop(
        "unequal_when_residues_differ",
        n,
        || {
            (0usize..5, f64_angle(), prop_oneof![1e-3..=359.999f64, (-12.0..=2.5f64).prop_map(|e| 10f64.powf(e)), Just(180.0)], -100i32..=100)
                .prop_map(|(hue, x, d, k)| NeqCase { hue, x, y: x + d + 360.0 * k as f64 })
        },
        neq_point,
    );

    // ---- cartesian ----
    let circ_exp = if thorough { 20 } else { 18 };
    h.sweep::<CartCase, _, _>("cartesian_circle", false, 256, cart_point, |i, obs| {
        let total = 1u64 << circ_exp;
        let per = total / 256;
        let radii = [1e-6, 1e-3, 0.37, 1.0, 128.0, 1e6];
        let mut n = 0;
        for j in 0..per {
            let idx = i as u64 * per + j;
            let th = (idx as f64) / (total as f64) * std::f64::consts::TAU;
            let r = radii[(idx % 6) as usize];
            let c = CartCase { hue: (idx % 5) as usize, a: r * th.cos(), b: r * th.sin() };
            if let Err(f) = cart_point(&c, obs) {
                obs.report(&c, f);
            }
            n += 1;
        }
        obs.evals += n;
        obs.sweep_nontrivial += n;
    });
    let n = h.n(500_000, 20_000_000);
    h.prop(
        "cartesian_generated",
        n,
        || {
            let comp = || prop_oneof![3 => -1.0..=1.0f64, 1 => Just(0.0), 1 => Just(-0.0), 1 => Just(1.0), 1 => Just(-1.0), 2 => (-6.0..=6.0f64, any::<bool>()).prop_map(|(e, s)| if s { -(10f64.powf(e)) } else { 10f64.powf(e) })];
            (0usize..5, comp(), comp()).prop_map(|(hue, a, b)| CartCase { hue, a, b })
        },
        cart_point,
    );

    // ---- 8-bit hues ----
    h.sweep::<U8Case, _, _>("u8_all_codes_roundtrip", true, 1, u8_point, |_, obs| {
        for k in 0..5usize {
            for code in 0..=255u8 {
                let (f, d, back_f, back_d, widened): (f32, f64, u8, u8, u8) = by_hue!(k, H => {
                    let h8 = H::<u8>::new(code);
                    let f = h8.into_format::<f32>();
                    let d = h8.into_format::<f64>();
                    (f.into_raw_degrees(), d.into_raw_degrees(), f.into_format::<u8>().into_inner(), d.into_format::<u8>().into_inner(), h8.into_format::<u8>().into_inner())
                });
                let want = code as f64 * 360.0 / 256.0;
                let c = U8Case { hue: k, x: want };
                if f as f64 != want || d != want {
                    obs.report(&c, Fail::new(format!("{}<u8>({}) -> float gives {} / {} expected {}", HNAMES[k], code, f, d, want)));
                }
                if back_f != code || back_d != code || widened != code {
                    obs.report(&c, Fail::new(format!("{}<u8>({}) -> float -> u8 gives {} / {}", HNAMES[k], code, back_f, back_d)));
                }
                // equality of u8 hues is plain equality
                let (eq_same, eq_next) = by_hue!(k, H => (H::<u8>::new(code) == H::<u8>::new(code), H::<u8>::new(code) == H::<u8>::new(code.wrapping_add(1))));
                if !eq_same || eq_next {
                    obs.report(&c, Fail::new(format!("{}<u8> equality wrong at {}", HNAMES[k], code)));
                }
                obs.evals += 1;
                obs.sweep_nontrivial += 1;
            }
        }
    });
    // all f32 in [0, 360): value + monotone with a single wrap
    let top360: u32 = 360.0f32.to_bits();
    h.sweep::<U8Case, _, _>("f32_to_u8_first_turn_all_bits", true, 1024, u8_point, |i, obs| {
        let per = (top360 as u64 + 1023) / 1024;
        let lo = i as u64 * per;
        let hi = ((i as u64 + 1) * per).min(top360 as u64);
        let conv = |bits: u32| -> u8 { RgbHue::<f32>::from_degrees(f32::from_bits(bits)).into_format::<u8>().into_inner() };
        let mut prev = if lo > 0 { conv(lo as u32 - 1) } else { 0 };
        let mut n = 0;
        for b in lo..hi {
            let x = f32::from_bits(b as u32);
            let got = conv(b as u32);
            let (e1, e2) = expected_u8(x as f64, 1e-4);
            let wrap_ok = got == 0 && prev == 255 && x as f64 >= 255.4 * 360.0 / 256.0;
            if !(got == e1 || Some(got) == e2) || !(got >= prev || wrap_ok) {
                let c = U8Case { hue: 1, x: x as f64 };
                obs.report(&c, Fail::new(format!("RgbHue({:e}f32) -> u8 = {} (expected {} or {:?}; previous code {})", x, got, e1, e2, prev)));
            }
            prev = got;
            n += 1;
        }
        obs.evals += n;
        obs.sweep_nontrivial += n;
    });
    let n = h.n(1_000_000, 30_000_000);
    h.prop(
        "float_to_u8_generated",
        n,
        || {
            (0usize..5, prop_oneof![
                3 => f64_angle(),
                3 => (0u32..=512, -3i64..=3).prop_map(|(k, n)| next_up64((k as f64 + 0.5) * 360.0 / 256.0 / 2.0, n)),
                2 => (0u32..=256, -3i64..=3, -10i32..=10).prop_map(|(k, n, t)| next_up64(k as f64 * 360.0 / 256.0, n) + 360.0 * t as f64),
                2 => 358.0..=362.0f64,
            ]).prop_map(|(hue, x)| U8Case { hue, x })
        },
        u8_point,
    );

    // ---- arithmetic ----
    let n = h.n(300_000, 5_000_000);
    h.prop("hue_arithmetic_is_raw", n, || (0usize..5, f64_angle(), f64_angle()).prop_map(|(hue, x, y)| ArithCase { hue, x, y }), arith_point);

    let _ = next_up32(0.0, 0);
    h.finish();
}
