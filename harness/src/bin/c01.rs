//! C01 — conversions invert and commute; alpha rides along untouched.
use palette::{Alpha, WithAlpha};
use proptest::prelude::*;
use pv::reference::spaces as rf;
use pv::reference::spaces::{Tf, V3};
use pv::refgraph::{from_xyz, parse, Sp, K};
use pv::runner::{Harness, Obs, PropResult};
use pv::types::{conv_index, conversions, embed_chroma, embed_dist, nominal_box, space_info, Conv, SpaceInfo, SPACE_NAMES};
use pv::ensure;
use serde::{Deserialize, Serialize};

struct Ctx {
    convs: Vec<Conv>,
    sps: Vec<Sp>,
    infos: Vec<SpaceInfo>,
    /// (A->B, B->A) for every ordered pair with both directions, B not luma
    round: Vec<(usize, usize)>,
    /// (A->B, A->C, C->B)
    tri: Vec<(usize, usize, usize)>,
}

/// the gamut a space is confined to (its nominal box is that gamut), if any
fn gamut(sp: &Sp) -> Option<&'static str> {
    match sp.k {
        K::Rgb | K::Hsl | K::Hsv | K::Hwb => {
            let s = sp.std.unwrap();
            Some(if s.primaries == rf::SRGB_PRIM && s.white == "D65" { "Srgb" } else { s.name })
        }
        K::Okhsl | K::Okhsv | K::Okhwb | K::Hsluv => Some("Srgb"),
        _ => None,
    }
}
/// which family of constants a space is tied to: conversions inside one family are pure arithmetic, conversions
/// between families go through a pair of hard-coded matrices that are inverse to each other only to 7 digits
fn family(sp: &Sp) -> &'static str {
    match sp.k {
        K::Rgb | K::Hsl | K::Hsv | K::Hwb => gamut(sp).unwrap(),
        K::Oklab | K::Oklch | K::Okhsl | K::Okhsv | K::Okhwb => "Ok",
        K::Lms => "Lms",
        _ => "Cie",
    }
}
#[derive(Clone, Copy, PartialEq, Debug, PartialOrd)]
enum Tier {
    E,
    M,
    S,
}
/// accuracy class of one leg
fn leg_tier(a: &Sp, b: &Sp) -> Tier {
    let (fa, fb) = (family(a), family(b));
    if fa == fb {
        return Tier::E;
    }
    // Oklab is reached from sRGB-primaries RGB by Ottosson's direct matrices and from everything else by M1: the two
    // routes differ by 1e-4 (the published matrices are not consistent to more digits)
    if (fa == "Ok") != (fb == "Ok") {
        return Tier::S;
    }
    Tier::M
}
fn tol(t: Tier, f32_: bool) -> f64 {
    if f32_ {
        return 2e-3;
    }
    match t {
        Tier::E => 1e-10,
        Tier::M => 2e-5,
        Tier::S => 6e-4,
    }
}

/// distance of two colours of space `sp`: the cartesian embedding, in linear light where the encoding is a pure power
/// law (its slope at zero is infinite, so matrix noise of 1e-8 on a zero channel is 2e-4 in the encoded value)
fn dist(sp: &Sp, info: &SpaceInfo, x: V3, y: V3) -> f64 {
    if matches!(sp.tf, Tf::Adobe | Tf::P3Gamma) {
        let to_lin = |c: V3| {
            let rgb = match sp.k {
                K::Hsl => rf::hsl_to_rgb(c),
                K::Hsv => rf::hsv_to_rgb(c),
                K::Hwb => rf::hsv_to_rgb(rf::hwb_to_hsv(c)),
                _ => c,
            };
            rf::decode3(sp.tf, rgb)
        };
        let (a, b) = (to_lin(x), to_lin(y));
        let d = (0..3).map(|i| (a[i] - b[i]).abs()).fold(0.0, |m: f64, v| if v.is_nan() { f64::INFINITY } else { m.max(v) });
        // and the encoded values must still agree coarsely
        return d.max(embed_dist(info, x, y) * 1e-3);
    }
    embed_dist(info, x, y)
}

/// palette maps L*u*v* colours with L* < 1e-5 (Y < 1.2e-8) to exact black, and HSLuv below L = 1e-8 to zero chroma:
/// a deliberate flush that costs nothing visible but is a step in cube-root spaces. Sources that dark are outside
/// the round-trip domain of routes that touch the L*u*v* family.
fn numerically_black(route: &[&Sp], x: V3) -> bool {
    if !route.iter().any(|s| matches!(s.k, K::Luv | K::Lchuv | K::Hsluv)) {
        return false;
    }
    let y = pv::refgraph::to_xyz(route[0], x)[1];
    !(y > 3e-8)
}

/// RGB components of a colour of an RGB-like space (RGB itself, its cylindrical models, luma), by the definitions
fn rgb_components(sp: &Sp, c: V3) -> Option<V3> {
    Some(match sp.k {
        K::Rgb => c,
        K::Hsl => rf::hsl_to_rgb(c),
        K::Hsv => rf::hsv_to_rgb(c),
        K::Hwb => rf::hsv_to_rgb(rf::hwb_to_hsv(c)),
        K::Luma => [c[0]; 3],
        _ => return None,
    })
}
/// The two published constants of a piecewise transfer curve do not meet exactly (sRGB: 0.04045 / 12.92 is not
/// 0.0031308): a component inside that sliver decodes with one branch and re-encodes with the other, 3e-8 away.
fn in_knee_sliver(sp: &Sp, c: V3) -> bool {
    let (Some(rgb), Some((lin, enc))) = (rgb_components(sp, c), rf::knee(sp.tf)) else { return false };
    let (a, b) = (rf::encode(sp.tf, lin).min(enc), rf::encode(sp.tf, lin).max(enc));
    rgb.iter().any(|v| *v >= a * (1.0 - 1e-6) && *v <= b * (1.0 + 1e-6))
}
fn knee_allowance(route: &[(&Sp, V3)]) -> f64 {
    if route.iter().any(|(sp, c)| in_knee_sliver(sp, *c)) { 5e-8 } else { 0.0 }
}
/// hexcone models (and palette's implementation of them) are defined on non-negative components: a colour whose
/// components in that standard are negative cannot be represented there
fn representable(route: &[&Sp], a: &Sp, x: V3) -> bool {
    let xyz = pv::refgraph::to_xyz(a, x);
    for sp in route {
        if matches!(sp.k, K::Hsl | K::Hsv | K::Hwb) {
            let rgb_sp = Sp { k: K::Rgb, ..**sp };
            let rgb = pv::refgraph::from_xyz(&rgb_sp, xyz);
            if !rgb.iter().all(|v| *v >= 0.0) {
                return false;
            }
        }
    }
    true
}
/// Okhsl next to the white tip: the gamut width used as the saturation scale is wrong by a multiple there, colours of
/// the gamut land beyond the pole of the saturation map and do not come back (see the C15 finding of the same root)
fn okhsl_white_tip(route: &[&Sp], a: &Sp, x: V3) -> bool {
    if !route.iter().any(|s| s.k == K::Okhsl) {
        return false;
    }
    let l = match a.k {
        K::Oklab | K::Oklch => x[0],
        _ => rf::xyz_to_oklab(pv::refgraph::to_xyz(a, x))[0],
    };
    l >= 0.999 && l < 1.0001
}

/// Okhsl / Okhsv / Okhwb are discontinuous in hue at the hue of the blue primary (C15 finding): f32 routes whose
/// intermediate noise moves the hue across it disagree by up to 9 % of the saturation
fn at_blue_hue_jump(route: &[&Sp], a: &Sp, x: V3) -> bool {
    if !route.iter().any(|s| matches!(s.k, K::Okhsl | K::Okhsv | K::Okhwb)) {
        return false;
    }
    let lab = match a.k {
        K::Oklab => x,
        K::Oklch => rf::lch_to_lab(x),
        K::Okhsl | K::Okhsv | K::Okhwb => return { let d = (x[0] - 264.0520206380550).rem_euclid(360.0); d.min(360.0 - d) < 0.05 },
        _ => rf::xyz_to_oklab(pv::refgraph::to_xyz(a, x)),
    };
    let blue = rf::linsrgb_to_oklab([0.0, 0.0, 1.0]);
    let d = (lab[2].atan2(lab[1]) - blue[2].atan2(blue[1])).to_degrees().rem_euclid(360.0);
    d.min(360.0 - d) < 0.05
}

#[derive(Debug, Clone, Serialize, Deserialize)]
struct Case {
    /// index into ctx.round or ctx.tri
    k: usize,
    /// committed replays name the spaces instead (A, B for a round trip; A, C, B for a commutation triple), so that they
    /// keep their meaning when the conversion matrix grows
    #[serde(default, skip_serializing_if = "Option::is_none")]
    route: Option<Vec<String>>,
    x: [f64; 3],
    alpha: f64,
    f32_: bool,
}

fn run64(cv: &Conv, x: V3) -> V3 {
    (cv.u64_)(x)
}
fn run32(cv: &Conv, x: V3) -> V3 {
    let g = (cv.u32_)([x[0] as f32, x[1] as f32, x[2] as f32]);
    [g[0] as f64, g[1] as f64, g[2] as f64]
}
fn round32(x: V3) -> V3 {
    [x[0] as f32 as f64, x[1] as f32 as f64, x[2] as f32 as f64]
}
fn finite(v: V3) -> bool {
    v.iter().all(|c| c.is_finite())
}

/// does the f64 computation `f` scatter under perturbations of a few f32 ulps of its input? (conditioning filter for
/// the f32 comparisons: where it does, f32 cannot be expected to reproduce the value)
fn scatter(info_in: &SpaceInfo, f: &dyn Fn(V3) -> V3, d: &dyn Fn(V3, V3) -> f64, x: V3) -> f64 {
    scatter_at(info_in, f, d, x, &[3e-7, -3e-7, 3e-6, -3e-6])
}
/// f64 conditioning probe: scatter under perturbations of the size of the tier's intrinsic noise (rounding; the
/// 7-digit matrix mismatch; the Oklab seam), as a fraction of each component's range
fn scatter_tier(tier: Tier, info_in: &SpaceInfo, f: &dyn Fn(V3) -> V3, d: &dyn Fn(V3, V3) -> f64, x: V3) -> f64 {
    match tier {
        Tier::E => scatter_at(info_in, f, d, x, &[1e-12, -1e-12, 3e-12, -3e-12]),
        Tier::M => scatter_at(info_in, f, d, x, &[1e-7, -1e-7, 1e-6, -1e-6]),
        Tier::S => scatter_at(info_in, f, d, x, &[1e-5, -1e-5, 1e-4, -1e-4]),
    }
}
/// the tolerance where the probe shows the computation to be ill-conditioned (a discontinuity of the model included)
fn allowed(tier: Tier, s: f64) -> f64 {
    let g = match tier { Tier::E => 10.0, Tier::M => 20.0, Tier::S => 6.0 };
    tol(tier, false).max(g * s)
}
fn scatter_at(info_in: &SpaceInfo, f: &dyn Fn(V3) -> V3, d: &dyn Fn(V3, V3) -> f64, x: V3, steps: &[f64]) -> f64 {
    let base = f(x);
    let mut s: f64 = 0.0;
    for i in 0..3 {
        let r = match info_in.comps[i] {
            pv::types::Comp::Lin(lo, hi) => (hi - lo).abs(),
            pv::types::Comp::Hue => 360.0,
            _ => continue,
        };
        for &rel in steps {
            let mut y = x;
            y[i] += rel * r;
            let v = d(f(y), base);
            s = s.max(if v.is_nan() { f64::INFINITY } else { v });
        }
    }
    s
}

fn round_point(ctx: &Ctx, c: &Case, obs: &mut Obs) -> PropResult {
    let (iab, iba) = ctx.round[resolve(ctx, c, false)];
    let (ab, ba) = (&ctx.convs[iab], &ctx.convs[iba]);
    let (a, b) = (&ctx.sps[ab.a], &ctx.sps[ab.b]);
    let (ia, ib) = (&ctx.infos[ab.a], &ctx.infos[ab.b]);
    // there and back uses the same pair of matrices in both directions, so the Oklab seam only enters where the
    // sRGB-gamut procedures of Okhsl / Okhsv / Okhwb (consistent with the direct matrices) meet colours that came in
    // through M1: next to the white tip the 4e-5 offset between the two is of the size of the gamut itself
    let okg = |s: &Sp| matches!(s.k, K::Okhsl | K::Okhsv | K::Okhwb);
    let tier = match leg_tier(a, b) {
        Tier::S if (okg(a) && family(b) != "Srgb") || (okg(b) && family(a) != "Srgb") => Tier::S,
        Tier::S => Tier::M,
        t => t,
    };
    let label: &'static str = pv::runner::intern(&format!("{} -> {} -> {}", SPACE_NAMES[ab.a], SPACE_NAMES[ab.b], SPACE_NAMES[ab.a]));
    obs.class(match tier { Tier::E => "tier E (same family)", Tier::M => "tier M (7-digit matrix pair)", Tier::S => "tier S (Oklab seam)" });
    let x = if c.f32_ { round32(c.x) } else { c.x };
    if numerically_black(&[a, b], x) {
        obs.class("below the L* < 1e-5 black flush of the L*u*v* family (skipped)");
        return Ok(());
    }
    if !representable(&[b], a, x) {
        obs.class("outside the gamut of a hexcone space on the route (skipped)");
        return Ok(());
    }
    obs.nontrivial_if(ab.a != ab.b && embed_chroma(ia, x) > 1e-3);
    if c.f32_ {
        let fwd = |v: V3| run64(ab, v);
        let sc = scatter(ia, &fwd, &|p, q| dist(b, ib, p, q), x);
        let mid = run64(ab, x);
        let bwd = |v: V3| run64(ba, v);
        let sc2 = scatter(ib, &bwd, &|p, q| dist(a, ia, p, q), mid);
        if !(sc <= 1e-4 && sc2 <= 1e-4) {
            obs.class("f32: ill-conditioned round trip (skipped)");
            return Ok(());
        }
        let back = run32(ba, run32(ab, x));
        let d = dist(a, ia, back, x);
        if !(d <= tol(tier, true)) && okhsl_white_tip(&[a, b], a, x) {
            pv::fail_keyed!("C01:okhsl-white-tip-not-invertible", "{} (f32) of {:?} returns {:?}: distance {:e}; within 1e-3 of white Okhsl is not invertible", label, x, back, d);
        }
        if !(d <= tol(tier, true)) && at_blue_hue_jump(&[a, b], a, x) {
            pv::fail_keyed!("C01:okhsx-blue-hue-discontinuity-f32", "{} (f32) of {:?} returns {:?}: distance {:e}; the hue is within 0.05 deg of the blue primary's, where the Ok* gamut slice jumps", label, x, back, d);
        }
        obs.err("f32 round trip", d);
        ensure!(d <= tol(tier, true), "{} (f32) of {:?} returns {:?}: distance {:e} in the source embedding (allowed 2e-3)", label, x, back, d);
        return Ok(());
    }
    let mid = run64(ab, x);
    let back = run64(ba, mid);
    if !finite(mid) {
        // non-finite results are C07's subject; not a round-trip question
        obs.class("intermediate not finite (left to C07)");
        return Ok(());
    }
    let d = dist(a, ia, back, x);
    let mut lim = tol(tier, false).max(knee_allowance(&[(a, x), (b, mid)]));
    if !(d <= lim) && okhsl_white_tip(&[a, b], a, x) {
        pv::fail_keyed!("C01:okhsl-white-tip-not-invertible", "{} of {:?} returns {:?} (via {:?}): distance {:e}; within 1e-3 of white Okhsl is not invertible", label, x, back, mid, d);
    }
    if !(d <= lim) {
        // ill-conditioned corner? probe the second leg at the intermediate and the whole trip at the source
        let bwd = |v: V3| run64(ba, v);
        let trip = |v: V3| run64(ba, run64(ab, v));
        let s12 = scatter_tier(tier, ib, &bwd, &|p, q| dist(a, ia, p, q), mid).max(scatter_tier(tier, ia, &trip, &|p, q| dist(a, ia, p, q), x));
        lim = allowed(tier, s12);
        obs.class("tolerance scaled by measured conditioning");
    } else {
        obs.err(match tier { Tier::E => "round trip, tier E", Tier::M => "round trip, tier M", Tier::S => "round trip, tier S" }, d);
        obs.err_with(label, d, || c.clone());
    }
    ensure!(d <= lim, "{} of {:?} returns {:?} (via {:?}): distance {:e} in the source embedding, allowed {:e}", label, x, back, mid, d, lim);
    Ok(())
}

fn resolve(ctx: &Ctx, c: &Case, tri: bool) -> usize {
    let Some(r) = &c.route else { return c.k };
    let name = |i: usize| SPACE_NAMES[i];
    if tri {
        ctx.tri.iter().position(|(iab, iac, _)| name(ctx.convs[*iab].a) == r[0] && name(ctx.convs[*iac].b) == r[1] && name(ctx.convs[*iab].b) == r[2]).unwrap_or_else(|| panic!("no commutation triple {:?}", r))
    } else {
        ctx.round.iter().position(|(iab, _)| name(ctx.convs[*iab].a) == r[0] && name(ctx.convs[*iab].b) == r[1]).unwrap_or_else(|| panic!("no round trip {:?}", r))
    }
}

fn tri_point(ctx: &Ctx, c: &Case, obs: &mut Obs) -> PropResult {
    let (iab, iac, icb) = ctx.tri[resolve(ctx, c, true)];
    let (ab, ac, cb) = (&ctx.convs[iab], &ctx.convs[iac], &ctx.convs[icb]);
    let (a, b, m) = (&ctx.sps[ab.a], &ctx.sps[ab.b], &ctx.sps[ac.b]);
    let (ia, ib, im) = (&ctx.infos[ab.a], &ctx.infos[ab.b], &ctx.infos[ac.b]);
    let mut tier = leg_tier(a, b).max_t(leg_tier(a, m)).max_t(leg_tier(m, b));
    // any route that touches Oklab on one leg and sRGB-primaries RGB on another may or may not use the direct matrices
    let fams = [family(a), family(b), family(m)];
    if fams.contains(&"Ok") && fams.iter().any(|f| *f != "Ok") {
        tier = Tier::S;
    }
    let label: &'static str = pv::runner::intern(&format!("{} -> {} vs via {}", SPACE_NAMES[ab.a], SPACE_NAMES[ab.b], SPACE_NAMES[ac.b]));
    obs.class(match tier { Tier::E => "tier E (same family)", Tier::M => "tier M (7-digit matrix pair)", Tier::S => "tier S (Oklab seam)" });
    let x = if c.f32_ { round32(c.x) } else { c.x };
    if numerically_black(&[a, b, m], x) {
        obs.class("below the L* < 1e-5 black flush of the L*u*v* family (skipped)");
        return Ok(());
    }
    if !representable(&[b, m], a, x) {
        obs.class("outside the gamut of a hexcone space on the route (skipped)");
        return Ok(());
    }
    obs.nontrivial_if(ab.a != ab.b && ac.b != ab.a && ac.b != ab.b && embed_chroma(ia, x) > 1e-3);
    let direct64 = run64(ab, x);
    let mid64 = run64(ac, x);
    if !finite(direct64) || !finite(mid64) {
        obs.class("intermediate not finite (left to C07)");
        return Ok(());
    }
    if c.f32_ {
        let f1 = |v: V3| run64(ab, v);
        let f2 = |v: V3| run64(ac, v);
        let f3 = |v: V3| run64(cb, v);
        let s1 = scatter(ia, &f1, &|p, q| dist(b, ib, p, q), x);
        let s2 = scatter(ia, &f2, &|p, q| dist(m, im, p, q), x);
        let s3 = scatter(im, &f3, &|p, q| dist(b, ib, p, q), mid64);
        if !(s1 <= 1e-4 && s2 <= 1e-4 && s3 <= 1e-4) {
            obs.class("f32: ill-conditioned route (skipped)");
            return Ok(());
        }
        let direct = run32(ab, x);
        let via = run32(cb, run32(ac, x));
        let d = dist(b, ib, direct, via);
        if !(d <= 2e-3) && okhsl_white_tip(&[a, b, m], a, x) {
            pv::fail_keyed!("C01:okhsl-white-tip-not-invertible", "{} (f32) of {:?}: direct {:?}, step by step {:?} (distance {:e}); within 1e-3 of white Okhsl is not invertible", label, x, direct, via, d);
        }
        if !(d <= 2e-3) && at_blue_hue_jump(&[a, b, m], a, x) {
            pv::fail_keyed!("C01:okhsx-blue-hue-discontinuity-f32", "{} (f32) of {:?}: direct {:?}, step by step {:?} (distance {:e}); the hue is within 0.05 deg of the blue primary's, where the Ok* gamut slice jumps", label, x, direct, via, d);
        }
        obs.err("f32 commutation", d);
        ensure!(d <= 2e-3, "{} (f32) of {:?}: direct {:?}, step by step {:?} (distance {:e}, allowed 2e-3)", label, x, direct, via, d);
        return Ok(());
    }
    let via = run64(cb, mid64);
    // the step-by-step route is only as good as the conditioning of its second leg at the noise level of the first
    let d = dist(b, ib, direct64, via);
    let mut lim = tol(tier, false).max(knee_allowance(&[(a, x), (m, mid64), (b, direct64)]));
    if !(d <= lim) && okhsl_white_tip(&[a, b, m], a, x) {
        pv::fail_keyed!("C01:okhsl-white-tip-not-invertible", "{} of {:?}: direct {:?}, step by step {:?} (intermediate {:?}); distance {:e}; within 1e-3 of white Okhsl is not invertible", label, x, direct64, via, mid64, d);
    }
    if !(d <= lim) {
        let f1 = |v: V3| run64(ab, v);
        let f3 = |v: V3| run64(cb, v);
        let f23 = |v: V3| run64(cb, run64(ac, v));
        let db = |p: V3, q: V3| dist(b, ib, p, q);
        let s12 = scatter_tier(tier, ia, &f1, &db, x).max(scatter_tier(tier, im, &f3, &db, mid64)).max(scatter_tier(tier, ia, &f23, &db, x));
        lim = allowed(tier, s12);
        obs.class("tolerance scaled by measured conditioning");
    } else {
        obs.err(match tier { Tier::E => "commutation, tier E", Tier::M => "commutation, tier M", Tier::S => "commutation, tier S" }, d);
        obs.err(label, d);
    }
    ensure!(d <= lim, "{} of {:?}: direct {:?}, step by step {:?} (intermediate {:?}); distance {:e} in the target embedding, allowed {:e}", label, x, direct64, via, mid64, d, lim);
    Ok(())
}
trait MaxT {
    fn max_t(self, o: Self) -> Self;
}
impl MaxT for Tier {
    fn max_t(self, o: Tier) -> Tier {
        if o > self { o } else { self }
    }
}

fn bits3(v: V3) -> [u64; 3] {
    [v[0].to_bits(), v[1].to_bits(), v[2].to_bits()]
}
fn alpha_point(ctx: &Ctx, c: &Case, obs: &mut Obs) -> PropResult {
    let cv = &ctx.convs[c.k];
    let label = format!("{} -> {}", SPACE_NAMES[cv.a], SPACE_NAMES[cv.b]);
    obs.nontrivial_if(cv.a != cv.b && c.alpha != 0.0 && c.alpha != 1.0);
    if c.f32_ {
        let x = [c.x[0] as f32, c.x[1] as f32, c.x[2] as f32];
        let al = c.alpha as f32;
        let bare = (cv.u32_)(x);
        let with = (cv.a32)([x[0], x[1], x[2], al]);
        let b = |v: [f32; 3]| [v[0].to_bits(), v[1].to_bits(), v[2].to_bits()];
        ensure!(b([with[0], with[1], with[2]]) == b(bare), "{} (f32): with alpha {} the colour converts to {:?}, without to {:?}", label, al, &with[..3], bare);
        ensure!(with[3].to_bits() == al.to_bits(), "{} (f32): alpha {} came out as {}", label, al, with[3]);
        return Ok(());
    }
    let x = c.x;
    let bare = (cv.u64_)(x);
    let with = (cv.a64)([x[0], x[1], x[2], c.alpha]);
    ensure!(bits3([with[0], with[1], with[2]]) == bits3(bare), "{}: with alpha {} the colour {:?} converts to {:?}, without to {:?}", label, c.alpha, x, &with[..3], bare);
    ensure!(with[3].to_bits() == c.alpha.to_bits(), "{}: alpha {} came out as {}", label, c.alpha, with[3]);
    let dropped = (cv.drop64)([x[0], x[1], x[2], c.alpha]);
    ensure!(bits3(dropped) == bits3(bare), "{}: converting Alpha<A> to bare B gives {:?}, expected {:?}", label, dropped, bare);
    let added = (cv.add64)(x);
    ensure!(bits3([added[0], added[1], added[2]]) == bits3(bare) && added[3] == 1.0, "{}: converting bare A to Alpha<B> gives {:?}, expected {:?} with alpha 1", label, added, bare);
    Ok(())
}

#[derive(Debug, Clone, Serialize, Deserialize)]
struct WaCase {
    x: [f64; 3],
    alpha: f64,
}
fn with_alpha_point(c: &WaCase, obs: &mut Obs) -> PropResult {
    obs.nontrivial_if(c.alpha != 0.0 && c.alpha != 1.0);
    macro_rules! go {
        ($C:ty) => {{
            let col: $C = c.x.into();
            let a: Alpha<$C, f64> = col.with_alpha(c.alpha);
            let (c2, al) = a.split();
            let arr: [f64; 3] = c2.into();
            ensure!(bits3(arr) == bits3(c.x) && al.to_bits() == c.alpha.to_bits(), "{}: with_alpha / split changed {:?} alpha {} into {:?} alpha {}", stringify!($C), c.x, c.alpha, arr, al);
            let arr: [f64; 3] = a.without_alpha().into();
            ensure!(bits3(arr) == bits3(c.x), "{}: without_alpha changed the colour", stringify!($C));
            let aa: Alpha<$C, f64> = a.with_alpha(0.25);
            ensure!(aa.alpha == 0.25 && bits3(aa.color.into()) == bits3(c.x), "{}: with_alpha on Alpha does not replace the alpha only", stringify!($C));
            let o: Alpha<$C, f64> = col.opaque();
            let t: Alpha<$C, f64> = col.transparent();
            ensure!(o.alpha == 1.0 && t.alpha == 0.0 && bits3(o.color.into()) == bits3(c.x) && bits3(t.color.into()) == bits3(c.x), "{}: opaque / transparent", stringify!($C));
            // mixed component types: u8 alpha on a float colour
            let m: Alpha<$C, u8> = col.with_alpha((c.alpha * 255.0) as u8);
            let (c3, a3) = m.split();
            ensure!(bits3(c3.into()) == bits3(c.x) && a3 == (c.alpha * 255.0) as u8, "{}: u8 alpha", stringify!($C));
        }};
    }
    go!(palette::Srgb<f64>);
    go!(palette::LinSrgb<f64>);
    go!(palette::Xyz<palette::white_point::D65, f64>);
    go!(palette::Lab<palette::white_point::D65, f64>);
    go!(palette::Lch<palette::white_point::D65, f64>);
    go!(palette::Hsl<palette::encoding::Srgb, f64>);
    go!(palette::Hsv<palette::encoding::Srgb, f64>);
    go!(palette::Hwb<palette::encoding::Srgb, f64>);
    go!(palette::Oklab<f64>);
    go!(palette::Okhsv<f64>);
    go!(palette::Yxy<palette::white_point::D65, f64>);
    go!(palette::Luv<palette::white_point::D65, f64>);
    Ok(())
}

/// source colours of space A for a route whose other spaces are `others`
fn source(ctx: &Ctx, a: usize, others: &[usize]) -> BoxedStrategy<V3> {
    let sa = ctx.sps[a];
    let info = ctx.infos[a];
    // colours of the sRGB gamut expressed in A through the definitions (every gamut of the matrix contains sRGB)
    let srgb = rf::standard("Srgb");
    let mapped = pv::types::in_gamut_rgb()
        .prop_map(move |c| {
            if matches!(sa.k, K::Oklab | K::Oklch | K::Okhsl | K::Okhsv | K::Okhwb) {
                // through Ottosson's direct sRGB matrices, with which the gamut procedures are consistent
                let lab = rf::linsrgb_to_oklab(rf::decode3(Tf::Srgb, c));
                let v = match sa.k {
                    K::Oklab => lab,
                    K::Oklch => rf::lab_to_lch(lab),
                    K::Okhsl => rf::oklab_to_okhsl(lab),
                    K::Okhsv => rf::oklab_to_okhsv(lab),
                    _ => rf::okhsv_to_okhwb(rf::oklab_to_okhsv(lab)),
                };
                return if v.iter().all(|t| t.is_finite()) { v } else { match sa.k { K::Oklab | K::Oklch => [0.5, 0.0, 0.0], _ => [0.0, 0.0, 0.5] } };
            }
            let xyz = rf::rgb_to_xyz(&srgb, c);
            let wp = sa.wp;
            // same chromatic relation to the white point, whichever white that is
            let v = from_xyz(&sa, [xyz[0] * wp[0] / rf::D65[0], xyz[1], xyz[2] * wp[2] / rf::D65[2]]);
            if v.iter().all(|t| t.is_finite()) { v } else { from_xyz(&sa, [0.2 * wp[0], 0.2, 0.2 * wp[2]]) }
        })
        .boxed();
    // the nominal box of A itself, when no other space on the route is confined to a different gamut
    let ga = gamut(&sa);
    // (a plain RGB space does not confine: unclamped, it represents colours outside its gamut with negative or > 1
    // components, and the property demands that they come back; hexcone and Ok* / HSLuv spaces do confine)
    let box_ok = ga.is_some() && others.iter().all(|o| { let g = gamut(&ctx.sps[*o]); g.is_none() || g == ga || ctx.sps[*o].k == K::Rgb });
    if box_ok {
        prop_oneof![1 => mapped, 1 => nominal_box(info)].boxed()
    } else {
        mapped
    }
}


// ------------------------------------------------------------------------------------------
// User-defined colour types: the conversions are written by #[derive(FromColorUnclamped, WithAlpha)] from one or two
// manual impls (palette_derive walks the conversion tree to the nearest colour of `skip_derives`). Same relations as for
// the built-in types: direct == through the manual base, there and back, transparency carried through unchanged.
mod custom {
    use palette::convert::{FromColorUnclamped, IntoColorUnclamped};
    use palette::rgb::Rgb;
    use palette::white_point::D65;
    use palette::{Lab, Srgb, WithAlpha, Xyz};

    /// XYZ on a 0..100 scale (default base of the derive: Xyz)
    #[derive(Clone, Copy, Debug, PartialEq, FromColorUnclamped, WithAlpha)]
    #[palette(component = "f64")]
    pub struct Xyz100 {
        pub x: f64,
        pub y: f64,
        pub z: f64,
    }
    impl FromColorUnclamped<Xyz<palette::white_point::D65, f64>> for Xyz100 {
        fn from_color_unclamped(c: Xyz<palette::white_point::D65, f64>) -> Self {
            Xyz100 { x: c.x * 100.0, y: c.y * 100.0, z: c.z * 100.0 }
        }
    }
    impl FromColorUnclamped<Xyz100> for Xyz<palette::white_point::D65, f64> {
        fn from_color_unclamped(c: Xyz100) -> Self {
            Xyz::new(c.x / 100.0, c.y / 100.0, c.z / 100.0)
        }
    }

    /// CSS-like sRGB with its own alpha field (base: Rgb; the derive has to carry the alpha field through)
    #[derive(Clone, Copy, Debug, PartialEq, FromColorUnclamped, WithAlpha)]
    #[palette(skip_derives(Rgb), component = "f64", rgb_standard = "palette::encoding::Srgb")]
    pub struct MyRgba {
        pub red: f64,
        pub green: f64,
        pub blue: f64,
        #[palette(alpha)]
        pub alpha: f64,
    }
    impl<S> FromColorUnclamped<Rgb<S, f64>> for MyRgba
    where
        Srgb<f64>: FromColorUnclamped<Rgb<S, f64>>,
    {
        fn from_color_unclamped(c: Rgb<S, f64>) -> Self {
            let s = Srgb::<f64>::from_color_unclamped(c);
            MyRgba { red: s.red * 255.0, green: s.green * 255.0, blue: s.blue * 255.0, alpha: 1.0 }
        }
    }
    impl<S> FromColorUnclamped<MyRgba> for Rgb<S, f64>
    where
        Srgb<f64>: IntoColorUnclamped<Rgb<S, f64>>,
    {
        fn from_color_unclamped(c: MyRgba) -> Self {
            Srgb::<f64>::new(c.red / 255.0, c.green / 255.0, c.blue / 255.0).into_color_unclamped()
        }
    }

    /// L*a*b* with swapped field order (base: Lab, so every other colour is reached through Lab)
    #[derive(Clone, Copy, Debug, PartialEq, FromColorUnclamped, WithAlpha)]
    #[palette(skip_derives(Lab), component = "f64", white_point = "D65")]
    pub struct Bal {
        pub b: f64,
        pub a: f64,
        pub l: f64,
    }
    impl FromColorUnclamped<Lab<D65, f64>> for Bal {
        fn from_color_unclamped(c: Lab<D65, f64>) -> Self {
            Bal { b: c.b, a: c.a, l: c.l }
        }
    }
    impl FromColorUnclamped<Bal> for Lab<D65, f64> {
        fn from_color_unclamped(c: Bal) -> Self {
            Lab::new(c.l, c.a, c.b)
        }
    }
}

#[derive(Debug, Clone, Serialize, Deserialize)]
struct CustomCase {
    /// an sRGB colour
    c: [f64; 3],
    alpha: f64,
}

fn custom_point(c: &CustomCase, obs: &mut Obs) -> PropResult {
    use custom::{Bal, MyRgba, Xyz100};
    use palette::convert::FromColorUnclamped;
    use palette::white_point::D65;
    use palette::{Hsl, Hsluv, Hsv, Hwb, Lab, Lch, Lchuv, LinSrgb, Luv, Okhsl, Okhsv, Okhwb, Oklab, Oklch, Srgb, Xyz, Yxy};
    obs.nontrivial_if(c.alpha != 0.0 && c.alpha != 1.0);
    let srgb = Srgb::<f64>::new(c.c[0], c.c[1], c.c[2]);
    let dist = |p: [f64; 3], q: [f64; 3]| (0..3).map(|i| (p[i] - q[i]).abs()).fold(0.0, f64::max);
    // ---- D65 types: compare in XYZ (the embedding), tolerance by the target's family ----
    macro_rules! via {
        // $U: custom type, $Base: its manual base, $u: a value of $U, $B: target, $tol
        ($un:expr, $U:ty, $Base:ty, $u:expr, $bn:expr, $B:ty, $W:ty, $tol:expr) => {{
            let u: $U = $u;
            let direct = <$B>::from_color_unclamped(u);
            let step = <$B>::from_color_unclamped(<$Base>::from_color_unclamped(u));
            let (xd, xs) = (Xyz::<$W, f64>::from_color_unclamped(direct), Xyz::<$W, f64>::from_color_unclamped(step));
            let d = dist([xd.x, xd.y, xd.z], [xs.x, xs.y, xs.z]);
            ensure!(d <= $tol, "{} -> {} directly gives {:?}, through the manual base {:?} (distance {:e} in XYZ, allowed {:e}) for {:?}", $un, $bn, direct, step, d, $tol, u);
            // and back: B -> U directly vs through the base, and the round trip
            let back = <$U>::from_color_unclamped(direct);
            let back_step = <$U>::from_color_unclamped(<$Base>::from_color_unclamped(direct));
            let (xb, xbs, xu) = (Xyz::<$W, f64>::from_color_unclamped(back), Xyz::<$W, f64>::from_color_unclamped(back_step), Xyz::<$W, f64>::from_color_unclamped(u));
            let d = dist([xb.x, xb.y, xb.z], [xbs.x, xbs.y, xbs.z]);
            ensure!(d <= $tol, "{} -> {} directly gives {:?}, through the manual base {:?} (distance {:e} in XYZ) for {:?}", $bn, $un, back, back_step, d, direct);
            // there and back crosses a hard-coded 7-digit matrix pair for most targets (tier M of the built-in pairs)
            let d = dist([xb.x, xb.y, xb.z], [xu.x, xu.y, xu.z]);
            let rt: f64 = ($tol as f64).max(2e-5);
            ensure!(d <= rt, "{} -> {} -> {} returns {:?} for {:?} (distance {:e} in XYZ, allowed {:e})", $un, $bn, $un, back, u, d, rt);
            // a target wrapped in Alpha: opaque alpha unless the source carries one
            let wrapped = palette::Alpha::<$B, f64>::from_color_unclamped(u);
            (direct, wrapped)
        }};
    }
    macro_rules! all_d65 {
        ($un:expr, $U:ty, $Base:ty, $u:expr, $want_alpha:expr) => {{
            macro_rules! one {
                ($bn:expr, $B:ty, $tol:expr) => {{
                    let (direct, wrapped) = via!($un, $U, $Base, $u, $bn, $B, D65, $tol);
                    ensure!(wrapped.alpha.to_bits() == ($want_alpha as f64).to_bits(), "{} -> Alpha<{}>: alpha = {} expected {}", $un, $bn, wrapped.alpha, $want_alpha);
                    ensure!(format!("{:?}", wrapped.color) == format!("{:?}", direct), "{} -> Alpha<{}>: colour {:?} differs from the bare conversion {:?}", $un, $bn, wrapped.color, direct);
                }};
            }
            one!("Srgb", Srgb<f64>, 1e-9);
            one!("LinSrgb", LinSrgb<f64>, 1e-9);
            one!("Xyz", Xyz<D65, f64>, 1e-9);
            one!("Yxy", Yxy<D65, f64>, 1e-9);
            one!("Lab", Lab<D65, f64>, 1e-9);
            one!("Lch", Lch<D65, f64>, 1e-9);
            one!("Luv", Luv<D65, f64>, 1e-9);
            one!("Lchuv", Lchuv<D65, f64>, 1e-9);
            one!("Hsluv", Hsluv<D65, f64>, 1e-7);
            one!("Hsl", Hsl<palette::encoding::Srgb, f64>, 1e-9);
            one!("Hsv", Hsv<palette::encoding::Srgb, f64>, 1e-9);
            one!("Hwb", Hwb<palette::encoding::Srgb, f64>, 1e-9);
            one!("Oklab", Oklab<f64>, 1e-3);
            one!("Oklch", Oklch<f64>, 1e-3);
            one!("Okhsl", Okhsl<f64>, 1e-3);
            one!("Okhsv", Okhsv<f64>, 1e-3);
            one!("Okhwb", Okhwb<f64>, 1e-3);
        }};
    }
    // Okhsl next to white and black is a known non-invertible zone (C01 / C15 findings): keep the colours away from the tips
    let tip = c.c.iter().all(|v| *v > 0.97) || c.c.iter().all(|v| *v < 1e-4);
    if !tip {
        let x = Xyz::<D65, f64>::from_color_unclamped(srgb);
        all_d65!("Xyz100", Xyz100, Xyz<D65, f64>, Xyz100 { x: x.x * 100.0, y: x.y * 100.0, z: x.z * 100.0 }, 1.0);
        let my = MyRgba { red: c.c[0] * 255.0, green: c.c[1] * 255.0, blue: c.c[2] * 255.0, alpha: c.alpha };
        all_d65!("MyRgba", MyRgba, Srgb<f64>, my, c.alpha);
        let lab = Lab::<D65, f64>::from_color_unclamped(srgb);
        all_d65!("Bal", Bal, Lab<D65, f64>, Bal { b: lab.b, a: lab.a, l: lab.l }, 1.0);
    }
    // ---- the alpha field of a user type ----
    let my = MyRgba { red: c.c[0] * 255.0, green: c.c[1] * 255.0, blue: c.c[2] * 255.0, alpha: c.alpha };
    {
        use palette::WithAlpha;
        macro_rules! into_my {
            ($bn:expr, $B:ty) => {{
                let b = <$B>::from_color_unclamped(my);
                let bare = MyRgba::from_color_unclamped(b);
                ensure!(bare.alpha == 1.0, "{} -> MyRgba: alpha = {} for an opaque source (expected 1)", $bn, bare.alpha);
                let from_alpha = MyRgba::from_color_unclamped(palette::Alpha { color: b, alpha: c.alpha });
                ensure!(from_alpha.alpha.to_bits() == c.alpha.to_bits(), "Alpha<{}> (alpha {}) -> MyRgba: alpha = {}", $bn, c.alpha, from_alpha.alpha);
                ensure!([from_alpha.red, from_alpha.green, from_alpha.blue].map(f64::to_bits) == [bare.red, bare.green, bare.blue].map(f64::to_bits), "Alpha<{}> -> MyRgba: colour {:?} differs from the bare conversion {:?}", $bn, from_alpha, bare);
                // a user type without alpha field drops it / gets it through the wrapper
                let plain = Xyz100::from_color_unclamped(palette::Alpha { color: b, alpha: c.alpha });
                let plain_bare = Xyz100::from_color_unclamped(b);
                ensure!(plain == plain_bare || (plain.x.is_nan() && plain_bare.x.is_nan()), "Alpha<{}> -> Xyz100 differs from {} -> Xyz100", $bn, $bn);
                let wrapped = palette::Alpha::<Xyz100, f64>::from_color_unclamped(palette::Alpha { color: b, alpha: c.alpha });
                ensure!(wrapped.alpha.to_bits() == c.alpha.to_bits() && (wrapped.color == plain_bare || plain_bare.x.is_nan()), "Alpha<{}> -> Alpha<Xyz100>: {:?} expected colour {:?} alpha {}", $bn, wrapped, plain_bare, c.alpha);
            }};
        }
        into_my!("Srgb", Srgb<f64>);
        into_my!("LinSrgb", LinSrgb<f64>);
        into_my!("Lab", Lab<D65, f64>);
        into_my!("Lch", Lch<D65, f64>);
        into_my!("Hsv", Hsv<palette::encoding::Srgb, f64>);
        into_my!("Oklab", Oklab<f64>);
        into_my!("Okhsv", Okhsv<f64>);
        // WithAlpha on a type that has its own alpha field: the field is set, nothing else changes
        let w = my.with_alpha(0.25);
        ensure!(w.alpha == 0.25 && w.red == my.red && w.green == my.green && w.blue == my.blue, "MyRgba::with_alpha(0.25) = {:?}", w);
        let (col, a) = my.split();
        ensure!(a.to_bits() == c.alpha.to_bits() && col.red == my.red, "MyRgba::split = ({:?}, {})", col, a);
        let o = my.opaque();
        let t = my.transparent();
        ensure!(o.alpha == 1.0 && t.alpha == 0.0, "MyRgba::opaque / transparent = {} / {}", o.alpha, t.alpha);
        let x100 = Xyz100 { x: 10.0, y: 20.0, z: 30.0 };
        let xa = x100.with_alpha(c.alpha);
        ensure!(xa.alpha.to_bits() == c.alpha.to_bits() && xa.color == x100 && xa.without_alpha() == x100, "Xyz100::with_alpha");
    }
    Ok(())
}

fn main() {
    let mut h = Harness::new("C01");
    h.rule("Ordered pairs of the 85-space type matrix (18 core types all-pairs; RGB standards sRGB / linear / Adobe / Rec.709 / Rec.2020 / Display P3 / DCI-P3 / ProPhoto; every built-in white point; luma of five standards; cylindrical spaces of four standards with an XYZ hub each; two LMS matrices; three user-defined types converted through #[derive]), f64 and f32, bare and with Alpha. Sources: in-gamut sRGB colours (faces, edges, corners, greys, dark, interior) expressed in the source space through the reference definitions, plus the source's own nominal box when no space on the route is confined to another gamut. Oracles: A->B->A returns the source in A's cartesian embedding (tier E 1e-10 within one family of constants, M 2e-5 across a hard-coded 7-digit matrix pair, S 6e-4 across the Oklab direct/M1 seam; f32 2e-3 after a conditioning filter); direct A->B equals A->C->B for every intermediate C of the matrix (worst tier of the legs); Alpha<A>->Alpha<B> has the colour bitwise equal to A->B and the alpha bitwise unchanged, Alpha<A>->B and A->Alpha<B> likewise; with_alpha / split / without_alpha are exact. Non-trivial = A != B (and C distinct), source chromatic (embedding chroma > 1e-3), alpha not 0 or 1; distinct by hash.");
    h.assume("luma targets and intermediates are excluded (single channel cannot represent the colour); non-finite intermediates are C07's subject and only counted here; pure power-law encodings (Adobe RGB, DCI gamma) are compared in linear light");
    let convs = conversions();
    let n_sp = SPACE_NAMES.len();
    let sps: Vec<Sp> = SPACE_NAMES.iter().map(|n| parse(n)).collect();
    let infos: Vec<SpaceInfo> = (0..n_sp).map(space_info).collect();
    let mut round = Vec::new();
    for (i, cv) in convs.iter().enumerate() {
        if sps[cv.b].k == K::Luma {
            continue;
        }
        if let Some(j) = conv_index(&convs, cv.b, cv.a) {
            round.push((i, j));
        }
    }
    let mut tri = Vec::new();
    for (i, cv) in convs.iter().enumerate() {
        if sps[cv.b].k == K::Luma && sps[cv.a].k != K::Luma {
            // colour -> luma is many-to-one but still route independent: keep it
        }
        for m in 0..n_sp {
            if sps[m].k == K::Luma && sps[cv.a].k != K::Luma {
                continue;
            }
            if let (Some(j), Some(k)) = (conv_index(&convs, cv.a, m), conv_index(&convs, m, cv.b)) {
                tri.push((i, j, k));
            }
        }
    }
    let ctx = Ctx { convs, sps, infos, round, tri };
    h.extra("round_trip_pairs", serde_json::json!(ctx.round.len()));
    h.extra("commutation_triples", serde_json::json!(ctx.tri.len()));
    let ctxr = &ctx;
    let unit = pv::gen::unit;

    let nr = ctx.round.len();
    let per = h.n(3_000, 60_000);
    h.prop(
        "round_trip",
        per * nr as u64,
        || {
            (0..nr, any::<bool>()).prop_flat_map(move |(k, f32_)| {
                let (iab, _) = ctxr.round[k];
                let cv = &ctxr.convs[iab];
                source(ctxr, cv.a, &[cv.b]).prop_map(move |x| Case { k, route: None, x, alpha: 1.0, f32_ })
            })
        },
        |c, obs| round_point(ctxr, c, obs),
    );
    let nt = ctx.tri.len();
    let per = h.n(300, 6_000);
    h.prop(
        "commutation",
        per * nt as u64,
        || {
            (0..nt, any::<bool>()).prop_flat_map(move |(k, f32_)| {
                let (iab, iac, _) = ctxr.tri[k];
                let (ab, ac) = (&ctxr.convs[iab], &ctxr.convs[iac]);
                source(ctxr, ab.a, &[ab.b, ac.b]).prop_map(move |x| Case { k, route: None, x, alpha: 1.0, f32_ })
            })
        },
        |c, obs| tri_point(ctxr, c, obs),
    );
    let nc = ctx.convs.len();
    let per = h.n(1_000, 20_000);
    h.prop(
        "alpha_transparency",
        per * nc as u64,
        || {
            (0..nc, any::<bool>(), unit()).prop_flat_map(move |(k, f32_, alpha)| {
                let cv = &ctxr.convs[k];
                source(ctxr, cv.a, &[cv.b]).prop_map(move |x| Case { k, route: None, x, alpha, f32_ })
            })
        },
        |c, obs| alpha_point(ctxr, c, obs),
    );
    let n = h.n(50_000, 2_000_000);
    let ncu = h.n(150_000, 3_000_000);
    h.prop(
        "user_defined_colour_types",
        ncu,
        || (pv::types::in_gamut_rgb(), prop_oneof![3 => unit(), 1 => Just(0.0), 1 => Just(1.0)]).prop_map(|(c, alpha)| CustomCase { c, alpha }),
        custom_point,
    );
    h.prop("with_alpha_split", n, || ([-1.0..=2.0f64, -1.0..=2.0f64, -1.0..=2.0f64], unit()).prop_map(|(x, alpha)| WaCase { x, alpha }), with_alpha_point);
    h.finish();
}
