//! C05 — transfer functions and their lookup tables are faithful, monotone and total.
#![allow(deprecated)]
use palette::encoding::{AdobeRgb, FromLinear, IntoLinear, P3Gamma, ProPhotoRgb, RecOetf, Srgb};
use proptest::prelude::*;
use pv::ensure;
use pv::gen::{next_up32, next_up64, ulp32, ulp64};
use pv::runner::{Fail, Harness, Obs, PropResult};
use serde::{Deserialize, Serialize};

// ---------- independent reference curves (from the standards, f64) ----------
const NCURVES: usize = 6;
const CNAMES: [&str; NCURVES] = ["Srgb", "RecOetf", "AdobeRgb", "P3Gamma", "ProPhotoRgb", "LinearFn"];
const REC_ALPHA: f64 = 1.09929682680944;
const REC_BETA: f64 = 0.018053968510807;

/// (value on the branch the standard prescribes, value on the other branch if x is a knee candidate)
fn enc_branches(k: usize, x: f64) -> (f64, Option<(f64, f64)>) {
    match k {
        0 => {
            let lin = 12.92 * x;
            let pw = 1.055 * x.powf(1.0 / 2.4) - 0.055;
            if x <= 0.0031308 { (lin, Some((0.0031308, pw))) } else { (pw, Some((0.0031308, lin))) }
        }
        1 => {
            let lin = 4.5 * x;
            let pw = REC_ALPHA * x.powf(0.45) - (REC_ALPHA - 1.0);
            if x < REC_BETA { (lin, Some((REC_BETA, pw))) } else { (pw, Some((REC_BETA, lin))) }
        }
        2 => (x.powf(256.0 / 563.0), None),
        3 => (x.powf(1.0 / 2.6), None),
        4 => {
            let lin = 16.0 * x;
            let pw = x.powf(1.0 / 1.8);
            if x < 1.0 / 512.0 { (lin, Some((1.0 / 512.0, pw))) } else { (pw, Some((1.0 / 512.0, lin))) }
        }
        5 => (x, None),
        _ => unreachable!(),
    }
}
fn dec_branches(k: usize, y: f64) -> (f64, Option<(f64, f64)>) {
    match k {
        0 => {
            let lin = y / 12.92;
            let pw = ((y + 0.055) / 1.055).powf(2.4);
            if y <= 0.04045 { (lin, Some((0.04045, pw))) } else { (pw, Some((0.04045, lin))) }
        }
        1 => {
            let lin = y / 4.5;
            let pw = ((y + (REC_ALPHA - 1.0)) / REC_ALPHA).powf(1.0 / 0.45);
            if y < 4.5 * REC_BETA { (lin, Some((4.5 * REC_BETA, pw))) } else { (pw, Some((4.5 * REC_BETA, lin))) }
        }
        2 => (y.powf(563.0 / 256.0), None),
        3 => (y.powf(2.6), None),
        4 => {
            let lin = y / 16.0;
            let pw = y.powf(1.8);
            if y < 16.0 / 512.0 { (lin, Some((16.0 / 512.0, pw))) } else { (pw, Some((16.0 / 512.0, lin))) }
        }
        5 => (y, None),
        _ => unreachable!(),
    }
}
/// decoder with the continuity-corrected offset, derived from (linear scale, linear end, gamma)
fn dec_cc(y: f64, scale: f64, end: f64, gamma: f64) -> f64 {
    let alpha = (scale * end - 1.0) / (end.powf(1.0 / gamma) - 1.0);
    if y <= scale * end {
        y / scale
    } else {
        ((y + alpha - 1.0) / alpha).powf(gamma)
    }
}
fn enc_ref(k: usize, x: f64) -> f64 {
    enc_branches(k, x).0
}
fn dec_ref(k: usize, y: f64) -> f64 {
    dec_branches(k, y).0
}

macro_rules! by_curve {
    ($k:expr, $C:ident => $e:expr) => {
        match $k {
            0 => { type $C = Srgb; $e }
            1 => { type $C = RecOetf; $e }
            2 => { type $C = AdobeRgb; $e }
            3 => { type $C = P3Gamma; $e }
            4 => { type $C = ProPhotoRgb; $e }
            5 => { type $C = palette::encoding::linear::LinearFn; $e }
            _ => unreachable!(),
        }
    };
}

// ---------- integer encoders (LUT fast paths) ----------
const ENAMES: [&str; 5] = ["Srgb->u8", "RecOetf->u8", "AdobeRgb->u8", "P3Gamma->u8", "ProPhotoRgb->u16"];
fn emax(e: usize) -> u32 {
    if e == 4 { 65535 } else { 255 }
}
#[inline]
fn encode_f32(e: usize, x: f32) -> u32 {
    match e {
        0 => <Srgb as FromLinear<f32, u8>>::from_linear(x) as u32,
        1 => <RecOetf as FromLinear<f32, u8>>::from_linear(x) as u32,
        2 => <AdobeRgb as FromLinear<f32, u8>>::from_linear(x) as u32,
        3 => <P3Gamma as FromLinear<f32, u8>>::from_linear(x) as u32,
        4 => <ProPhotoRgb as FromLinear<f32, u16>>::from_linear(x) as u32,
        _ => unreachable!(),
    }
}
#[inline]
fn encode_f64(e: usize, x: f64) -> u32 {
    match e {
        0 => <Srgb as FromLinear<f64, u8>>::from_linear(x) as u32,
        1 => <RecOetf as FromLinear<f64, u8>>::from_linear(x) as u32,
        2 => <AdobeRgb as FromLinear<f64, u8>>::from_linear(x) as u32,
        3 => <P3Gamma as FromLinear<f64, u8>>::from_linear(x) as u32,
        4 => <ProPhotoRgb as FromLinear<f64, u16>>::from_linear(x) as u32,
        _ => unreachable!(),
    }
}
fn decode_f32(e: usize, c: u32) -> f32 {
    match e {
        0 => <Srgb as IntoLinear<f32, u8>>::into_linear(c as u8),
        1 => <RecOetf as IntoLinear<f32, u8>>::into_linear(c as u8),
        2 => <AdobeRgb as IntoLinear<f32, u8>>::into_linear(c as u8),
        3 => <P3Gamma as IntoLinear<f32, u8>>::into_linear(c as u8),
        4 => <ProPhotoRgb as IntoLinear<f32, u16>>::into_linear(c as u16),
        _ => unreachable!(),
    }
}
fn decode_f64(e: usize, c: u32) -> f64 {
    match e {
        0 => <Srgb as IntoLinear<f64, u8>>::into_linear(c as u8),
        1 => <RecOetf as IntoLinear<f64, u8>>::into_linear(c as u8),
        2 => <AdobeRgb as IntoLinear<f64, u8>>::into_linear(c as u8),
        3 => <P3Gamma as IntoLinear<f64, u8>>::into_linear(c as u8),
        4 => <ProPhotoRgb as IntoLinear<f64, u16>>::into_linear(c as u16),
        _ => unreachable!(),
    }
}

#[derive(Debug, Clone, Serialize, Deserialize)]
struct EncCase {
    enc: usize,
    bits: u32,
}

/// value oracle for one f32 input (saturation, |code - curve*MAX| < 0.6) + monotone vs. previous f32
fn enc_point(c: &EncCase, obs: &mut Obs) -> PropResult {
    let e = c.enc;
    let x = f32::from_bits(c.bits);
    let code = encode_f32(e, x);
    let max = emax(e);
    if x.is_nan() {
        obs.class("nan");
        ensure!(code <= max, "{}: NaN gave code {} > MAX", ENAMES[e], code);
        return Ok(());
    }
    if x <= 0.0 {
        obs.class("non-positive");
        ensure!(code == 0, "{}: x={:e} (<= 0) encoded as {} expected 0", ENAMES[e], x, code);
    } else if x >= 1.0 {
        obs.class("at-or-above-one");
        ensure!(code == max, "{}: x={:e} (>= 1) encoded as {} expected {}", ENAMES[e], x, code, max);
    } else {
        obs.class("inside");
        let t = enc_ref(e, x as f64) * max as f64;
        let d = (code as f64 - t).abs();
        obs.err("code_error", d);
        ensure!(d < 0.6, "{}: x={:e} encoded as {} but curve*MAX = {:.6} (error {:.4} >= 0.6)", ENAMES[e], x, code, t, d);
    }
    if x != f32::NEG_INFINITY {
        let below = next_up32(x, -1);
        let cb = encode_f32(e, below);
        ensure!(cb <= code, "{}: not monotone: f({:e})={} > f({:e})={}", ENAMES[e], below, cb, x, code);
    }
    Ok(())
}

fn enc_sweep_range(e: usize, lo: u32, hi: u32, obs: &mut Obs) {
    // positive patterns 0..=0x7f800000 ascending in value; others handled generically
    let max = emax(e);
    let maxf = max as f64;
    let mut prev: u32 = if lo > 0 && lo <= 0x7f80_0000 { encode_f32(e, f32::from_bits(lo - 1)) } else { 0 };
    let mut nt = 0u64;
    let mut worst = 0f64;
    let mut worst_bits = 0u32;
    let mut bits = lo;
    loop {
        let x = f32::from_bits(bits);
        let code = encode_f32(e, x);
        let ok = if x.is_nan() {
            code <= max
        } else if x <= 0.0 {
            code == 0
        } else if x >= 1.0 {
            code == max && code >= prev
        } else {
            nt += 1;
            let t = enc_ref(e, x as f64) * maxf;
            let d = (code as f64 - t).abs();
            if d > worst {
                worst = d;
                worst_bits = bits;
            }
            d < 0.6 && code >= prev
        };
        if !ok {
            let case = EncCase { enc: e, bits };
            let mut o2 = pv::runner::scratch_obs();
            let f = match enc_point(&case, &mut o2) {
                Err(f) => f,
                Ok(()) => Fail::new(format!("{}: not monotone at bits {:#x}", ENAMES[e], bits)),
            };
            obs.report(&case, f);
        }
        if bits <= 0x7f80_0000 {
            prev = code;
        }
        if bits == hi {
            break;
        }
        bits += 1;
    }
    obs.evals += (hi - lo) as u64 + 1;
    obs.sweep_nontrivial += nt;
    if worst > 0.0 {
        obs.err_with("code_error", worst, || EncCase { enc: e, bits: worst_bits });
    }
}

#[derive(Debug, Clone, Serialize, Deserialize)]
struct Enc64Case {
    enc: usize,
    x: f64,
    step: i64,
}

fn enc64_point(c: &Enc64Case, obs: &mut Obs) -> PropResult {
    let e = c.enc;
    let x = c.x;
    let max = emax(e);
    let code = encode_f64(e, x);
    if x.is_nan() {
        ensure!(code <= max, "NaN -> {}", code);
        return Ok(());
    }
    obs.nontrivial_if(x > 0.0 && x < 1.0);
    if x <= 0.0 {
        ensure!(code == 0, "{} (f64): x={:e} (<= 0) encoded as {} expected 0", ENAMES[e], x, code);
    } else if x >= 1.0 {
        ensure!(code == max, "{} (f64): x={:e} (>= 1) encoded as {} expected {}", ENAMES[e], x, code, max);
    } else {
        let t = enc_ref(e, x) * max as f64;
        let d = (code as f64 - t).abs();
        obs.err("code_error_f64", d);
        ensure!(d < 0.6, "{} (f64): x={:e} encoded as {} but curve*MAX = {:.6} (error {:.4} >= 0.6)", ENAMES[e], x, code, t, d);
    }
    let y = next_up64(x, c.step);
    if !y.is_nan() {
        let cy = encode_f64(e, y);
        let (a, b, ca, cb) = if y >= x { (x, y, code, cy) } else { (y, x, cy, code) };
        ensure!(ca <= cb, "{} (f64): not monotone: f({:e})={} > f({:e})={}", ENAMES[e], a, ca, b, cb);
    }
    Ok(())
}

#[derive(Debug, Clone, Serialize, Deserialize)]
struct CodeCase {
    enc: usize,
    code: u32,
}

fn code_point(c: &CodeCase, obs: &mut Obs) -> PropResult {
    let e = c.enc;
    let code = c.code;
    let max = emax(e);
    let f = decode_f32(e, code);
    let d = decode_f64(e, code);
    let y = code as f64 / max as f64;
    let want = dec_ref(e, y);
    // The published constants leave a step at the knee; a table may equally be built from the
    // continuity-corrected offset a = (s*b - 1)/(b^(1/g) - 1) derived from the same constants
    // (1.0550107 instead of 1.055 for sRGB). Either curve is accepted, each to 1e-12.
    let want_cc = match e {
        0 => dec_cc(y, 12.92, 0.0031308, 2.4),
        1 => dec_cc(y, 4.5, REC_BETA, 1.0 / 0.45),
        4 => dec_cc(y, 16.0, 1.0 / 512.0, 1.8),
        _ => want,
    };
    obs.nontrivial_if(code != 0 && code != max);
    let rel = |got: f64, w: f64| if w > 0.0 { ((got - w) / w).abs() } else { got.abs() };
    let rel64 = rel(d, want).min(rel(d, want_cc));
    obs.err("decode_f64_rel_to_nearer_curve", rel64);
    obs.err("decode_f64_rel_to_published_constants", rel(d, want));
    ensure!(rel64 <= 1e-12, "{} decode({}) as f64 = {:e} but the curve gives {:e} (continuity-corrected {:e})", ENAMES[e], code, d, want, want_cc);
    ensure!(rel(d, want) <= 1.5e-6, "{} decode({}) as f64 = {:e} is {:e} (rel) off the published-constant curve {:e}", ENAMES[e], code, d, rel(d, want), want);
    ensure!(f.to_bits() == (d as f32).to_bits(), "{} decode({}): f32 table {:e} is not the rounded f64 table {:e}", ENAMES[e], code, f, d);
    if code == 0 {
        ensure!(f == 0.0 && d == 0.0, "decode(0) != 0");
    }
    if code == max {
        ensure!(f == 1.0 && d == 1.0, "decode(MAX) != 1");
    }
    if code > 0 {
        ensure!(decode_f32(e, code - 1) < f && decode_f64(e, code - 1) < d, "{} decoder not strictly increasing at {}", ENAMES[e], code);
    }
    let back32 = encode_f32(e, f);
    let back64 = encode_f64(e, d);
    ensure!(back32 == code, "{}: decode-then-encode through f32: {} -> {:e} -> {}", ENAMES[e], code, f, back32);
    ensure!(back64 == code, "{}: decode-then-encode through f64: {} -> {:e} -> {}", ENAMES[e], code, d, back64);
    Ok(())
}

// ---------- generic float curves ----------
#[derive(Debug, Clone, Serialize, Deserialize)]
struct CurveCase {
    curve: usize,
    x: f64,
}

fn accept(got: f64, branches: (f64, Option<(f64, f64)>), x: f64, knee_band: f64, tol: f64) -> Option<f64> {
    let d = (got - branches.0).abs();
    if d <= tol {
        return Some(d);
    }
    if let Some((knee, other)) = branches.1 {
        if (x - knee).abs() <= knee_band && (got - other).abs() <= tol {
            return Some((got - other).abs());
        }
    }
    None
}

fn curve_point(c: &CurveCase, obs: &mut Obs) -> PropResult {
    let k = c.curve;
    let x = c.x;
    obs.nontrivial_if(x > 0.0 && x < 1.0);
    // f64
    let (enc, dec): (f64, f64) = by_curve!(k, C => (<C as FromLinear<f64, f64>>::from_linear(x), <C as IntoLinear<f64, f64>>::into_linear(x)));
    let band64 = 4.0 * ulp64(x.max(1e-3));
    match accept(enc, enc_branches(k, x), x, band64, 1e-12) {
        Some(d) => obs.err("from_linear_f64_abs", d),
        None => return Err(Fail::new(format!("{}::from_linear({:e}) = {:e} but the standard's curve gives {:e}", CNAMES[k], x, enc, enc_ref(k, x)))),
    }
    match accept(dec, dec_branches(k, x), x, band64, 1e-12) {
        Some(d) => obs.err("into_linear_f64_abs", d),
        None => return Err(Fail::new(format!("{}::into_linear({:e}) = {:e} but the standard's curve gives {:e}", CNAMES[k], x, dec, dec_ref(k, x)))),
    }
    // mutual inverse on [0,1]
    let back: f64 = by_curve!(k, C => <C as IntoLinear<f64, f64>>::into_linear(enc));
    let back2: f64 = by_curve!(k, C => <C as FromLinear<f64, f64>>::from_linear(dec));
    // the published constants leave a step (< 1e-6) where the segments meet: there the two
    // directions may pick different segments, so the inverse is only exact up to that step
    let near_knee = [knees(k, 0), knees(k, 1)].iter().flatten().any(|kn| (x - kn).abs() <= 1e-5 || (enc - kn).abs() <= 1e-5 || (dec - kn).abs() <= 1e-5);
    let itol = if near_knee { 1e-6 } else { 1e-9 };
    obs.err(if near_knee { "inverse_f64_abs_at_knee" } else { "inverse_f64_abs" }, (back - x).abs().max((back2 - x).abs()));
    ensure!((back - x).abs() <= itol, "{}: into_linear(from_linear({:e})) = {:e}", CNAMES[k], x, back);
    ensure!((back2 - x).abs() <= itol, "{}: from_linear(into_linear({:e})) = {:e}", CNAMES[k], x, back2);
    // f32
    let xf = x as f32;
    let (enc, dec): (f32, f32) = by_curve!(k, C => (<C as FromLinear<f32, f32>>::from_linear(xf), <C as IntoLinear<f32, f32>>::into_linear(xf)));
    let band32 = 4.0 * ulp32(xf.max(1e-3)) as f64;
    match accept(enc as f64, enc_branches(k, xf as f64), xf as f64, band32, 4e-7) {
        Some(d) => obs.err("from_linear_f32_abs", d),
        None => return Err(Fail::new(format!("{}::from_linear({:e}f32) = {:e} but the standard's curve gives {:e}", CNAMES[k], xf, enc, enc_ref(k, xf as f64)))),
    }
    match accept(dec as f64, dec_branches(k, xf as f64), xf as f64, band32, 4e-7) {
        Some(d) => obs.err("into_linear_f32_abs", d),
        None => return Err(Fail::new(format!("{}::into_linear({:e}f32) = {:e} but the standard's curve gives {:e}", CNAMES[k], xf, dec, dec_ref(k, xf as f64)))),
    }
    let back: f32 = by_curve!(k, C => <C as IntoLinear<f32, f32>>::into_linear(enc));
    let back2: f32 = by_curve!(k, C => <C as FromLinear<f32, f32>>::from_linear(dec));
    // the inverse amplifies the f32 rounding of the intermediate by the local slope (<= 12.92 / 16)
    obs.err("inverse_f32_abs", (back - xf).abs().max((back2 - xf).abs()) as f64);
    ensure!((back - xf).abs() <= 2e-6 && (back2 - xf).abs() <= 4e-6, "{} (f32): inverse of {:e}: {:e} / {:e}", CNAMES[k], xf, back, back2);
    Ok(())
}

#[derive(Debug, Clone, Serialize, Deserialize)]
struct MonoCase {
    curve: usize,
    dir: u8, // 0 = from_linear, 1 = into_linear
    bits: u32,
}

fn knees(k: usize, dir: u8) -> Option<f64> {
    match (k, dir) {
        (0, 0) => Some(0.0031308),
        (0, _) => Some(0.04045),
        (1, 0) => Some(REC_BETA),
        (1, _) => Some(4.5 * REC_BETA),
        (4, 0) => Some(1.0 / 512.0),
        (4, _) => Some(16.0 / 512.0),
        _ => None,
    }
}

#[inline]
fn curve_f32(k: usize, dir: u8, x: f32) -> f32 {
    by_curve!(k, C => if dir == 0 { <C as FromLinear<f32, f32>>::from_linear(x) } else { <C as IntoLinear<f32, f32>>::into_linear(x) })
}

/// monotone in f32 over consecutive bit patterns: a decrease is tolerated only as rounding noise
/// (<= 2 ulp of the result) or, within +-2 ulp of a knee, as the published step (< 1e-6)
fn mono_point(c: &MonoCase, obs: &mut Obs) -> PropResult {
    let x = f32::from_bits(c.bits);
    let xp = f32::from_bits(c.bits - 1);
    let (y, yp) = (curve_f32(c.curve, c.dir, x), curve_f32(c.curve, c.dir, xp));
    if y >= yp {
        return Ok(());
    }
    let drop = (yp - y) as f64;
    let near_knee = match knees(c.curve, c.dir) {
        Some(kn) => (x as f64 - kn).abs() <= 3.0 * ulp32(kn as f32) as f64,
        None => false,
    };
    if near_knee {
        obs.err("knee_step", drop);
        ensure!(drop < 1e-6, "{} dir {}: step {:e} >= 1e-6 at the knee ({:e})", CNAMES[c.curve], c.dir, drop, x);
    } else {
        obs.err("rounding_drop_ulps", drop / ulp32(yp) as f64);
        ensure!(drop <= 2.0 * ulp32(yp) as f64, "{} dir {}: not monotone: f({:e})={:e} > f({:e})={:e}", CNAMES[c.curve], c.dir, xp, yp, x, y);
    }
    Ok(())
}

// ---------- SIMD component types: every lane follows the same curve ----------
#[derive(Debug, Clone, Serialize, Deserialize)]
struct LaneCase {
    curve: usize,
    x: [f64; 8],
}

fn lane_point(c: &LaneCase, obs: &mut Obs) -> PropResult {
    use wide::{f32x4, f32x8, f64x2, f64x4};
    let k = c.curve;
    let x = c.x;
    // lanes on both sides of a knee?
    if let Some(kn) = knees(k, 0) {
        let below = x.iter().filter(|v| **v < kn).count();
        obs.nontrivial_if(below > 0 && below < 8);
        obs.class(if below > 0 && below < 8 { "lanes-straddle-knee" } else { "lanes-same-side" });
    } else {
        obs.nontrivial();
    }
    let check = |got: &[f64], inp: &[f64], dir: u8, tol: f64, what: &str| -> PropResult {
        for (g, xi) in got.iter().zip(inp) {
            let br = if dir == 0 { enc_branches(k, *xi) } else { dec_branches(k, *xi) };
            let band = if tol > 1e-9 { 4.0 * ulp32((*xi as f32).max(1e-3)) as f64 } else { 4.0 * ulp64(xi.max(1e-3)) };
            if accept(*g, br, *xi, band, tol).is_none() {
                return Err(Fail::new(format!("{} {} lane input {:e}: got {:e}, the standard's curve gives {:e} (lanes {:?})", CNAMES[k], what, xi, g, br.0, inp)));
            }
        }
        Ok(())
    };
    by_curve!(k, C => {
        let v = f64x4::from([x[0], x[1], x[2], x[3]]);
        let e = <C as FromLinear<f64x4, f64x4>>::from_linear(v).to_array();
        check(&e, &x[..4], 0, 1e-9, "from_linear f64x4")?;
        let d = <C as IntoLinear<f64x4, f64x4>>::into_linear(v).to_array();
        check(&d, &x[..4], 1, 1e-9, "into_linear f64x4")?;
        let v = f64x2::from([x[4], x[5]]);
        let e = <C as FromLinear<f64x2, f64x2>>::from_linear(v).to_array();
        check(&e, &x[4..6], 0, 1e-9, "from_linear f64x2")?;
        let d = <C as IntoLinear<f64x2, f64x2>>::into_linear(v).to_array();
        check(&d, &x[4..6], 1, 1e-9, "into_linear f64x2")?;
        let xf: Vec<f32> = x.iter().map(|v| *v as f32).collect();
        let xfd: Vec<f64> = xf.iter().map(|v| *v as f64).collect();
        let v = f32x8::from([xf[0], xf[1], xf[2], xf[3], xf[4], xf[5], xf[6], xf[7]]);
        let e: Vec<f64> = <C as FromLinear<f32x8, f32x8>>::from_linear(v).to_array().iter().map(|v| *v as f64).collect();
        check(&e, &xfd, 0, 3e-6, "from_linear f32x8")?;
        let d: Vec<f64> = <C as IntoLinear<f32x8, f32x8>>::into_linear(v).to_array().iter().map(|v| *v as f64).collect();
        check(&d, &xfd, 1, 3e-6, "into_linear f32x8")?;
        let v = f32x4::from([xf[4], xf[5], xf[6], xf[7]]);
        let e: Vec<f64> = <C as FromLinear<f32x4, f32x4>>::from_linear(v).to_array().iter().map(|v| *v as f64).collect();
        check(&e, &xfd[4..], 0, 3e-6, "from_linear f32x4")?;
        let d: Vec<f64> = <C as IntoLinear<f32x4, f32x4>>::into_linear(v).to_array().iter().map(|v| *v as f64).collect();
        check(&d, &xfd[4..], 1, 3e-6, "into_linear f32x4")?;
    });
    Ok(())
}

// ---------- colour level ----------
#[derive(Debug, Clone, Serialize, Deserialize)]
struct RgbCase {
    c: [f64; 4],
}

fn rgb_point(case: &RgbCase, obs: &mut Obs) -> PropResult {
    use palette::encoding;
    use palette::rgb::Rgb;
    use palette::{LinSrgb, LinSrgba, SrgbLuma};
    obs.nontrivial();
    let [r, g, b, a] = case.c;
    let (rf, gf, bf, af) = (r as f32, g as f32, b as f32, a as f32);
    // float -> float, both directions, per component
    let lin = LinSrgb::<f64>::new(r, g, b);
    let enc: palette::Srgb<f64> = palette::Srgb::from_linear(lin);
    let want = [enc_call::<Srgb>(r), enc_call::<Srgb>(g), enc_call::<Srgb>(b)];
    ensure!([enc.red, enc.green, enc.blue] == want, "Srgb::from_linear differs from the per-component transfer function");
    let back: LinSrgb<f64> = enc.into_linear();
    ensure!(back.red == <Srgb as IntoLinear<f64, f64>>::into_linear(enc.red), "Srgb::into_linear differs per component");
    // float -> u8 through the LUT
    let linf = LinSrgb::<f32>::new(rf, gf, bf);
    let e8: palette::Srgb<u8> = linf.into_encoding();
    ensure!(
        [e8.red as u32, e8.green as u32, e8.blue as u32] == [encode_f32(0, rf), encode_f32(0, gf), encode_f32(0, bf)],
        "LinSrgb<f32>::into_encoding::<u8> differs from the per-component encoder"
    );
    let e8b = palette::Srgb::<u8>::from_linear(linf);
    ensure!(e8b == e8, "from_linear != into_encoding");
    let l8: LinSrgb<f32> = e8.into_linear();
    ensure!(l8.red == decode_f32(0, e8.red as u32) && l8.blue == decode_f32(0, e8.blue as u32), "Srgb<u8>::into_linear differs from table");
    let l8d = LinSrgb::<f64>::from_encoding(e8);
    ensure!(l8d.green == decode_f64(0, e8.green as u32), "from_encoding f64 differs from table");
    // other standards
    let la = Rgb::<encoding::Linear<encoding::AdobeRgb>, f32>::new(rf, gf, bf);
    let ea: Rgb<encoding::AdobeRgb, u8> = la.into_encoding();
    ensure!([ea.red as u32, ea.green as u32, ea.blue as u32] == [encode_f32(2, rf), encode_f32(2, gf), encode_f32(2, bf)], "AdobeRgb into_encoding differs");
    let lr = Rgb::<encoding::Linear<encoding::Rec2020>, f32>::new(rf, gf, bf);
    let er: Rgb<encoding::Rec2020, u8> = lr.into_encoding();
    ensure!([er.red as u32, er.green as u32, er.blue as u32] == [encode_f32(1, rf), encode_f32(1, gf), encode_f32(1, bf)], "Rec2020 into_encoding differs");
    let er7: Rgb<encoding::Rec709, u8> = linf.into_encoding();
    ensure!(er7.red as u32 == encode_f32(1, rf), "Rec709 into_encoding differs");
    let ed: Rgb<encoding::DciP3, u8> = Rgb::<encoding::Linear<encoding::DciP3>, f32>::new(rf, gf, bf).into_encoding();
    ensure!([ed.red as u32, ed.green as u32, ed.blue as u32] == [encode_f32(3, rf), encode_f32(3, gf), encode_f32(3, bf)], "DciP3 into_encoding differs");
    let edp: Rgb<encoding::DisplayP3, u8> = Rgb::<encoding::Linear<encoding::DisplayP3>, f32>::new(rf, gf, bf).into_encoding();
    ensure!(edp.green as u32 == encode_f32(0, gf), "DisplayP3 uses the sRGB curve");
    let ep: Rgb<encoding::ProPhotoRgb, u16> = Rgb::<encoding::Linear<encoding::ProPhotoRgb>, f32>::new(rf, gf, bf).into_encoding();
    ensure!([ep.red as u32, ep.green as u32, ep.blue as u32] == [encode_f32(4, rf), encode_f32(4, gf), encode_f32(4, bf)], "ProPhoto into_encoding differs");
    let epd: Rgb<encoding::ProPhotoRgb, u16> = Rgb::<encoding::Linear<encoding::ProPhotoRgb>, f64>::new(r, g, b).into_encoding();
    ensure!(epd.red as u32 == encode_f64(4, r), "ProPhoto f64 into_encoding differs");
    // alpha: colour through the curve, alpha through the plain format conversion
    let la = LinSrgba::<f32>::new(rf, gf, bf, af);
    let ea: palette::Srgba<u8> = la.into_encoding();
    let a8: u8 = palette::stimulus::IntoStimulus::into_stimulus(af);
    ensure!(ea.color == e8 && ea.alpha == a8, "LinSrgba::into_encoding: colour {:?} vs {:?}, alpha {} vs {}", ea.color, e8, ea.alpha, a8);
    let back: LinSrgba<f32> = ea.into_linear();
    let aback: f32 = palette::stimulus::IntoStimulus::into_stimulus(a8);
    ensure!(back.color == l8 && back.alpha == aback, "Srgba<u8>::into_linear alpha/colour differs");
    // luma
    let ll = palette::LinLuma::<palette::white_point::D65, f32>::new(rf);
    let el: SrgbLuma<u8> = ll.into_encoding();
    ensure!(el.luma as u32 == encode_f32(0, rf), "Luma into_encoding differs from the encoder");
    let llb: palette::LinLuma<palette::white_point::D65, f32> = el.into_linear();
    ensure!(llb.luma == decode_f32(0, el.luma as u32), "Luma into_linear differs from table");
    let elf: SrgbLuma<f64> = palette::LinLuma::<palette::white_point::D65, f64>::new(r).into_encoding();
    ensure!(elf.luma == enc_call::<Srgb>(r), "Luma<f64> into_encoding differs from the float curve");
    // every standard, as an RGB standard and as a luma standard, is wired to its own curve (by name, not through the
    // standard's associated TransferFn type) in both directions, float and integer
    macro_rules! wiring {
        ($S:ty, $Wp:ty, $Tf:ty, $k:expr, $name:expr) => {{
            use palette::luma::Luma;
            let _ = $k;
            let want = enc_call::<$Tf>(g);
            let rgb: Rgb<$S, f64> = Rgb::<encoding::Linear<<$S as palette::rgb::RgbStandard>::Space>, f64>::new(r, g, b).into_encoding();
            ensure!(rgb.green == want, "Rgb<{}>::into_encoding({}) = {}, the {} curve gives {}", $name, g, rgb.green, stringify!($Tf), want);
            let lin: Rgb<encoding::Linear<<$S as palette::rgb::RgbStandard>::Space>, f64> = rgb.into_linear();
            ensure!(lin.green == <$Tf as IntoLinear<f64, f64>>::into_linear(rgb.green), "Rgb<{}>::into_linear differs from the {} curve", $name, stringify!($Tf));
            let luma: Luma<$S, f64> = Luma::<encoding::Linear<$Wp>, f64>::new(g).into_encoding();
            ensure!(luma.luma == want, "Luma<{}>::into_encoding({}) = {}, the {} curve gives {}", $name, g, luma.luma, stringify!($Tf), want);
            let ll: Luma<encoding::Linear<$Wp>, f64> = luma.into_linear();
            ensure!(ll.luma == <$Tf as IntoLinear<f64, f64>>::into_linear(luma.luma), "Luma<{}>::into_linear differs from the {} curve", $name, stringify!($Tf));
            let lf: Luma<$S, f32> = Luma::<encoding::Linear<$Wp>, f32>::new(gf).into_encoding();
            ensure!(lf.luma == <$Tf as FromLinear<f32, f32>>::from_linear(gf), "Luma<{}, f32>::into_encoding differs from the {} curve", $name, stringify!($Tf));
        }};
    }
    macro_rules! wiring_int {
        ($S:ty, $Wp:ty, $Tf:ty, $U:ty, $k:expr, $name:expr) => {{
            use palette::luma::Luma;
                let l8: Luma<$S, $U> = Luma::<encoding::Linear<$Wp>, f32>::new(gf).into_encoding();
                ensure!(l8.luma as u32 == encode_f32($k, gf), "Luma<{}, {}>::into_encoding({}) = {}, the {} encoder gives {}", $name, stringify!($U), gf, l8.luma, stringify!($Tf), encode_f32($k, gf));
                let back: Luma<encoding::Linear<$Wp>, f32> = l8.into_linear();
                ensure!(back.luma == decode_f32($k, l8.luma as u32), "Luma<{}, {}>::into_linear differs from the {} table", $name, stringify!($U), stringify!($Tf));
                let r8: Rgb<$S, $U> = Rgb::<encoding::Linear<<$S as palette::rgb::RgbStandard>::Space>, f32>::new(rf, gf, bf).into_encoding();
                ensure!(r8.green as u32 == encode_f32($k, gf), "Rgb<{}, {}>::into_encoding differs from the {} encoder", $name, stringify!($U), stringify!($Tf));
        }};
    }
    use palette::white_point::{D50, D65};
    wiring!(encoding::Srgb, D65, Srgb, 0, "Srgb");
    wiring!(encoding::Rec709, D65, RecOetf, 1, "Rec709");
    wiring!(encoding::Rec2020, D65, RecOetf, 1, "Rec2020");
    wiring!(encoding::AdobeRgb, D65, AdobeRgb, 2, "AdobeRgb");
    wiring!(encoding::DisplayP3, D65, Srgb, 0, "DisplayP3");
    wiring!(encoding::DciP3, encoding::DciP3, P3Gamma, 3, "DciP3");
    wiring!(encoding::DciP3Plus<P3Gamma>, encoding::DciP3, P3Gamma, 3, "DciP3Plus<P3Gamma>");
    wiring!(encoding::ProPhotoRgb, D50, ProPhotoRgb, 4, "ProPhotoRgb");
    wiring_int!(encoding::Srgb, D65, Srgb, u8, 0, "Srgb");
    wiring_int!(encoding::Rec709, D65, RecOetf, u8, 1, "Rec709");
    wiring_int!(encoding::Rec2020, D65, RecOetf, u8, 1, "Rec2020");
    wiring_int!(encoding::AdobeRgb, D65, AdobeRgb, u8, 2, "AdobeRgb");
    wiring_int!(encoding::DisplayP3, D65, Srgb, u8, 0, "DisplayP3");
    wiring_int!(encoding::DciP3, encoding::DciP3, P3Gamma, u8, 3, "DciP3");
    wiring_int!(encoding::DciP3Plus<P3Gamma>, encoding::DciP3, P3Gamma, u8, 3, "DciP3Plus<P3Gamma>");
    wiring_int!(encoding::ProPhotoRgb, D50, ProPhotoRgb, u16, 4, "ProPhotoRgb");
    Ok(())
}
fn enc_call<C: FromLinear<f64, f64>>(x: f64) -> f64 {
    C::from_linear(x)
}

fn unit_with_knees() -> BoxedStrategy<f64> {
    let knees = [0.0031308, 0.04045, REC_BETA, 4.5 * REC_BETA, 1.0 / 512.0, 16.0 / 512.0];
    prop_oneof![
        4 => pv::gen::unit(),
        3 => (0usize..6, -6i64..=6).prop_map(move |(i, n)| next_up64(knees[i], n)),
        3 => (0usize..6, -6i32..=6).prop_map(move |(i, n)| next_up32(knees[i] as f32, n) as f64),
        2 => (0usize..6, -1e-6..=1e-6f64).prop_map(move |(i, d)| knees[i] + d),
        6 => 0.0..=1.0f64,
        2 => (-12.0..=0.0f64).prop_map(|e| 10f64.powf(e)),
    ]
    .boxed()
}

fn main() {
    let mut h = Harness::new("C05");
    h.rule("integer encoders: every f32 bit pattern per encoder (value oracle against the standard's curve in f64: saturation, |code - curve*MAX| < 0.6; monotone against the previous pattern; index assertion enabled by cfg(palette_verif)); f64 inputs generated around f32 boundaries and codes; every 8/16-bit code through the decoders (curve agreement, strictly increasing, decode-then-encode identity); float curves on generated/knee-straddling inputs (standard's curve, mutual inverse) and ordered f32 sweeps for monotonicity. Non-trivial = input strictly inside (0,1); sweeps distinct by construction.");
    h.assume("reference curves written from IEC 61966-2-1, BT.709/2020, Adobe RGB (1998), SMPTE 431-2 (2.6), ROMM in f64");
    let thorough = h.is_thorough();

    // ---- exhaustive f32 through the five LUT encoders ----
    let nchunks = 4096usize;
    let span = (1u64 << 32) / nchunks as u64;
    for e in 0..5usize {
        let name: &'static str = ["lut_srgb_u8_all_f32", "lut_rec_oetf_u8_all_f32", "lut_adobe_u8_all_f32", "lut_p3gamma_u8_all_f32", "lut_prophoto_u16_all_f32"][e];
        h.sweep::<EncCase, _, _>(name, true, nchunks, enc_point, |i, obs| {
            let lo = (i as u64 * span) as u32;
            let hi = (i as u64 * span + span - 1) as u32;
            enc_sweep_range(e, lo, hi, obs);
        });
    }
    // ---- f64 inputs ----
    let n = h.n(2_000_000, 60_000_000);
    h.prop(
        "lut_encoders_f64_generated",
        n,
        || {
            let x = prop_oneof![
                4 => unit_with_knees(),
                // +-1 f64 ulp around f32 values (the f64 path rounds to f32 first)
                4 => (any::<u32>(), -2i64..=2).prop_map(|(b, n)| next_up64(f32::from_bits(b % 0x3f80_0001) as f64, n)),
                // half-way points between adjacent f32 values
                2 => any::<u32>().prop_map(|b| { let a = f32::from_bits(b % 0x3f80_0000); (a as f64 + next_up32(a, 1) as f64) / 2.0 }),
                1 => -2.0..=3.0f64,
                1 => prop_oneof![Just(f64::NAN), Just(f64::INFINITY), Just(f64::NEG_INFINITY), Just(-0.0), Just(0.0), Just(1.0), Just(f64::MAX), Just(f64::MIN), Just(1e-320), Just(-1e-320), Just(1.0 - 1e-16), Just(1.0 + 1e-16)],
                1 => any::<u64>().prop_map(f64::from_bits),
            ];
            (0usize..5, x, prop_oneof![Just(1i64), Just(-1), -100i64..=100, any::<i32>().prop_map(|v| v as i64 * 1024)]).prop_map(|(enc, x, step)| Enc64Case { enc, x, step })
        },
        enc64_point,
    );
    // ---- every code through the decoders ----
    h.sweep::<CodeCase, _, _>("decoders_all_codes", true, 5, code_point, |e, obs| {
        for code in 0..=emax(e) {
            let c = CodeCase { enc: e, code };
            if let Err(f) = code_point(&c, obs) {
                obs.report(&c, f);
            }
            obs.evals += 1;
            if code != 0 && code != emax(e) {
                obs.sweep_nontrivial += 1;
            }
        }
    });
    // ---- float curves ----
    let n = h.n(2_000_000, 60_000_000);
    h.prop("float_curves_generated", n, || (0usize..NCURVES, unit_with_knees()).prop_map(|(curve, x)| CurveCase { curve, x }), curve_point);
    // ordered f32 sweeps over (0,1]: every pattern (thorough) or every 16th block of 4096 (quick) + dense around knees
    let top = 1.0f32.to_bits();
    for k in 0..NCURVES {
        let name: &'static str = ["mono_f32_srgb", "mono_f32_rec_oetf", "mono_f32_adobe", "mono_f32_p3gamma", "mono_f32_prophoto", "mono_f32_linear"][k];
        h.sweep::<MonoCase, _, _>(name, thorough, 1024, mono_point, |i, obs| {
            let per = (top as u64) / 1024 + 1;
            let lo = (i as u64 * per).max(1);
            let hi = ((i as u64 + 1) * per).min(top as u64 + 1);
            for dir in 0..2u8 {
                let mut b = lo;
                while b < hi {
                    let in_block = thorough || (b >> 12) % 16 == 0 || {
                        match knees(k, dir) {
                            Some(kn) => ((b as i64) - (kn as f32).to_bits() as i64).abs() < (1 << 20),
                            None => false,
                        }
                    };
                    if !in_block {
                        b = ((b >> 12) + 1) << 12;
                        continue;
                    }
                    let c = MonoCase { curve: k, dir, bits: b as u32 };
                    if let Err(f) = mono_point(&c, obs) {
                        obs.report(&c, f);
                    }
                    obs.evals += 1;
                    obs.sweep_nontrivial += 1;
                    b += 1;
                }
            }
        });
    }
    // ---- SIMD component types ----
    let n = h.n(300_000, 10_000_000);
    h.prop(
        "float_curves_simd_lanes",
        n,
        || (0usize..NCURVES, proptest::array::uniform8(unit_with_knees())).prop_map(|(curve, x)| LaneCase { curve, x }),
        lane_point,
    );
    // ---- colour level ----
    let n = h.n(300_000, 5_000_000);
    h.prop(
        "rgb_luma_methods_are_per_component",
        n,
        || proptest::array::uniform4(prop_oneof![6 => unit_with_knees(), 1 => -0.5..=1.5f64, 1 => prop_oneof![Just(f64::NAN), Just(f64::INFINITY), Just(-1.0), Just(2.0)]]).prop_map(|c| RgbCase { c }),
        |c, obs| {
            // NaN components compare unequal under ==; use only finite ones for the equality clauses
            if c.c.iter().any(|v| !v.is_finite()) {
                // totality only
                let [r, g, b, _] = c.c;
                let l = palette::LinSrgb::<f32>::new(r as f32, g as f32, b as f32);
                let _e: palette::Srgb<u8> = l.into_encoding();
                let _p: palette::rgb::Rgb<palette::encoding::ProPhotoRgb, u16> =
                    palette::rgb::Rgb::<palette::encoding::Linear<palette::encoding::ProPhotoRgb>, f32>::new(r as f32, g as f32, b as f32).into_encoding();
                obs.class("non-finite-component");
                return Ok(());
            }
            rgb_point(c, obs)
        },
    );
    h.finish();
}
