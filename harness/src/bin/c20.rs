//! C20 — serialized colours deserialize to the same colour in a stable shape.
use palette::blend::PreAlpha;
use palette::cam16::{Cam16UcsJab, Cam16UcsJmh};
use palette::cast::Packed;
use palette::encoding::Srgb as ESrgb;
use palette::rgb::channels::{Argb, Rgba as RgbaOrder};
use palette::white_point::D65;
use palette::{Alpha, Hsl, Hsluv, Hsv, Hwb, Lab, Lch, Lchuv, LinSrgb, Luv, Okhsl, Okhsv, Okhwb, Oklab, Oklch, RgbHue, Srgb, SrgbLuma, Xyz, Yxy};
use proptest::prelude::*;
use pv::ensure;
use pv::runner::{no_panic, Fail, Harness, Obs, PropResult};
use serde::de::DeserializeOwned;
use serde::{Deserialize, Serialize};

// ==========================================================================================
// a compact, non-self-describing format: structs are bare sequences of tagged scalars
mod compact {
    use serde::de::{self, DeserializeSeed, SeqAccess, Visitor};
    use serde::ser::{self, Serialize};
    use std::fmt;

    #[derive(Debug, Clone, PartialEq)]
    pub enum Tok {
        F32(u32),
        F64(u64),
        U8(u8),
        U16(u16),
        U32(u32),
        U64(u64),
        /// struct / tuple / tuple struct header with its declared length
        Len(usize),
        /// sequence header (length known up front)
        Seq(usize),
        None,
        Some,
    }

    #[derive(Debug)]
    pub struct Error(pub String);
    impl fmt::Display for Error {
        fn fmt(&self, f: &mut fmt::Formatter) -> fmt::Result {
            write!(f, "{}", self.0)
        }
    }
    impl std::error::Error for Error {}
    impl ser::Error for Error {
        fn custom<T: fmt::Display>(msg: T) -> Self {
            Error(msg.to_string())
        }
    }
    impl de::Error for Error {
        fn custom<T: fmt::Display>(msg: T) -> Self {
            Error(msg.to_string())
        }
    }

    pub fn to_tokens<T: Serialize>(v: &T) -> Result<Vec<Tok>, Error> {
        let mut s = Ser { out: Vec::new() };
        v.serialize(&mut s)?;
        Ok(s.out)
    }
    pub fn from_tokens<T: de::DeserializeOwned>(toks: &[Tok]) -> Result<T, Error> {
        from_tokens_mode(toks, false)
    }
    /// `bounded`: a struct yields exactly `fields.len()` elements, whatever the data says (how
    /// bincode and postcard read structs); otherwise the length prefix in the data decides (how
    /// MessagePack / CBOR arrays are read)
    pub fn from_tokens_mode<T: de::DeserializeOwned>(toks: &[Tok], bounded: bool) -> Result<T, Error> {
        let mut d = De { toks, pos: 0, bounded };
        let v = T::deserialize(&mut d)?;
        if d.pos != toks.len() {
            return Err(Error(format!("{} trailing tokens", toks.len() - d.pos)));
        }
        Ok(v)
    }

    pub struct Ser {
        pub out: Vec<Tok>,
    }
    pub struct Compound<'a> {
        ser: &'a mut Ser,
        header: usize,
        declared: usize,
        written: usize,
    }
    macro_rules! unsupported {
        ($($m:ident($($t:ty),*)),*) => { $(fn $m(self $(, _: $t)*) -> Result<Self::Ok, Error> { Err(Error(concat!("compact: unsupported ", stringify!($m)).into())) })* };
    }
    impl<'a> ser::Serializer for &'a mut Ser {
        type Ok = ();
        type Error = Error;
        type SerializeSeq = Compound<'a>;
        type SerializeTuple = Compound<'a>;
        type SerializeTupleStruct = Compound<'a>;
        type SerializeTupleVariant = ser::Impossible<(), Error>;
        type SerializeMap = ser::Impossible<(), Error>;
        type SerializeStruct = Compound<'a>;
        type SerializeStructVariant = ser::Impossible<(), Error>;
        fn serialize_f32(self, v: f32) -> Result<(), Error> { self.out.push(Tok::F32(v.to_bits())); Ok(()) }
        fn serialize_f64(self, v: f64) -> Result<(), Error> { self.out.push(Tok::F64(v.to_bits())); Ok(()) }
        fn serialize_u8(self, v: u8) -> Result<(), Error> { self.out.push(Tok::U8(v)); Ok(()) }
        fn serialize_u16(self, v: u16) -> Result<(), Error> { self.out.push(Tok::U16(v)); Ok(()) }
        fn serialize_u32(self, v: u32) -> Result<(), Error> { self.out.push(Tok::U32(v)); Ok(()) }
        fn serialize_u64(self, v: u64) -> Result<(), Error> { self.out.push(Tok::U64(v)); Ok(()) }
        unsupported!(serialize_bool(bool), serialize_i8(i8), serialize_i16(i16), serialize_i32(i32), serialize_i64(i64), serialize_char(char), serialize_str(&str), serialize_bytes(&[u8]), serialize_unit());
        fn serialize_none(self) -> Result<(), Error> { self.out.push(Tok::None); Ok(()) }
        fn serialize_some<T: ?Sized + Serialize>(self, v: &T) -> Result<(), Error> { self.out.push(Tok::Some); v.serialize(self) }
        fn serialize_unit_struct(self, _: &'static str) -> Result<(), Error> { self.out.push(Tok::Len(0)); Ok(()) }
        fn serialize_unit_variant(self, _: &'static str, _: u32, _: &'static str) -> Result<(), Error> { Err(Error("compact: enums unsupported".into())) }
        fn serialize_newtype_struct<T: ?Sized + Serialize>(self, _: &'static str, v: &T) -> Result<(), Error> { v.serialize(self) }
        fn serialize_newtype_variant<T: ?Sized + Serialize>(self, _: &'static str, _: u32, _: &'static str, _: &T) -> Result<(), Error> { Err(Error("compact: enums unsupported".into())) }
        fn serialize_seq(self, len: Option<usize>) -> Result<Compound<'a>, Error> {
            let n = len.ok_or_else(|| Error("compact: sequences need a length".into()))?;
            self.out.push(Tok::Seq(n));
            let header = self.out.len() - 1;
            Ok(Compound { ser: self, header, declared: n, written: 0 })
        }
        fn serialize_tuple(self, len: usize) -> Result<Compound<'a>, Error> {
            self.out.push(Tok::Len(len));
            let header = self.out.len() - 1;
            Ok(Compound { ser: self, header, declared: len, written: 0 })
        }
        fn serialize_tuple_struct(self, _: &'static str, len: usize) -> Result<Compound<'a>, Error> { self.serialize_tuple(len) }
        fn serialize_tuple_variant(self, _: &'static str, _: u32, _: &'static str, _: usize) -> Result<Self::SerializeTupleVariant, Error> { Err(Error("compact: enums unsupported".into())) }
        fn serialize_map(self, _: Option<usize>) -> Result<Self::SerializeMap, Error> { Err(Error("compact: maps unsupported".into())) }
        fn serialize_struct(self, _: &'static str, len: usize) -> Result<Compound<'a>, Error> { self.serialize_tuple(len) }
        fn serialize_struct_variant(self, _: &'static str, _: u32, _: &'static str, _: usize) -> Result<Self::SerializeStructVariant, Error> { Err(Error("compact: enums unsupported".into())) }
    }
    impl<'a> Compound<'a> {
        fn elem<T: ?Sized + Serialize>(&mut self, v: &T) -> Result<(), Error> {
            self.written += 1;
            v.serialize(&mut *self.ser)
        }
        fn finish(self) -> Result<(), Error> {
            // a declared length that does not match what was written corrupts any length-prefixed format
            if self.written != self.declared {
                return Err(Error(format!("declared length {} but {} elements were written (header at token {})", self.declared, self.written, self.header)));
            }
            Ok(())
        }
    }
    impl<'a> ser::SerializeSeq for Compound<'a> {
        type Ok = ();
        type Error = Error;
        fn serialize_element<T: ?Sized + Serialize>(&mut self, v: &T) -> Result<(), Error> { self.elem(v) }
        fn end(self) -> Result<(), Error> { self.finish() }
    }
    impl<'a> ser::SerializeTuple for Compound<'a> {
        type Ok = ();
        type Error = Error;
        fn serialize_element<T: ?Sized + Serialize>(&mut self, v: &T) -> Result<(), Error> { self.elem(v) }
        fn end(self) -> Result<(), Error> { self.finish() }
    }
    impl<'a> ser::SerializeTupleStruct for Compound<'a> {
        type Ok = ();
        type Error = Error;
        fn serialize_field<T: ?Sized + Serialize>(&mut self, v: &T) -> Result<(), Error> { self.elem(v) }
        fn end(self) -> Result<(), Error> { self.finish() }
    }
    impl<'a> ser::SerializeStruct for Compound<'a> {
        type Ok = ();
        type Error = Error;
        fn serialize_field<T: ?Sized + Serialize>(&mut self, _: &'static str, v: &T) -> Result<(), Error> { self.elem(v) }
        fn skip_field(&mut self, _: &'static str) -> Result<(), Error> { Ok(()) }
        fn end(self) -> Result<(), Error> { self.finish() }
    }

    pub struct De<'t> {
        toks: &'t [Tok],
        pos: usize,
        bounded: bool,
    }
    impl<'t> De<'t> {
        fn next(&mut self) -> Result<Tok, Error> {
            let t = self.toks.get(self.pos).cloned().ok_or_else(|| Error("unexpected end of tokens".into()))?;
            self.pos += 1;
            Ok(t)
        }
    }
    struct Access<'a, 't> {
        de: &'a mut De<'t>,
        left: usize,
    }
    impl<'de, 'a, 't> SeqAccess<'de> for Access<'a, 't> {
        type Error = Error;
        fn next_element_seed<T: DeserializeSeed<'de>>(&mut self, seed: T) -> Result<Option<T::Value>, Error> {
            if self.left == 0 {
                return Ok(None);
            }
            self.left -= 1;
            seed.deserialize(&mut *self.de).map(Some)
        }
        fn size_hint(&self) -> Option<usize> {
            Some(self.left)
        }
    }
    macro_rules! scalar {
        ($m:ident, $tok:ident, $visit:ident, $conv:expr) => {
            fn $m<V: Visitor<'de>>(self, v: V) -> Result<V::Value, Error> {
                match self.next()? {
                    Tok::$tok(x) => v.$visit($conv(x)),
                    t => Err(Error(format!(concat!("expected ", stringify!($tok), ", found {:?}"), t))),
                }
            }
        };
    }
    impl<'de, 'a, 't> de::Deserializer<'de> for &'a mut De<'t> {
        type Error = Error;
        fn deserialize_any<V: Visitor<'de>>(self, _: V) -> Result<V::Value, Error> { Err(Error("compact format is not self-describing (deserialize_any)".into())) }
        scalar!(deserialize_f32, F32, visit_f32, f32::from_bits);
        scalar!(deserialize_f64, F64, visit_f64, f64::from_bits);
        scalar!(deserialize_u8, U8, visit_u8, |x| x);
        scalar!(deserialize_u16, U16, visit_u16, |x| x);
        scalar!(deserialize_u32, U32, visit_u32, |x| x);
        scalar!(deserialize_u64, U64, visit_u64, |x| x);
        fn deserialize_option<V: Visitor<'de>>(self, v: V) -> Result<V::Value, Error> {
            match self.next()? {
                Tok::None => v.visit_none(),
                Tok::Some => v.visit_some(self),
                t => Err(Error(format!("expected option, found {:?}", t))),
            }
        }
        fn deserialize_newtype_struct<V: Visitor<'de>>(self, _: &'static str, v: V) -> Result<V::Value, Error> { v.visit_newtype_struct(self) }
        fn deserialize_seq<V: Visitor<'de>>(self, v: V) -> Result<V::Value, Error> {
            match self.next()? {
                Tok::Seq(n) => { let r = v.visit_seq(Access { de: self, left: n }); r }
                t => Err(Error(format!("expected sequence, found {:?}", t))),
            }
        }
        fn deserialize_tuple<V: Visitor<'de>>(self, len: usize, v: V) -> Result<V::Value, Error> {
            match self.next()? {
                Tok::Len(n) => {
                    if n != len {
                        return Err(Error(format!("length prefix {} but the type expects {} elements", n, len)));
                    }
                    v.visit_seq(Access { de: self, left: n })
                }
                t => Err(Error(format!("expected tuple/struct header, found {:?}", t))),
            }
        }
        fn deserialize_tuple_struct<V: Visitor<'de>>(self, _: &'static str, len: usize, v: V) -> Result<V::Value, Error> { self.deserialize_tuple(len, v) }
        fn deserialize_struct<V: Visitor<'de>>(self, _: &'static str, fields: &'static [&'static str], v: V) -> Result<V::Value, Error> {
            match self.next()? {
                Tok::Len(n) => {
                    let left = if self.bounded { fields.len() } else { n };
                    v.visit_seq(Access { de: self, left })
                }
                t => Err(Error(format!("expected struct header, found {:?}", t))),
            }
        }
        fn deserialize_unit_struct<V: Visitor<'de>>(self, _: &'static str, v: V) -> Result<V::Value, Error> {
            match self.next()? {
                Tok::Len(0) => v.visit_unit(),
                t => Err(Error(format!("expected unit struct, found {:?}", t))),
            }
        }
        fn deserialize_ignored_any<V: Visitor<'de>>(self, _: V) -> Result<V::Value, Error> { Err(Error("compact: cannot skip values".into())) }
        serde::forward_to_deserialize_any! { bool i8 i16 i32 i64 i128 u128 char str string bytes byte_buf unit map enum identifier }
    }
}
use compact::Tok;

// ==========================================================================================
trait SerCase: Serialize + DeserializeOwned + Copy + std::fmt::Debug + 'static {
    type T: Copy + Serialize + DeserializeOwned + std::fmt::Debug + 'static;
    const NAME: &'static str;
    const FIELDS: &'static [&'static str];
    fn make(v: &[f64]) -> Self;
    fn bits(&self) -> Vec<u64>;
    fn alpha(v: f64) -> Self::T;
    fn alpha_bits(a: Self::T) -> u64;
    fn max_alpha() -> Self::T;
    const IS_F32: bool;
}

macro_rules! ser_ty {
    ($name:expr, $C:ty, f32, [$($f:expr),*], |$v:ident| $mk:expr, |$c:ident| [$($b:expr),*]) => {
        impl SerCase for $C {
            type T = f32;
            const NAME: &'static str = concat!($name, "<f32>");
            const FIELDS: &'static [&'static str] = &[$($f),*];
            fn make($v: &[f64]) -> Self { $mk }
            fn bits(&self) -> Vec<u64> { let $c = self; vec![$(($b as f32).to_bits() as u64),*] }
            fn alpha(v: f64) -> f32 { v as f32 }
            fn alpha_bits(a: f32) -> u64 { a.to_bits() as u64 }
            fn max_alpha() -> f32 { 1.0 }
            const IS_F32: bool = true;
        }
    };
    ($name:expr, $C:ty, f64, [$($f:expr),*], |$v:ident| $mk:expr, |$c:ident| [$($b:expr),*]) => {
        impl SerCase for $C {
            type T = f64;
            const NAME: &'static str = concat!($name, "<f64>");
            const FIELDS: &'static [&'static str] = &[$($f),*];
            fn make($v: &[f64]) -> Self { $mk }
            fn bits(&self) -> Vec<u64> { let $c = self; vec![$(($b as f64).to_bits()),*] }
            fn alpha(v: f64) -> f64 { v }
            fn alpha_bits(a: f64) -> u64 { a.to_bits() }
            fn max_alpha() -> f64 { 1.0 }
            const IS_F32: bool = false;
        }
    };
}
macro_rules! ser_both {
    ($name:expr, $C:ident [$($p:ty),*], [$($f:expr),*], |$v:ident| $mk:expr, |$c:ident| [$($b:expr),*]) => {
        ser_ty!($name, $C<$($p,)* f32>, f32, [$($f),*], |$v| { type F = f32; $mk }, |$c| [$($b),*]);
        ser_ty!($name, $C<$($p,)* f64>, f64, [$($f),*], |$v| { type F = f64; $mk }, |$c| [$($b),*]);
    };
}
ser_both!("Srgb", Srgb[], ["red", "green", "blue"], |v| Srgb::new(v[0] as F, v[1] as F, v[2] as F), |c| [c.red, c.green, c.blue]);
ser_both!("LinSrgb", LinSrgb[], ["red", "green", "blue"], |v| LinSrgb::new(v[0] as F, v[1] as F, v[2] as F), |c| [c.red, c.green, c.blue]);
ser_both!("Xyz", Xyz[D65], ["x", "y", "z"], |v| Xyz::new(v[0] as F, v[1] as F, v[2] as F), |c| [c.x, c.y, c.z]);
ser_both!("Yxy", Yxy[D65], ["x", "y", "luma"], |v| Yxy::new(v[0] as F, v[1] as F, v[2] as F), |c| [c.x, c.y, c.luma]);
ser_both!("Lab", Lab[D65], ["l", "a", "b"], |v| Lab::new(v[0] as F, v[1] as F, v[2] as F), |c| [c.l, c.a, c.b]);
ser_both!("Luv", Luv[D65], ["l", "u", "v"], |v| Luv::new(v[0] as F, v[1] as F, v[2] as F), |c| [c.l, c.u, c.v]);
ser_both!("Lch", Lch[D65], ["l", "chroma", "hue"], |v| Lch::new(v[0] as F, v[1] as F, v[2] as F), |c| [c.l, c.chroma, c.hue.into_inner()]);
ser_both!("Lchuv", Lchuv[D65], ["l", "chroma", "hue"], |v| Lchuv::new(v[0] as F, v[1] as F, v[2] as F), |c| [c.l, c.chroma, c.hue.into_inner()]);
ser_both!("Hsluv", Hsluv[D65], ["hue", "saturation", "l"], |v| Hsluv::new(v[0] as F, v[1] as F, v[2] as F), |c| [c.hue.into_inner(), c.saturation, c.l]);
ser_both!("Hsl", Hsl[ESrgb], ["hue", "saturation", "lightness"], |v| Hsl::new(v[0] as F, v[1] as F, v[2] as F), |c| [c.hue.into_inner(), c.saturation, c.lightness]);
ser_both!("Hsv", Hsv[ESrgb], ["hue", "saturation", "value"], |v| Hsv::new(v[0] as F, v[1] as F, v[2] as F), |c| [c.hue.into_inner(), c.saturation, c.value]);
ser_both!("Hwb", Hwb[ESrgb], ["hue", "whiteness", "blackness"], |v| Hwb::new(v[0] as F, v[1] as F, v[2] as F), |c| [c.hue.into_inner(), c.whiteness, c.blackness]);
ser_both!("Oklab", Oklab[], ["l", "a", "b"], |v| Oklab::new(v[0] as F, v[1] as F, v[2] as F), |c| [c.l, c.a, c.b]);
ser_both!("Oklch", Oklch[], ["l", "chroma", "hue"], |v| Oklch::new(v[0] as F, v[1] as F, v[2] as F), |c| [c.l, c.chroma, c.hue.into_inner()]);
ser_both!("Okhsl", Okhsl[], ["hue", "saturation", "lightness"], |v| Okhsl::new(v[0] as F, v[1] as F, v[2] as F), |c| [c.hue.into_inner(), c.saturation, c.lightness]);
ser_both!("Okhsv", Okhsv[], ["hue", "saturation", "value"], |v| Okhsv::new(v[0] as F, v[1] as F, v[2] as F), |c| [c.hue.into_inner(), c.saturation, c.value]);
ser_both!("Okhwb", Okhwb[], ["hue", "whiteness", "blackness"], |v| Okhwb::new(v[0] as F, v[1] as F, v[2] as F), |c| [c.hue.into_inner(), c.whiteness, c.blackness]);
ser_both!("Luma", SrgbLuma[], ["luma"], |v| SrgbLuma::new(v[0] as F), |c| [c.luma]);
ser_both!("Cam16UcsJab", Cam16UcsJab[], ["lightness", "a", "b"], |v| Cam16UcsJab::new(v[0] as F, v[1] as F, v[2] as F), |c| [c.lightness, c.a, c.b]);
ser_both!("Cam16UcsJmh", Cam16UcsJmh[], ["lightness", "colorfulness", "hue"], |v| Cam16UcsJmh::new(v[0] as F, v[1] as F, v[2] as F), |c| [c.lightness, c.colorfulness, c.hue.into_inner()]);

#[derive(Debug, Clone, Serialize, Deserialize)]
struct Case {
    ty: usize,
    v: [f64; 3],
    alpha: f64,
}

#[derive(Serialize, Deserialize)]
struct Holder<X> {
    before: u8,
    color: X,
    after: u16,
}
#[derive(Serialize, Deserialize)]
#[serde(bound(deserialize = "X: DeserializeOwned"))]
struct Flat<X> {
    id: u32,
    #[serde(flatten)]
    color: X,
}
#[derive(Serialize, Deserialize)]
#[serde(bound(serialize = "X: palette::cast::ArrayCast, X::Array: Serialize", deserialize = "X: palette::cast::ArrayCast, X::Array: DeserializeOwned"))]
struct AsArray<X> {
    #[serde(with = "palette::serde::as_array")]
    color: X,
}
#[derive(Deserialize)]
#[serde(bound(deserialize = "X: DeserializeOwned, A: palette::stimulus::Stimulus + DeserializeOwned"))]
struct OptAlpha<X, A> {
    #[serde(deserialize_with = "palette::serde::deserialize_with_optional_alpha")]
    color: Alpha<X, A>,
}

fn json_safe(v: f64, is32: bool) -> bool {
    if is32 { (v as f32).is_finite() } else { v.is_finite() }
}

fn check<C>(c: &Case, obs: &mut Obs) -> PropResult
where
    C: SerCase + palette::cast::ArrayCast,
    C::Array: Serialize + DeserializeOwned,
    C::T: palette::stimulus::Stimulus,
    Alpha<C, C::T>: Serialize + DeserializeOwned + Copy,
{
    let name = C::NAME;
    let k = C::FIELDS.len();
    let col = C::make(&c.v);
    let want = col.bits();
    let al = C::alpha(c.alpha);
    let ab = C::alpha_bits(al);
    if !c.v.iter().take(k).all(|x| json_safe(*x, C::IS_F32)) || !json_safe(c.alpha, C::IS_F32) {
        return Ok(());
    }
    let needs_digits = c.v.iter().take(k).any(|x| format!("{}", x).len() > 10);
    obs.nontrivial_if(c.alpha != 0.0 && c.alpha != 1.0 && needs_digits);
    let big = c.v.iter().take(k).any(|x| x.abs() > 1e15 || (*x != 0.0 && x.abs() < 1e-15)) || c.alpha.abs() > 1e15;
    // ---------------- JSON ----------------
    let js = serde_json::to_string(&col).map_err(|e| Fail::new(format!("{}: to JSON failed: {}", name, e)))?;
    let back: C = serde_json::from_str(&js).map_err(|e| Fail::new(format!("{}: JSON {} does not deserialize: {}", name, js, e)))?;
    ensure!(back.bits() == want, "{}: JSON round trip {} changed the colour: {:?} -> {:?}", name, js, col, back);
    let val = serde_json::to_value(&col).unwrap();
    let obj = val.as_object().ok_or_else(|| Fail::new(format!("{}: serializes as {} (expected an object of its fields)", name, val)))?;
    let keys: Vec<&str> = obj.keys().map(|s| s.as_str()).collect();
    let mut wantk: Vec<&str> = C::FIELDS.to_vec();
    wantk.sort();
    ensure!(keys == wantk, "{}: JSON keys {:?}, expected exactly the colour's own fields {:?} (no metadata)", name, keys, wantk);
    ensure!(obj.values().all(|v| v.is_number()), "{}: every field (hue included) must serialize as a bare number: {}", name, val);
    // sequence form
    let arr = serde_json::Value::Array(C::FIELDS.iter().map(|f| obj[*f].clone()).collect());
    let back: C = serde_json::from_value(arr.clone()).map_err(|e| Fail::new(format!("{}: array form {} does not deserialize: {}", name, arr, e)))?;
    ensure!(back.bits() == want, "{}: array form {} gave {:?}", name, arr, back);
    // ---------------- Alpha ----------------
    let ac = Alpha { color: col, alpha: al };
    let js = serde_json::to_string(&ac).map_err(|e| Fail::new(format!("Alpha<{}>: to JSON failed: {}", name, e)))?;
    let back: Alpha<C, C::T> = serde_json::from_str(&js).map_err(|e| Fail::new(format!("Alpha<{}>: JSON {} does not deserialize: {}", name, js, e)))?;
    ensure!(back.color.bits() == want && C::alpha_bits(back.alpha) == ab, "Alpha<{}>: JSON round trip {} changed the colour", name, js);
    let aval = serde_json::to_value(&ac).unwrap();
    let aobj = aval.as_object().ok_or_else(|| Fail::new(format!("Alpha<{}>: serializes as {} (expected a flat object)", name, aval)))?;
    let keys: Vec<&str> = aobj.keys().map(|s| s.as_str()).collect();
    let mut wk: Vec<&str> = C::FIELDS.to_vec();
    wk.push("alpha");
    wk.sort();
    ensure!(keys == wk, "Alpha<{}>: JSON keys {:?}, expected the colour's fields plus `alpha` at the same level {:?}", name, keys, wk);
    ensure!(aobj.values().all(|v| v.is_number()), "Alpha<{}>: nested value in {}", name, aval);
    for f in C::FIELDS {
        ensure!(aobj[*f] == obj[*f], "Alpha<{}>: field {} serialized as {} but the bare colour gives {}", name, f, aobj[*f], obj[*f]);
    }
    // alpha first / middle in the map
    let mut fields: Vec<String> = C::FIELDS.iter().map(|f| format!("\"{}\":{}", f, obj[*f])).collect();
    fields.insert(0, format!("\"alpha\":{}", aobj["alpha"]));
    let permuted = format!("{{{}}}", fields.join(","));
    let back: Alpha<C, C::T> = serde_json::from_str(&permuted).map_err(|e| Fail::new(format!("Alpha<{}>: {} (alpha first) does not deserialize: {}", name, permuted, e)))?;
    ensure!(back.color.bits() == want && C::alpha_bits(back.alpha) == ab, "Alpha<{}>: alpha-first map {} gave {:?}", name, permuted, back);
    // sequence form: alpha last
    let mut seq: Vec<serde_json::Value> = C::FIELDS.iter().map(|f| obj[*f].clone()).collect();
    seq.push(aobj["alpha"].clone());
    let back: Alpha<C, C::T> = serde_json::from_value(serde_json::Value::Array(seq.clone())).map_err(|e| Fail::new(format!("Alpha<{}>: array form {:?} does not deserialize: {}", name, seq, e)))?;
    ensure!(back.color.bits() == want && C::alpha_bits(back.alpha) == ab, "Alpha<{}>: array form with alpha last gave {:?}", name, back);
    // malformed: too short / too long sequence, duplicate alpha -> Err, never a panic
    let short = serde_json::Value::Array(seq[..k.saturating_sub(1)].to_vec());
    let r = no_panic(|| serde_json::from_value::<Alpha<C, C::T>>(short.clone())).map_err(|p| Fail::keyed("panic", format!("Alpha<{}>: short array panicked: {}", name, p)))?;
    ensure!(r.is_err(), "Alpha<{}>: a {}-element array was accepted", name, k.saturating_sub(1));
    let mut long = seq.clone();
    long.push(serde_json::json!(0.5));
    let r = no_panic(|| serde_json::from_value::<Alpha<C, C::T>>(serde_json::Value::Array(long.clone()))).map_err(|p| Fail::keyed("panic", format!("Alpha<{}>: long array panicked: {}", name, p)))?;
    ensure!(r.is_err(), "Alpha<{}>: a {}-element array was accepted", name, k + 2);
    let dup = format!("{{{},\"alpha\":{}}}", fields.join(","), aobj["alpha"]);
    let r = no_panic(|| serde_json::from_str::<Alpha<C, C::T>>(&dup)).map_err(|p| Fail::keyed("panic", format!("Alpha<{}>: duplicate alpha panicked: {}", name, p)))?;
    ensure!(r.is_err(), "Alpha<{}>: duplicate alpha in {} was accepted", name, dup);
    // missing alpha
    let r = serde_json::from_value::<Alpha<C, C::T>>(val.clone());
    match r {
        Ok(v) => return Err(Fail::new(format!("Alpha<{}>: data without alpha {} was accepted as {:?}", name, val, v))),
        Err(e) => ensure!(e.to_string().contains("alpha"), "Alpha<{}>: error for missing alpha does not name it: {}", name, e),
    }
    let wrapped = serde_json::json!({ "color": val.clone() });
    let o: OptAlpha<C, C::T> = serde_json::from_value(wrapped).map_err(|e| Fail::new(format!("{}: deserialize_with_optional_alpha without alpha failed: {}", name, e)))?;
    ensure!(o.color.color.bits() == want && C::alpha_bits(o.color.alpha) == C::alpha_bits(C::max_alpha()), "{}: optional alpha missing must give full opacity, got {:?}", name, o.color);
    let o: OptAlpha<C, C::T> = serde_json::from_value(serde_json::json!({ "color": aval.clone() })).map_err(|e| Fail::new(format!("{}: deserialize_with_optional_alpha with alpha failed: {}", name, e)))?;
    ensure!(o.color.color.bits() == want && C::alpha_bits(o.color.alpha) == ab, "{}: optional alpha present must be honoured, got {:?}", name, o.color);
    let o: OptAlpha<C, C::T> = serde_json::from_value(serde_json::json!({ "color": serde_json::Value::Array(seq[..k].to_vec()) })).map_err(|e| Fail::keyed("C20:optional-alpha-seq", format!("{}: deserialize_with_optional_alpha from a sequence without alpha failed: {}", name, e)))?;
    ensure!(o.color.color.bits() == want && C::alpha_bits(o.color.alpha) == C::alpha_bits(C::max_alpha()), "{}: optional alpha (sequence form) must give full opacity", name);
    // ---------------- shapes ----------------
    let hjs = serde_json::to_string(&Holder { before: 7, color: ac, after: 9 }).unwrap();
    let hb: Holder<Alpha<C, C::T>> = serde_json::from_str(&hjs).map_err(|e| Fail::new(format!("Alpha<{}> inside a struct field: {} : {}", name, hjs, e)))?;
    ensure!(hb.color.color.bits() == want && C::alpha_bits(hb.color.alpha) == ab && hb.before == 7 && hb.after == 9, "Alpha<{}> in a struct field changed", name);
    let vjs = serde_json::to_string(&vec![ac, ac]).unwrap();
    let vb: Vec<Alpha<C, C::T>> = serde_json::from_str(&vjs).map_err(|e| Fail::new(format!("Vec<Alpha<{}>>: {}", name, e)))?;
    ensure!(vb.len() == 2 && vb[1].color.bits() == want && C::alpha_bits(vb[1].alpha) == ab, "Vec<Alpha<{}>> changed", name);
    let ojs = serde_json::to_string(&Some(ac)).unwrap();
    let ob: Option<Alpha<C, C::T>> = serde_json::from_str(&ojs).map_err(|e| Fail::new(format!("Option<Alpha<{}>>: {}", name, e)))?;
    ensure!(ob.map(|x| x.color.bits()) == Some(want.clone()), "Option<Alpha<{}>> changed", name);
    // flattened into a parent: bare colours round-trip; the flat shape of Alpha is checked on the way out
    let fjs = serde_json::to_value(&Flat { id: 3, color: col }).unwrap();
    let fo = fjs.as_object().unwrap();
    ensure!(fo.len() == k + 1 && C::FIELDS.iter().all(|f| fo.contains_key(*f)), "{} flattened into a parent gives {}", name, fjs);
    let fb: Flat<C> = serde_json::from_value(fjs.clone()).map_err(|e| Fail::new(format!("{} flattened: {} does not deserialize: {}", name, fjs, e)))?;
    ensure!(fb.color.bits() == want && fb.id == 3, "{} flattened changed", name);
    let fjs = serde_json::to_value(&Flat { id: 3, color: ac }).map_err(|e| Fail::new(format!("Alpha<{}> flattened does not serialize: {}", name, e)))?;
    let fo = fjs.as_object().unwrap();
    ensure!(fo.len() == k + 2 && fo.contains_key("alpha") && C::FIELDS.iter().all(|f| fo.contains_key(*f)), "Alpha<{}> flattened into a parent gives {}", name, fjs);
    match serde_json::from_value::<Flat<Alpha<C, C::T>>>(fjs.clone()) {
        Ok(fb) => ensure!(fb.color.color.bits() == want && C::alpha_bits(fb.color.alpha) == ab, "Alpha<{}> flattened changed", name),
        // known finding: reported after every other clause of this case has been checked
        Err(e) => obs.known_or_fail(Fail::keyed("C20:alpha-flatten-deserialize", format!("Alpha<{}> flattened into a parent serializes as {} but does not deserialize: {}", name, fjs, e)))?,
    }
    // as_array helper == cast::into_array
    let aj = serde_json::to_value(&AsArray { color: col }).unwrap();
    let want_arr = serde_json::to_value(palette::cast::into_array(col)).unwrap();
    ensure!(aj["color"] == want_arr, "{}: as_array gives {} but cast::into_array gives {}", name, aj["color"], want_arr);
    let ab2: AsArray<C> = serde_json::from_value(aj).map_err(|e| Fail::new(format!("{}: as_array does not deserialize: {}", name, e)))?;
    ensure!(ab2.color.bits() == want, "{}: as_array round trip changed", name);
    // ---------------- compact sequence form ----------------
    let toks = compact::to_tokens(&col).map_err(|e| Fail::new(format!("{}: compact serialization failed: {}", name, e)))?;
    ensure!(toks.len() == k + 1 && toks[0] == Tok::Len(k), "{}: compact form {:?}, expected a length-{} struct of {} scalars", name, toks, k, k);
    let back: C = compact::from_tokens(&toks).map_err(|e| Fail::new(format!("{}: compact form {:?} does not deserialize: {}", name, toks, e)))?;
    ensure!(back.bits() == want, "{}: compact round trip changed", name);
    let atoks = compact::to_tokens(&ac).map_err(|e| Fail::new(format!("Alpha<{}>: compact serialization failed: {}", name, e)))?;
    ensure!(atoks.len() == k + 2 && atoks[0] == Tok::Len(k + 1), "Alpha<{}>: compact form {:?}, expected one flat struct of {} scalars (alpha at the same level)", name, atoks, k + 1);
    ensure!(atoks[1..=k] == toks[1..], "Alpha<{}>: colour scalars {:?} differ from the bare colour's {:?}", name, &atoks[1..=k], &toks[1..]);
    ensure!(atoks[k + 1] == if C::IS_F32 { Tok::F32(ab as u32) } else { Tok::F64(ab) }, "Alpha<{}>: alpha must be the last scalar: {:?}", name, atoks);
    let back: Alpha<C, C::T> = compact::from_tokens(&atoks).map_err(|e| Fail::new(format!("Alpha<{}>: compact form {:?} does not deserialize: {}", name, atoks, e)))?;
    ensure!(back.color.bits() == want && C::alpha_bits(back.alpha) == ab, "Alpha<{}>: compact round trip changed: {:?}", name, back);
    let bounded_alpha: Result<Alpha<C, C::T>, _> = compact::from_tokens_mode(&atoks, true);
    let bounded_bare: C = compact::from_tokens_mode(&toks, true).map_err(|e| Fail::new(format!("{}: compact form (bounded structs) does not deserialize: {}", name, e)))?;
    ensure!(bounded_bare.bits() == want, "{}: compact (bounded) round trip changed", name);
    let vtoks = compact::to_tokens(&vec![ac, ac]).map_err(|e| Fail::new(format!("Vec<Alpha<{}>>: compact: {}", name, e)))?;
    let vb: Vec<Alpha<C, C::T>> = compact::from_tokens(&vtoks).map_err(|e| Fail::new(format!("Vec<Alpha<{}>>: compact: {}", name, e)))?;
    ensure!(vb.len() == 2 && vb[1].color.bits() == want, "Vec<Alpha<{}>> compact changed", name);
    // ---------------- RON (values in a range RON 0.8 prints exactly) ----------------
    if !big {
        for pretty in [false, true] {
            let rs = if pretty { ron::ser::to_string_pretty(&ac, ron::ser::PrettyConfig::new().struct_names(true)) } else { ron::ser::to_string(&ac) }.map_err(|e| Fail::new(format!("Alpha<{}>: to RON failed: {}", name, e)))?;
            let back: Alpha<C, C::T> = ron::de::from_str(&rs).map_err(|e| Fail::new(format!("Alpha<{}>: RON {} does not deserialize: {}", name, rs, e)))?;
            ensure!(back.color.bits() == want && C::alpha_bits(back.alpha) == ab, "Alpha<{}>: RON round trip {} changed the colour to {:?}", name, rs, back);
            ensure!(rs.contains("alpha") && C::FIELDS.iter().all(|f| rs.contains(f)), "Alpha<{}>: RON form {} lacks a field", name, rs);
        }
        let rs = ron::ser::to_string(&col).unwrap();
        let back: C = ron::de::from_str(&rs).map_err(|e| Fail::new(format!("{}: RON {} does not deserialize: {}", name, rs, e)))?;
        ensure!(back.bits() == want, "{}: RON round trip changed", name);
        let rs = ron::ser::to_string(&Holder { before: 1, color: ac, after: 2 }).unwrap();
        let hb: Holder<Alpha<C, C::T>> = ron::de::from_str(&rs).map_err(|e| Fail::new(format!("Alpha<{}> in a struct (RON {}): {}", name, rs, e)))?;
        ensure!(hb.color.color.bits() == want, "Alpha<{}> in a struct (RON) changed", name);
    }
    match bounded_alpha {
        Ok(b) => ensure!(b.color.bits() == want && C::alpha_bits(b.alpha) == ab, "Alpha<{}>: compact (bounded) round trip changed", name),
        Err(e) => obs.known_or_fail(Fail::keyed("C20:alpha-struct-len-in-bounded-formats", format!("Alpha<{}>: a format that reads a struct as exactly `fields.len()` elements (bincode/postcard style) cannot deserialize what was serialized ({:?}): {}", name, atoks, e)))?,
    }
    Ok(())
}

fn check_pre<C>(c: &Case, _obs: &mut Obs) -> PropResult
where
    C: SerCase + palette::blend::Premultiply<Scalar = <C as SerCase>::T>,
    <C as SerCase>::T: palette::stimulus::Stimulus,
    PreAlpha<C>: Serialize + DeserializeOwned + Copy,
{
    let name = C::NAME;
    let k = C::FIELDS.len();
    let col = C::make(&c.v);
    let al = C::alpha(c.alpha);
    if !c.v.iter().take(k).all(|x| json_safe(*x, C::IS_F32)) || !json_safe(c.alpha, C::IS_F32) {
        return Ok(());
    }
    let pa = PreAlpha { color: col, alpha: al };
    let val = serde_json::to_value(&pa).map_err(|e| Fail::new(format!("PreAlpha<{}>: {}", name, e)))?;
    let obj = val.as_object().ok_or_else(|| Fail::new(format!("PreAlpha<{}> serializes as {}", name, val)))?;
    ensure!(obj.len() == k + 1 && obj.contains_key("alpha") && C::FIELDS.iter().all(|f| obj.contains_key(*f)), "PreAlpha<{}>: shape {}", name, val);
    let back: PreAlpha<C> = serde_json::from_value(val.clone()).map_err(|e| Fail::new(format!("PreAlpha<{}>: {} does not deserialize: {}", name, val, e)))?;
    ensure!(back.color.bits() == col.bits() && C::alpha_bits(back.alpha) == C::alpha_bits(al), "PreAlpha<{}>: JSON round trip changed", name);
    let toks = compact::to_tokens(&pa).map_err(|e| Fail::new(format!("PreAlpha<{}>: compact: {}", name, e)))?;
    ensure!(toks.len() == k + 2 && toks[0] == Tok::Len(k + 1), "PreAlpha<{}>: compact form {:?}", name, toks);
    let back: PreAlpha<C> = compact::from_tokens(&toks).map_err(|e| Fail::new(format!("PreAlpha<{}>: compact form does not deserialize: {}", name, e)))?;
    ensure!(back.color.bits() == col.bits() && C::alpha_bits(back.alpha) == C::alpha_bits(al), "PreAlpha<{}>: compact round trip changed", name);
    #[derive(Deserialize)]
    #[serde(bound(deserialize = "X: palette::blend::Premultiply + DeserializeOwned, X::Scalar: palette::stimulus::Stimulus + DeserializeOwned"))]
    struct OptPre<X: palette::blend::Premultiply> {
        #[serde(deserialize_with = "palette::serde::deserialize_with_optional_pre_alpha")]
        color: PreAlpha<X>,
    }
    let bare = serde_json::to_value(&col).unwrap();
    let o: OptPre<C> = serde_json::from_value(serde_json::json!({ "color": bare })).map_err(|e| Fail::new(format!("{}: deserialize_with_optional_pre_alpha without alpha: {}", name, e)))?;
    ensure!(o.color.color.bits() == col.bits() && C::alpha_bits(o.color.alpha) == C::alpha_bits(C::max_alpha()), "{}: optional pre-alpha missing must give full opacity", name);
    let o: OptPre<C> = serde_json::from_value(serde_json::json!({ "color": val })).map_err(|e| Fail::new(format!("{}: deserialize_with_optional_pre_alpha with alpha: {}", name, e)))?;
    ensure!(C::alpha_bits(o.color.alpha) == C::alpha_bits(al), "{}: optional pre-alpha present must be honoured", name);
    Ok(())
}

// integer components, hues, packed / as_uint
#[derive(Debug, Clone, Serialize, Deserialize)]
struct IntCase {
    c: [u16; 4],
    word: u64,
    hue: f64,
}
fn int_point(c: &IntCase, obs: &mut Obs) -> PropResult {
    obs.nontrivial();
    let [r, g, b, a] = c.c;
    let col = Alpha { color: Srgb::<u8>::new(r as u8, g as u8, b as u8), alpha: a as u8 };
    let v = serde_json::to_value(&col).unwrap();
    ensure!(v == serde_json::json!({"red": r as u8, "green": g as u8, "blue": b as u8, "alpha": a as u8}), "Srgba<u8> serializes as {}", v);
    let back: Alpha<Srgb<u8>, u8> = serde_json::from_value(v).map_err(|e| Fail::new(format!("Srgba<u8>: {}", e)))?;
    ensure!(back == col, "Srgba<u8> round trip");
    let col16 = Alpha { color: Srgb::<u16>::new(r, g, b), alpha: 0.5f32 };
    let toks = compact::to_tokens(&col16).map_err(|e| Fail::new(format!("mixed Alpha compact: {}", e)))?;
    ensure!(toks == vec![Tok::Len(4), Tok::U16(r), Tok::U16(g), Tok::U16(b), Tok::F32(0.5f32.to_bits())], "Alpha<Srgb<u16>, f32> compact form {:?}", toks);
    let back: Alpha<Srgb<u16>, f32> = compact::from_tokens(&toks).map_err(|e| Fail::new(format!("mixed Alpha compact: {}", e)))?;
    ensure!(back == col16, "mixed Alpha compact round trip");
    let rs = ron::ser::to_string(&col).unwrap();
    let back: Alpha<Srgb<u8>, u8> = ron::de::from_str(&rs).map_err(|e| Fail::new(format!("Srgba<u8> RON {}: {}", rs, e)))?;
    ensure!(back == col, "Srgba<u8> RON round trip");
    // hue: a bare number
    if c.hue.is_finite() {
        let h = RgbHue::<f64>::from_degrees(c.hue);
        let v = serde_json::to_value(h).unwrap();
        ensure!(v.is_number() && v.as_f64() == Some(c.hue), "RgbHue serializes as {}", v);
        let back: RgbHue<f64> = serde_json::from_value(v).unwrap();
        ensure!(back.into_raw_degrees().to_bits() == c.hue.to_bits(), "hue round trip changed the raw angle");
        let toks = compact::to_tokens(&h).unwrap();
        ensure!(toks == vec![Tok::F64(c.hue.to_bits())], "hue compact form {:?}", toks);
    }
    // as_uint == cast::into_uint
    #[derive(Serialize, Deserialize)]
    struct U {
        #[serde(with = "palette::serde::as_uint")]
        p: Packed<RgbaOrder, u32>,
        #[serde(with = "palette::serde::as_uint")]
        q: Packed<Argb, u64>,
        #[serde(with = "palette::serde::as_uint")]
        l: SrgbLuma<u16>,
        #[serde(with = "palette::serde::as_array")]
        arr: Packed<RgbaOrder, [u8; 4]>,
    }
    let u = U { p: Packed::from(c.word as u32), q: Packed::from(c.word), l: SrgbLuma::new(g), arr: Packed::from([r as u8, g as u8, b as u8, a as u8]) };
    let v = serde_json::to_value(&u).unwrap();
    ensure!(v == serde_json::json!({"p": c.word as u32, "q": c.word, "l": g, "arr": [r as u8, g as u8, b as u8, a as u8]}), "as_uint / as_array give {}", v);
    ensure!(v["p"] == serde_json::json!(palette::cast::into_uint(u.p)) && v["l"] == serde_json::json!(palette::cast::into_uint(u.l)), "as_uint differs from cast::into_uint");
    let back: U = serde_json::from_value(v).map_err(|e| Fail::new(format!("as_uint round trip: {}", e)))?;
    ensure!(back.p.color == c.word as u32 && back.q.color == c.word && back.l.luma == g && back.arr.color == [r as u8, g as u8, b as u8, a as u8], "as_uint round trip changed");
    Ok(())
}

type CheckFn = fn(&Case, &mut Obs) -> PropResult;
fn entries() -> Vec<(&'static str, CheckFn, Option<CheckFn>, [(f64, f64); 3])> {
    let u = (0.0, 1.0);
    let h = (-360.0, 720.0);
    macro_rules! e {
        ($C:ident [$($p:ty),*], $r:expr) => {
            [(<$C<$($p,)* f32> as SerCase>::NAME, check::<$C<$($p,)* f32>> as CheckFn, None, $r), (<$C<$($p,)* f64> as SerCase>::NAME, check::<$C<$($p,)* f64>> as CheckFn, None, $r)]
        };
        (pre $C:ident [$($p:ty),*], $r:expr) => {
            [(<$C<$($p,)* f32> as SerCase>::NAME, check::<$C<$($p,)* f32>> as CheckFn, Some(check_pre::<$C<$($p,)* f32>> as CheckFn), $r), (<$C<$($p,)* f64> as SerCase>::NAME, check::<$C<$($p,)* f64>> as CheckFn, Some(check_pre::<$C<$($p,)* f64>> as CheckFn), $r)]
        };
    }
    let mut v = Vec::new();
    v.extend(e!(pre Srgb[], [u, u, u]));
    v.extend(e!(pre LinSrgb[], [u, u, u]));
    v.extend(e!(pre Xyz[D65], [u, u, u]));
    v.extend(e!(pre Yxy[D65], [u, u, u]));
    v.extend(e!(pre Lab[D65], [(0.0, 100.0), (-128.0, 127.0), (-128.0, 127.0)]));
    v.extend(e!(pre Luv[D65], [(0.0, 100.0), (-84.0, 176.0), (-135.0, 108.0)]));
    v.extend(e!(Lch[D65], [(0.0, 100.0), (0.0, 128.0), h]));
    v.extend(e!(Lchuv[D65], [(0.0, 100.0), (0.0, 180.0), h]));
    v.extend(e!(Hsluv[D65], [h, (0.0, 100.0), (0.0, 100.0)]));
    v.extend(e!(Hsl[ESrgb], [h, u, u]));
    v.extend(e!(Hsv[ESrgb], [h, u, u]));
    v.extend(e!(Hwb[ESrgb], [h, u, u]));
    v.extend(e!(pre Oklab[], [u, (-0.4, 0.4), (-0.4, 0.4)]));
    v.extend(e!(Oklch[], [u, (0.0, 0.4), h]));
    v.extend(e!(Okhsl[], [h, u, u]));
    v.extend(e!(Okhsv[], [h, u, u]));
    v.extend(e!(Okhwb[], [h, u, u]));
    v.extend(e!(pre SrgbLuma[], [u, u, u]));
    v.extend(e!(pre Cam16UcsJab[], [(0.0, 100.0), (-50.0, 50.0), (-50.0, 50.0)]));
    v.extend(e!(Cam16UcsJmh[], [(0.0, 100.0), (0.0, 50.0), h]));
    v
}

fn main() {
    let mut h = Harness::new("C20");
    let ents: &'static [(&'static str, CheckFn, Option<CheckFn>, [(f64, f64); 3])] = Box::leak(entries().into_boxed_slice());
    h.rule("40 serialisable colour types (20 x f32/f64), each bare, Alpha and (where Premultiply exists) PreAlpha, with generated components (nominal range, 17-digit values, extremes +-MAX, subnormals, -0.0; alpha in [0,1] and beyond) through serde_json (map form, alpha-first map, array form), RON 0.8 (compact and pretty with struct names), and an in-harness compact non-self-describing format with length-prefixed structs; shapes: top level, struct field, Vec, Option, #[serde(flatten)] parent, as_array / as_uint helpers, optional-alpha helpers; malformed inputs (short/long sequences, duplicate alpha). Oracle: bitwise round trip; JSON keys == the colour's own field names + `alpha` at the same level, every value (hue included) a bare number, no metadata; compact form = one struct of k+1 scalars with alpha last and a correct length prefix; missing alpha -> error naming `alpha` / full opacity via the helpers. Non-trivial = alpha not in {0,1} and a component needing > 10 printed digits.");
    h.assume("field-name table written in the harness from the struct definitions; RON round trips use values below 1e15 in magnitude (RON 0.8 does not print larger floats exactly, which is not the crate's concern)");
    let nty = ents.len();
    let n = h.n(1_500_000, 20_000_000);
    h.prop(
        "formats_and_shapes",
        n,
        move || {
            (0..nty).prop_flat_map(move |ty| {
                let r = ents[ty].3;
                let comp = move |i: usize| {
                    let (lo, hi) = r[i];
                    prop_oneof![
                        8 => pv::gen::unit().prop_map(move |t| lo + (hi - lo) * t),
                        4 => (lo..=hi),
                        1 => prop_oneof![Just(f64::MAX), Just(f64::MIN), Just(f32::MAX as f64), Just(f64::MIN_POSITIVE), Just(5e-324), Just(-0.0), Just(1e300), Just(0.1 + 0.2), Just(1.0 / 3.0), Just(123456.78901234567)],
                        1 => any::<f64>().prop_filter("finite", |x| x.is_finite()),
                    ]
                };
                (comp(0), comp(1), comp(2), prop_oneof![6 => 0.0..=1.0f64, 1 => Just(0.0), 1 => Just(1.0), 1 => Just(0.30000000000000004), 1 => -2.0..=3.0f64]).prop_map(move |(a, b, c, alpha)| Case { ty, v: [a, b, c], alpha })
            })
        },
        |c, obs| {
            obs.class(pv::runner::intern(ents[c.ty].0));
            (ents[c.ty].1)(c, obs)?;
            if let Some(p) = ents[c.ty].2 {
                p(c, obs)?;
            }
            Ok(())
        },
    );
    let n = h.n(1_000_000, 10_000_000);
    h.prop("integers_hues_uints", n, || (proptest::array::uniform4(any::<u16>()), any::<u64>(), prop_oneof![-720.0..=720.0f64, any::<f64>()]).prop_map(|(c, word, hue)| IntCase { c, word, hue }), int_point);
    h.finish();
}
