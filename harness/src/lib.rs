//! Shared machinery for the palette property checks (see /verif/DESIGN.md).
pub mod runner;
pub mod gen;
pub mod types;
pub mod ops;
pub mod cam;
pub mod reference;

pub use runner::{Fail, Harness, Obs, PropResult, Tier};
pub mod refgraph;
