//! Shared machinery for the palette property checks (see /verif/DESIGN.md).
pub mod runner;
pub mod gen;

pub use runner::{Fail, Harness, Obs, PropResult, Tier};
