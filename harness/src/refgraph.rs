//! The reference side of the type matrix: what each named space of `types::SPACE_NAMES` *is* (kind, RGB standard,
//! transfer function, white point, cone matrix) and the published route between it and XYZ.
use crate::reference::spaces as rf;
use crate::reference::spaces::{Tf, V3};

#[derive(Clone, Copy, PartialEq, Debug)]
pub enum K {
    Rgb,
    Xyz,
    Yxy,
    Lab,
    Lch,
    Luv,
    Lchuv,
    Hsluv,
    Hsl,
    Hsv,
    Hwb,
    Oklab,
    Oklch,
    Okhsl,
    Okhsv,
    Okhwb,
    Lms,
    Luma,
}
#[derive(Clone, Copy, Debug)]
pub struct Sp {
    pub k: K,
    /// RGB standard (Rgb, Hsl, Hsv, Hwb, Luma)
    pub std: Option<rf::RgbStd>,
    /// transfer function actually applied (Linear for the Lin* forms)
    pub tf: Tf,
    pub wp: V3,
    pub cone: rf::M3,
}
pub fn parse(name: &str) -> Sp {
    let (base, param) = match name.split_once('<') {
        Some((b, p)) => (b, Some(p.trim_end_matches('>'))),
        None => (name, None),
    };
    let rgb = |n: &str| -> Option<(rf::RgbStd, Tf)> {
        let (lin, n) = match n.strip_prefix("Lin") {
            Some(r) => (true, r),
            None => (false, n),
        };
        let s = rf::STANDARDS.iter().find(|s| s.name == n)?;
        Some((*s, if lin { Tf::Linear } else { s.tf }))
    };
    let white = |p: Option<&str>| match p {
        None => rf::D65,
        Some("DciWhite") => rf::white("DciP3"),
        Some(w) => rf::white(w),
    };
    if let Some((s, tf)) = rgb(base) {
        return Sp { k: K::Rgb, std: Some(s), tf, wp: rf::white(s.white), cone: rf::UNIT };
    }
    let k = match base {
        "Xyz" => K::Xyz,
        "Yxy" => K::Yxy,
        "Lab" => K::Lab,
        "Lch" => K::Lch,
        "Luv" => K::Luv,
        "Lchuv" => K::Lchuv,
        "Hsluv" => K::Hsluv,
        "Hsl" => K::Hsl,
        "Hsv" => K::Hsv,
        "Hwb" => K::Hwb,
        "Oklab" => K::Oklab,
        "Oklch" => K::Oklch,
        "Okhsl" => K::Okhsl,
        "Okhsv" => K::Okhsv,
        "Okhwb" => K::Okhwb,
        "Lms" => K::Lms,
        "Luma" | "LinLuma" => K::Luma,
        _ => panic!("unknown space {}", name),
    };
    match k {
        K::Hsl | K::Hsv | K::Hwb => {
            let (s, tf) = rgb(param.unwrap_or("Srgb")).unwrap();
            Sp { k, std: Some(s), tf, wp: rf::white(s.white), cone: rf::UNIT }
        }
        K::Luma => match (base, param) {
            // LinLuma<Wp>: linear luma relative to a white point
            ("LinLuma", p) => Sp { k, std: Some(rf::standard("Srgb")), tf: Tf::Linear, wp: white(p), cone: rf::UNIT },
            // Luma<Standard>: the standard's transfer function and white point
            (_, Some(p)) => {
                let (s, tf) = rgb(p).unwrap();
                Sp { k, std: Some(s), tf, wp: rf::white(s.white), cone: rf::UNIT }
            }
            _ => Sp { k, std: Some(rf::standard("Srgb")), tf: Tf::Srgb, wp: rf::D65, cone: rf::UNIT },
        },
        K::Lms => Sp { k, std: None, tf: Tf::Linear, wp: rf::D65, cone: if param == Some("Bradford") { rf::BRADFORD } else { rf::VON_KRIES } },
        _ => Sp { k, std: None, tf: Tf::Linear, wp: white(param), cone: rf::UNIT },
    }
}


/// the space's own definition chain from XYZ (relative to the space's white point)
pub fn from_xyz(sp: &Sp, xyz: V3) -> V3 {
    use K::*;
    let rgb = |xyz: V3| rf::encode3(sp.tf, rf::mul(&rf::inv(&rf::rgb_to_xyz_matrix(&sp.std.unwrap())), xyz));
    match sp.k {
        Xyz => xyz,
        Yxy => rf::xyz_to_yxy(xyz, sp.wp),
        Lab => rf::xyz_to_lab(xyz, sp.wp),
        Lch => rf::lab_to_lch(rf::xyz_to_lab(xyz, sp.wp)),
        Luv => rf::xyz_to_luv(xyz, sp.wp),
        Lchuv => rf::lab_to_lch(rf::xyz_to_luv(xyz, sp.wp)),
        Hsluv => rf::lchuv_to_hsluv(rf::lab_to_lch(rf::xyz_to_luv(xyz, sp.wp))),
        Oklab => rf::xyz_to_oklab(xyz),
        Oklch => rf::lab_to_lch(rf::xyz_to_oklab(xyz)),
        Okhsl => rf::oklab_to_okhsl(rf::xyz_to_oklab(xyz)),
        Okhsv => rf::oklab_to_okhsv(rf::xyz_to_oklab(xyz)),
        Okhwb => rf::okhsv_to_okhwb(rf::oklab_to_okhsv(rf::xyz_to_oklab(xyz))),
        Lms => rf::mul(&sp.cone, xyz),
        Rgb => rgb(xyz),
        Hsl => rf::rgb_to_hsl(rgb(xyz)),
        Hsv => rf::rgb_to_hsv(rgb(xyz)),
        Hwb => rf::hsv_to_hwb(rf::rgb_to_hsv(rgb(xyz))),
        Luma => [rf::encode(sp.tf, xyz[1]), 0.0, 0.0],
    }
}
/// and back
pub fn to_xyz(sp: &Sp, c: V3) -> V3 {
    use K::*;
    let rgb = |c: V3| rf::mul(&rf::rgb_to_xyz_matrix(&sp.std.unwrap()), rf::decode3(sp.tf, c));
    match sp.k {
        Xyz => c,
        Yxy => rf::yxy_to_xyz(c),
        Lab => rf::lab_to_xyz(c, sp.wp),
        Lch => rf::lab_to_xyz(rf::lch_to_lab(c), sp.wp),
        Luv => rf::luv_to_xyz(c, sp.wp),
        Lchuv => rf::luv_to_xyz(rf::lch_to_lab(c), sp.wp),
        Hsluv => rf::luv_to_xyz(rf::lch_to_lab(rf::hsluv_to_lchuv(c)), sp.wp),
        Oklab => rf::oklab_to_xyz(c),
        Oklch => rf::oklab_to_xyz(rf::lch_to_lab(c)),
        Okhsl => rf::oklab_to_xyz(rf::okhsl_to_oklab(c)),
        Okhsv => rf::oklab_to_xyz(rf::okhsv_to_oklab(c)),
        Okhwb => rf::oklab_to_xyz(rf::okhsv_to_oklab(rf::okhwb_to_okhsv(c))),
        Lms => rf::mul(&rf::inv(&sp.cone), c),
        Rgb => rgb(c),
        Hsl => rgb(rf::hsl_to_rgb(c)),
        Hsv => rgb(rf::hsv_to_rgb(c)),
        Hwb => rgb(rf::hsv_to_rgb(rf::hwb_to_hsv(c))),
        Luma => { let y = rf::decode(sp.tf, c[0]); [sp.wp[0] * y, y, sp.wp[2] * y] }
    }
}
