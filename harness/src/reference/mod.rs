//! Independent f64 reference formulas written from the publications (DESIGN 3.5).
//! No palette types, no palette constants.
pub mod cam16;
pub mod difference;
pub mod spaces;
