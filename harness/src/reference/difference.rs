//! Colour difference references: CIEDE2000 after Sharma, Wu, Dalal (2005), closed forms, WCAG 2.1.

#[derive(Debug, Clone, Copy)]
pub struct Ciede {
    pub de: f64,
    /// |h2' - h1'| (degrees) when both chromas are non-zero, else None
    pub hue_gap: Option<f64>,
    /// h1' + h2'
    pub hue_sum: f64,
    /// the value obtained with the two-branch mean hue (sum + 360)/2 for every |dh'| > 180 pair
    pub de_two_branch: f64,
}

pub fn ciede2000(lab1: [f64; 3], lab2: [f64; 3]) -> Ciede {
    let (l1, a1, b1) = (lab1[0], lab1[1], lab1[2]);
    let (l2, a2, b2) = (lab2[0], lab2[1], lab2[2]);
    let c1 = a1.hypot(b1);
    let c2 = a2.hypot(b2);
    let cbar = (c1 + c2) / 2.0;
    let g = 0.5 * (1.0 - (cbar.powi(7) / (cbar.powi(7) + 25f64.powi(7))).sqrt());
    let a1p = (1.0 + g) * a1;
    let a2p = (1.0 + g) * a2;
    let c1p = a1p.hypot(b1);
    let c2p = a2p.hypot(b2);
    let hp = |b: f64, ap: f64| -> f64 {
        if b == 0.0 && ap == 0.0 {
            0.0
        } else {
            let h = b.atan2(ap).to_degrees();
            if h < 0.0 {
                h + 360.0
            } else {
                h
            }
        }
    };
    let h1p = hp(b1, a1p);
    let h2p = hp(b2, a2p);
    let dlp = l2 - l1;
    let dcp = c2p - c1p;
    let both = c1p * c2p != 0.0;
    let dhp = if !both {
        0.0
    } else if (h2p - h1p).abs() <= 180.0 {
        h2p - h1p
    } else if h2p - h1p > 180.0 {
        h2p - h1p - 360.0
    } else {
        h2p - h1p + 360.0
    };
    let dhp_big = 2.0 * (c1p * c2p).sqrt() * (dhp / 2.0).to_radians().sin();
    let lbar = (l1 + l2) / 2.0;
    let cbarp = (c1p + c2p) / 2.0;
    let finish = |hbarp: f64| -> f64 {
        let t = 1.0 - 0.17 * (hbarp - 30.0).to_radians().cos() + 0.24 * (2.0 * hbarp).to_radians().cos() + 0.32 * (3.0 * hbarp + 6.0).to_radians().cos() - 0.20 * (4.0 * hbarp - 63.0).to_radians().cos();
        let dtheta = 30.0 * (-((hbarp - 275.0) / 25.0).powi(2)).exp();
        let rc = 2.0 * (cbarp.powi(7) / (cbarp.powi(7) + 25f64.powi(7))).sqrt();
        let sl = 1.0 + 0.015 * (lbar - 50.0).powi(2) / (20.0 + (lbar - 50.0).powi(2)).sqrt();
        let sc = 1.0 + 0.045 * cbarp;
        let sh = 1.0 + 0.015 * cbarp * t;
        let rt = -(2.0 * dtheta).to_radians().sin() * rc;
        ((dlp / sl).powi(2) + (dcp / sc).powi(2) + (dhp_big / sh).powi(2) + rt * (dcp / sc) * (dhp_big / sh)).sqrt()
    };
    let sum = h1p + h2p;
    let (hbarp, hbarp2) = if !both {
        (sum, sum)
    } else if (h1p - h2p).abs() <= 180.0 {
        (sum / 2.0, sum / 2.0)
    } else if sum < 360.0 {
        ((sum + 360.0) / 2.0, (sum + 360.0) / 2.0)
    } else {
        ((sum - 360.0) / 2.0, (sum + 360.0) / 2.0)
    };
    Ciede { de: finish(hbarp), hue_gap: if both { Some((h2p - h1p).abs()) } else { None }, hue_sum: sum, de_two_branch: finish(hbarp2) }
}

pub fn lch_to_lab(lch: [f64; 3]) -> [f64; 3] {
    let h = lch[2].to_radians();
    [lch[0], lch[1] * h.cos(), lch[1] * h.sin()]
}

pub fn euclid(a: &[f64], b: &[f64]) -> f64 {
    a.iter().zip(b).map(|(x, y)| (x - y) * (x - y)).sum::<f64>().sqrt()
}
pub fn hyab(a: [f64; 3], b: [f64; 3]) -> f64 {
    (a[0] - b[0]).abs() + (a[1] - b[1]).hypot(a[2] - b[2])
}
pub fn improved_delta_e(de: f64) -> f64 {
    1.26 * de.powf(0.55)
}
pub fn improved_ciede(de: f64) -> f64 {
    1.43 * de.powf(0.7)
}

/// WCAG 2.1 relative luminance of an encoded sRGB colour
pub fn wcag_luminance(rgb: [f64; 3]) -> f64 {
    let lin = |c: f64| if c <= 0.04045 { c / 12.92 } else { ((c + 0.055) / 1.055).powf(2.4) };
    0.2126 * lin(rgb[0]) + 0.7152 * lin(rgb[1]) + 0.0722 * lin(rgb[2])
}
pub fn wcag_contrast(l1: f64, l2: f64) -> f64 {
    let (hi, lo) = if l1 >= l2 { (l1, l2) } else { (l2, l1) };
    (hi + 0.05) / (lo + 0.05)
}

/// Sharma's 34 published pairs (self-check of this reference)
pub fn self_check() -> Result<(), String> {
    let data = include_str!("../../data/sharma_ciede2000.csv");
    let mut n = 0;
    for line in data.lines().skip(1) {
        let v: Vec<f64> = line.split(',').filter_map(|x| x.trim().parse().ok()).collect();
        if v.len() != 7 {
            continue;
        }
        let d = ciede2000([v[0], v[1], v[2]], [v[3], v[4], v[5]]).de;
        if (d - v[6]).abs() > 5e-5 {
            return Err(format!("reference CIEDE2000 disagrees with Sharma's table: {:?} -> {} (published {})", &v[..6], d, v[6]));
        }
        n += 1;
    }
    if n < 30 {
        return Err(format!("only {} Sharma rows read", n));
    }
    Ok(())
}
