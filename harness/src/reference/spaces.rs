//! Colour space definitions written from the publications (CIE 15, the RGB standards, hexcone
//! HSL/HSV/HWB, Ottosson's Oklab / ok_color.h, the HSLuv reference), plain f64.
#![allow(clippy::excessive_precision, clippy::many_single_char_names)]

pub type V3 = [f64; 3];
pub type M3 = [[f64; 3]; 3];

pub fn mul(m: &M3, v: V3) -> V3 {
    [m[0][0] * v[0] + m[0][1] * v[1] + m[0][2] * v[2], m[1][0] * v[0] + m[1][1] * v[1] + m[1][2] * v[2], m[2][0] * v[0] + m[2][1] * v[1] + m[2][2] * v[2]]
}
pub fn matmul(a: &M3, b: &M3) -> M3 {
    let mut r = [[0.0; 3]; 3];
    for i in 0..3 {
        for j in 0..3 {
            r[i][j] = a[i][0] * b[0][j] + a[i][1] * b[1][j] + a[i][2] * b[2][j];
        }
    }
    r
}
pub fn inv(m: &M3) -> M3 {
    let det = m[0][0] * (m[1][1] * m[2][2] - m[1][2] * m[2][1]) - m[0][1] * (m[1][0] * m[2][2] - m[1][2] * m[2][0]) + m[0][2] * (m[1][0] * m[2][1] - m[1][1] * m[2][0]);
    [
        [(m[1][1] * m[2][2] - m[1][2] * m[2][1]) / det, (m[0][2] * m[2][1] - m[0][1] * m[2][2]) / det, (m[0][1] * m[1][2] - m[0][2] * m[1][1]) / det],
        [(m[1][2] * m[2][0] - m[1][0] * m[2][2]) / det, (m[0][0] * m[2][2] - m[0][2] * m[2][0]) / det, (m[0][2] * m[1][0] - m[0][0] * m[1][2]) / det],
        [(m[1][0] * m[2][1] - m[1][1] * m[2][0]) / det, (m[0][1] * m[2][0] - m[0][0] * m[2][1]) / det, (m[0][0] * m[1][1] - m[0][1] * m[1][0]) / det],
    ]
}

// ------------------------------------------------------------------------------------------
// white points: CIE 15 / ASTM E308 tristimulus values, Y = 1 (2 degree observer unless noted)
pub const WHITES: [(&str, V3); 16] = [
    ("A", [1.09850, 1.0, 0.35585]),
    ("B", [0.99072, 1.0, 0.85223]),
    ("C", [0.98074, 1.0, 1.18232]),
    ("D50", [0.96422, 1.0, 0.82521]),
    ("D55", [0.95682, 1.0, 0.92149]),
    ("D65", [0.95047, 1.0, 1.08883]),
    ("D75", [0.94972, 1.0, 1.22638]),
    ("E", [1.0, 1.0, 1.0]),
    ("F2", [0.99186, 1.0, 0.67393]),
    ("F7", [0.95041, 1.0, 1.08747]),
    ("F11", [1.00962, 1.0, 0.64350]),
    ("D50Degree10", [0.9672, 1.0, 0.8143]),
    ("D55Degree10", [0.958, 1.0, 0.9093]),
    ("D65Degree10", [0.9481, 1.0, 1.073]),
    ("D75Degree10", [0.94416, 1.0, 1.2064]),
    // DCI-P3 theatrical white, chromaticity (0.314, 0.351) (SMPTE RP 431-2)
    ("DciP3", [0.314 / 0.351, 1.0, 0.335 / 0.351]),
];
pub fn white(name: &str) -> V3 {
    WHITES.iter().find(|w| w.0 == name).unwrap_or_else(|| panic!("no white point {}", name)).1
}
pub const D65: V3 = [0.95047, 1.0, 1.08883];
pub const D50: V3 = [0.96422, 1.0, 0.82521];

// ------------------------------------------------------------------------------------------
// RGB standards
#[derive(Clone, Copy, Debug, PartialEq)]
pub enum Tf {
    Srgb,
    Rec,
    Adobe,
    P3Gamma,
    ProPhoto,
    Linear,
}
#[derive(Clone, Copy, Debug)]
pub struct RgbStd {
    pub name: &'static str,
    pub primaries: [[f64; 2]; 3],
    pub white: &'static str,
    pub tf: Tf,
}
pub const SRGB_PRIM: [[f64; 2]; 3] = [[0.64, 0.33], [0.30, 0.60], [0.15, 0.06]];
pub const STANDARDS: [RgbStd; 8] = [
    RgbStd { name: "Srgb", primaries: SRGB_PRIM, white: "D65", tf: Tf::Srgb },
    RgbStd { name: "AdobeRgb", primaries: [[0.64, 0.33], [0.21, 0.71], [0.15, 0.06]], white: "D65", tf: Tf::Adobe },
    RgbStd { name: "Rec709", primaries: SRGB_PRIM, white: "D65", tf: Tf::Rec },
    RgbStd { name: "Rec2020", primaries: [[0.708, 0.292], [0.170, 0.797], [0.131, 0.046]], white: "D65", tf: Tf::Rec },
    RgbStd { name: "DisplayP3", primaries: [[0.680, 0.320], [0.265, 0.690], [0.150, 0.060]], white: "D65", tf: Tf::Srgb },
    RgbStd { name: "DciP3", primaries: [[0.680, 0.320], [0.265, 0.690], [0.150, 0.060]], white: "DciP3", tf: Tf::P3Gamma },
    // DCI-P3+ (Canon), wider primaries with the DCI white
    RgbStd { name: "DciP3Plus", primaries: [[0.740, 0.270], [0.220, 0.780], [0.090, -0.090]], white: "DciP3", tf: Tf::P3Gamma },
    RgbStd { name: "ProPhoto", primaries: [[0.7347, 0.2653], [0.1596, 0.8404], [0.0366, 0.0001]], white: "D50", tf: Tf::ProPhoto },
];
pub fn standard(name: &str) -> RgbStd {
    *STANDARDS.iter().find(|s| s.name == name).unwrap_or_else(|| panic!("no RGB standard {}", name))
}

/// linear RGB -> XYZ matrix derived from primaries and white point (Lindbloom's method)
pub fn rgb_to_xyz_matrix(s: &RgbStd) -> M3 {
    let w = white(s.white);
    let col = |p: [f64; 2]| [p[0] / p[1], 1.0, (1.0 - p[0] - p[1]) / p[1]];
    let (r, g, b) = (col(s.primaries[0]), col(s.primaries[1]), col(s.primaries[2]));
    let m = [[r[0], g[0], b[0]], [r[1], g[1], b[1]], [r[2], g[2], b[2]]];
    let sc = mul(&inv(&m), w);
    [[sc[0] * r[0], sc[1] * g[0], sc[2] * b[0]], [sc[0] * r[1], sc[1] * g[1], sc[2] * b[1]], [sc[0] * r[2], sc[1] * g[2], sc[2] * b[2]]]
}

const REC_ALPHA: f64 = 1.09929682680944;
const REC_BETA: f64 = 0.018053968510807;

/// linear -> encoded (pure power laws mirrored around zero, as CSS Color 4 does for a98-rgb)
pub fn encode(tf: Tf, x: f64) -> f64 {
    match tf {
        Tf::Srgb => if x <= 0.0031308 { 12.92 * x } else { 1.055 * x.powf(1.0 / 2.4) - 0.055 },
        Tf::Rec => if x < REC_BETA { 4.5 * x } else { REC_ALPHA * x.powf(0.45) - (REC_ALPHA - 1.0) },
        Tf::Adobe => x.abs().powf(256.0 / 563.0) * x.signum(),
        Tf::P3Gamma => x.abs().powf(1.0 / 2.6) * x.signum(),
        Tf::ProPhoto => if x < 1.0 / 512.0 { 16.0 * x } else { x.powf(1.0 / 1.8) },
        Tf::Linear => x,
    }
}
pub fn decode(tf: Tf, y: f64) -> f64 {
    match tf {
        Tf::Srgb => if y <= 0.04045 { y / 12.92 } else { ((y + 0.055) / 1.055).powf(2.4) },
        Tf::Rec => if y < 4.5 * REC_BETA { y / 4.5 } else { ((y + (REC_ALPHA - 1.0)) / REC_ALPHA).powf(1.0 / 0.45) },
        Tf::Adobe => y.abs().powf(563.0 / 256.0) * y.signum(),
        Tf::P3Gamma => y.abs().powf(2.6) * y.signum(),
        Tf::ProPhoto => if y < 16.0 / 512.0 { y / 16.0 } else { y.powf(1.8) },
        Tf::Linear => y,
    }
}
/// knees of the transfer functions (linear side, encoded side)
pub fn knee(tf: Tf) -> Option<(f64, f64)> {
    match tf {
        Tf::Srgb => Some((0.0031308, 0.04045)),
        Tf::Rec => Some((REC_BETA, 4.5 * REC_BETA)),
        Tf::ProPhoto => Some((1.0 / 512.0, 16.0 / 512.0)),
        _ => None,
    }
}
pub fn encode3(tf: Tf, c: V3) -> V3 {
    [encode(tf, c[0]), encode(tf, c[1]), encode(tf, c[2])]
}
pub fn decode3(tf: Tf, c: V3) -> V3 {
    [decode(tf, c[0]), decode(tf, c[1]), decode(tf, c[2])]
}
pub fn rgb_to_xyz(s: &RgbStd, encoded: V3) -> V3 {
    mul(&rgb_to_xyz_matrix(s), decode3(s.tf, encoded))
}
pub fn xyz_to_rgb(s: &RgbStd, xyz: V3) -> V3 {
    encode3(s.tf, mul(&inv(&rgb_to_xyz_matrix(s)), xyz))
}

// ------------------------------------------------------------------------------------------
// CIE 15
pub const EPS: f64 = 216.0 / 24389.0;
pub const KAPPA: f64 = 24389.0 / 27.0;

pub fn xyz_to_yxy(xyz: V3, w: V3) -> V3 {
    let s = xyz[0] + xyz[1] + xyz[2];
    if s == 0.0 || !s.is_normal() {
        // chromaticity of black is undefined: the white point's chromaticity is the convention
        let ws = w[0] + w[1] + w[2];
        return [w[0] / ws, w[1] / ws, 0.0];
    }
    [xyz[0] / s, xyz[1] / s, xyz[1]]
}
pub fn yxy_to_xyz(c: V3) -> V3 {
    let (x, y, luma) = (c[0], c[1], c[2]);
    if y == 0.0 || !y.is_normal() {
        return [0.0, luma, 0.0];
    }
    [luma * x / y, luma, luma * (1.0 - x - y) / y]
}
pub fn xyz_to_lab(xyz: V3, w: V3) -> V3 {
    let f = |t: f64| if t > EPS { t.cbrt() } else { (KAPPA * t + 16.0) / 116.0 };
    let (fx, fy, fz) = (f(xyz[0] / w[0]), f(xyz[1] / w[1]), f(xyz[2] / w[2]));
    [116.0 * fy - 16.0, 500.0 * (fx - fy), 200.0 * (fy - fz)]
}
pub fn lab_to_xyz(lab: V3, w: V3) -> V3 {
    let fy = (lab[0] + 16.0) / 116.0;
    let fx = lab[1] / 500.0 + fy;
    let fz = fy - lab[2] / 200.0;
    let g = |f: f64| if f * f * f > EPS { f * f * f } else { (116.0 * f - 16.0) / KAPPA };
    [g(fx) * w[0], g(fy) * w[1], g(fz) * w[2]]
}
pub fn lab_to_lch(lab: V3) -> V3 {
    let mut h = lab[2].atan2(lab[1]).to_degrees();
    if h < 0.0 {
        h += 360.0;
    }
    [lab[0], lab[1].hypot(lab[2]), h]
}
pub fn lch_to_lab(lch: V3) -> V3 {
    let c = lch[1].max(0.0);
    let h = lch[2].to_radians();
    [lch[0], c * h.cos(), c * h.sin()]
}
fn uv_prime(xyz: V3) -> Option<(f64, f64)> {
    let d = xyz[0] + 15.0 * xyz[1] + 3.0 * xyz[2];
    if d == 0.0 {
        None
    } else {
        Some((4.0 * xyz[0] / d, 9.0 * xyz[1] / d))
    }
}
pub fn xyz_to_luv(xyz: V3, w: V3) -> V3 {
    let yr = xyz[1] / w[1];
    let l = if yr > EPS { 116.0 * yr.cbrt() - 16.0 } else { KAPPA * yr };
    let (un, vn) = uv_prime(w).unwrap();
    match uv_prime(xyz) {
        Some((u, v)) => [l, 13.0 * l * (u - un), 13.0 * l * (v - vn)],
        None => [l, 0.0, 0.0],
    }
}
pub fn luv_to_xyz(luv: V3, w: V3) -> V3 {
    let l = luv[0];
    if l == 0.0 {
        return [0.0; 3];
    }
    let (un, vn) = uv_prime(w).unwrap();
    let y = w[1] * if l > KAPPA * EPS { ((l + 16.0) / 116.0).powi(3) } else { l / KAPPA };
    let u = luv[1] / (13.0 * l) + un;
    let v = luv[2] / (13.0 * l) + vn;
    [y * 9.0 * u / (4.0 * v), y, y * (12.0 - 3.0 * u - 20.0 * v) / (4.0 * v)]
}

// ------------------------------------------------------------------------------------------
// hexcone models on encoded RGB in [0,1]
pub fn rgb_to_hsv(c: V3) -> V3 {
    let (r, g, b) = (c[0], c[1], c[2]);
    let mx = r.max(g).max(b);
    let mn = r.min(g).min(b);
    let d = mx - mn;
    let h = if d == 0.0 {
        0.0
    } else if mx == r {
        60.0 * ((g - b) / d).rem_euclid(6.0)
    } else if mx == g {
        60.0 * ((b - r) / d + 2.0)
    } else {
        60.0 * ((r - g) / d + 4.0)
    };
    [h, if mx == 0.0 { 0.0 } else { d / mx }, mx]
}
pub fn hsv_to_rgb(c: V3) -> V3 {
    let h = c[0].rem_euclid(360.0) / 60.0;
    let ch = c[2] * c[1];
    let x = ch * (1.0 - (h.rem_euclid(2.0) - 1.0).abs());
    let m = c[2] - ch;
    let (r, g, b) = match h as i32 {
        0 => (ch, x, 0.0),
        1 => (x, ch, 0.0),
        2 => (0.0, ch, x),
        3 => (0.0, x, ch),
        4 => (x, 0.0, ch),
        _ => (ch, 0.0, x),
    };
    [r + m, g + m, b + m]
}
pub fn rgb_to_hsl(c: V3) -> V3 {
    let hsv = rgb_to_hsv(c);
    let mx = c[0].max(c[1]).max(c[2]);
    let mn = c[0].min(c[1]).min(c[2]);
    let l = (mx + mn) / 2.0;
    let d = mx - mn;
    let s = if d == 0.0 { 0.0 } else { d / (1.0 - (2.0 * l - 1.0).abs()) };
    [hsv[0], s, l]
}
pub fn hsl_to_rgb(c: V3) -> V3 {
    let h = c[0].rem_euclid(360.0) / 60.0;
    let ch = (1.0 - (2.0 * c[2] - 1.0).abs()) * c[1];
    let x = ch * (1.0 - (h.rem_euclid(2.0) - 1.0).abs());
    let m = c[2] - ch / 2.0;
    let (r, g, b) = match h as i32 {
        0 => (ch, x, 0.0),
        1 => (x, ch, 0.0),
        2 => (0.0, ch, x),
        3 => (0.0, x, ch),
        4 => (x, 0.0, ch),
        _ => (ch, 0.0, x),
    };
    [r + m, g + m, b + m]
}
pub fn hsv_to_hwb(c: V3) -> V3 {
    [c[0], (1.0 - c[1]) * c[2], 1.0 - c[2]]
}
pub fn hwb_to_hsv(c: V3) -> V3 {
    let v = 1.0 - c[2];
    [c[0], if v == 0.0 { 0.0 } else { 1.0 - c[1] / v }, v]
}
pub fn hsv_to_hsl(c: V3) -> V3 {
    let l = c[2] * (1.0 - c[1] / 2.0);
    let s = if l == 0.0 || l == 1.0 { 0.0 } else { (c[2] - l) / l.min(1.0 - l) };
    [c[0], s, l]
}
pub fn hsl_to_hsv(c: V3) -> V3 {
    let v = c[2] + c[1] * c[2].min(1.0 - c[2]);
    [c[0], if v == 0.0 { 0.0 } else { 2.0 * (1.0 - c[2] / v) }, v]
}

// ------------------------------------------------------------------------------------------
// Oklab (Ottosson, 2020) and the sRGB-gamut-based Okhsl / Okhsv / Okhwb (ok_color.h, 2021)
pub const OK_M1: M3 = [[0.8189330101, 0.3618667424, -0.1288597137], [0.0329845436, 0.9293118715, 0.0361456387], [0.0482003018, 0.2643662691, 0.6338517070]];
pub const OK_M2: M3 = [[0.2104542553, 0.7936177850, -0.0040720468], [1.9779984951, -2.4285922050, 0.4505937099], [0.0259040371, 0.7827717662, -0.8086757660]];
pub const OK_LIN_TO_LMS: M3 = [[0.4122214708, 0.5363325363, 0.0514459929], [0.2119034982, 0.6806995451, 0.1073969566], [0.0883024619, 0.2817188376, 0.6299787005]];
pub const OK_LMS_TO_LIN: M3 = [[4.0767416621, -3.3077115913, 0.2309699292], [-1.2684380046, 2.6097574011, -0.3413193965], [-0.0041960863, -0.7034186147, 1.7076147010]];

/// M1 as recalculated for CSS Color 4 / color.js (w3c/csswg-drafts#6642, endorsed by Ottosson): the direct
/// linear-sRGB -> LMS matrix times the XYZ -> linear-sRGB matrix for the D65 chromaticity (0.3127, 0.3290)
pub fn ok_m1_recalculated() -> M3 {
    let s = standard("Srgb");
    let w = [0.3127 / 0.3290, 1.0, (1.0 - 0.3127 - 0.3290) / 0.3290];
    let col = |p: [f64; 2]| [p[0] / p[1], 1.0, (1.0 - p[0] - p[1]) / p[1]];
    let (r, g, b) = (col(s.primaries[0]), col(s.primaries[1]), col(s.primaries[2]));
    let m = [[r[0], g[0], b[0]], [r[1], g[1], b[1]], [r[2], g[2], b[2]]];
    let sc = mul(&inv(&m), w);
    let m = [[sc[0] * r[0], sc[1] * g[0], sc[2] * b[0]], [sc[0] * r[1], sc[1] * g[1], sc[2] * b[1]], [sc[0] * r[2], sc[1] * g[2], sc[2] * b[2]]];
    matmul(&OK_LIN_TO_LMS, &inv(&m))
}
pub fn xyz_to_oklab_with(m1: &M3, xyz: V3) -> V3 {
    let lms = mul(m1, xyz);
    mul(&OK_M2, [lms[0].cbrt(), lms[1].cbrt(), lms[2].cbrt()])
}
pub fn oklab_to_xyz_with(m1: &M3, lab: V3) -> V3 {
    let l = mul(&inv(&OK_M2), lab);
    mul(&inv(m1), [l[0].powi(3), l[1].powi(3), l[2].powi(3)])
}
pub fn xyz_to_oklab(xyz: V3) -> V3 {
    let lms = mul(&OK_M1, xyz);
    mul(&OK_M2, [lms[0].cbrt(), lms[1].cbrt(), lms[2].cbrt()])
}
pub fn oklab_to_xyz(lab: V3) -> V3 {
    let l = mul(&inv(&OK_M2), lab);
    mul(&inv(&OK_M1), [l[0].powi(3), l[1].powi(3), l[2].powi(3)])
}
pub fn linsrgb_to_oklab(c: V3) -> V3 {
    let lms = mul(&OK_LIN_TO_LMS, c);
    mul(&OK_M2, [lms[0].cbrt(), lms[1].cbrt(), lms[2].cbrt()])
}
fn lab_to_lms_(lab: V3) -> V3 {
    [lab[0] + 0.3963377774 * lab[1] + 0.2158037573 * lab[2], lab[0] - 0.1055613458 * lab[1] - 0.0638541728 * lab[2], lab[0] - 0.0894841775 * lab[1] - 1.2914855480 * lab[2]]
}
pub fn oklab_to_linsrgb(lab: V3) -> V3 {
    let l = lab_to_lms_(lab);
    mul(&OK_LMS_TO_LIN, [l[0].powi(3), l[1].powi(3), l[2].powi(3)])
}

const TOE_K1: f64 = 0.206;
const TOE_K2: f64 = 0.03;
pub fn toe(x: f64) -> f64 {
    let k3 = (1.0 + TOE_K1) / (1.0 + TOE_K2);
    0.5 * (k3 * x - TOE_K1 + ((k3 * x - TOE_K1).powi(2) + 4.0 * TOE_K2 * k3 * x).sqrt())
}
pub fn toe_inv(x: f64) -> f64 {
    let k3 = (1.0 + TOE_K1) / (1.0 + TOE_K2);
    (x * x + TOE_K1 * x) / (k3 * (x + TOE_K2))
}

fn compute_max_saturation(a: f64, b: f64) -> f64 {
    let (k0, k1, k2, k3, k4, wl, wm, ws);
    if -1.88170328 * a - 0.80936493 * b > 1.0 {
        (k0, k1, k2, k3, k4) = (1.19086277, 1.76576728, 0.59662641, 0.75515197, 0.56771245);
        (wl, wm, ws) = (4.0767416621, -3.3077115913, 0.2309699292);
    } else if 1.81444104 * a - 1.19445276 * b > 1.0 {
        (k0, k1, k2, k3, k4) = (0.73956515, -0.45954404, 0.08285427, 0.12541070, 0.14503204);
        (wl, wm, ws) = (-1.2684380046, 2.6097574011, -0.3413193965);
    } else {
        (k0, k1, k2, k3, k4) = (1.35733652, -0.00915799, -1.15130210, -0.50559606, 0.00692167);
        (wl, wm, ws) = (-0.0041960863, -0.7034186147, 1.7076147010);
    }
    let mut s = k0 + k1 * a + k2 * b + k3 * a * a + k4 * a * b;
    let k_l = 0.3963377774 * a + 0.2158037573 * b;
    let k_m = -0.1055613458 * a - 0.0638541728 * b;
    let k_s = -0.0894841775 * a - 1.2914855480 * b;
    {
        let (l_, m_, s_) = (1.0 + s * k_l, 1.0 + s * k_m, 1.0 + s * k_s);
        let (l, m, sv) = (l_ * l_ * l_, m_ * m_ * m_, s_ * s_ * s_);
        let (l_ds, m_ds, s_ds) = (3.0 * k_l * l_ * l_, 3.0 * k_m * m_ * m_, 3.0 * k_s * s_ * s_);
        let (l_ds2, m_ds2, s_ds2) = (6.0 * k_l * k_l * l_, 6.0 * k_m * k_m * m_, 6.0 * k_s * k_s * s_);
        let f = wl * l + wm * m + ws * sv;
        let f1 = wl * l_ds + wm * m_ds + ws * s_ds;
        let f2 = wl * l_ds2 + wm * m_ds2 + ws * s_ds2;
        s -= f * f1 / (f1 * f1 - 0.5 * f * f2);
    }
    s
}
/// (L_cusp, C_cusp)
pub fn find_cusp(a: f64, b: f64) -> (f64, f64) {
    let s_cusp = compute_max_saturation(a, b);
    let rgb = oklab_to_linsrgb([1.0, s_cusp * a, s_cusp * b]);
    let l_cusp = (1.0 / rgb[0].max(rgb[1]).max(rgb[2])).cbrt();
    (l_cusp, l_cusp * s_cusp)
}
fn find_gamut_intersection(a: f64, b: f64, l1: f64, c1: f64, l0: f64, cusp: (f64, f64)) -> f64 {
    let (cl, cc) = cusp;
    let mut t;
    if ((l1 - l0) * cc - (cl - l0) * c1) <= 0.0 {
        t = cc * l0 / (c1 * cl + cc * (l0 - l1));
    } else {
        t = cc * (l0 - 1.0) / (c1 * (cl - 1.0) + cc * (l0 - l1));
        let dl = l1 - l0;
        let dc = c1;
        let k_l = 0.3963377774 * a + 0.2158037573 * b;
        let k_m = -0.1055613458 * a - 0.0638541728 * b;
        let k_s = -0.0894841775 * a - 1.2914855480 * b;
        let (l_dt, m_dt, s_dt) = (dl + dc * k_l, dl + dc * k_m, dl + dc * k_s);
        {
            let l = l0 * (1.0 - t) + t * l1;
            let c = t * c1;
            let (l_, m_, s_) = (l + c * k_l, l + c * k_m, l + c * k_s);
            let (lv, mv, sv) = (l_ * l_ * l_, m_ * m_ * m_, s_ * s_ * s_);
            let (ldt, mdt, sdt) = (3.0 * l_dt * l_ * l_, 3.0 * m_dt * m_ * m_, 3.0 * s_dt * s_ * s_);
            let (ldt2, mdt2, sdt2) = (6.0 * l_dt * l_dt * l_, 6.0 * m_dt * m_dt * m_, 6.0 * s_dt * s_dt * s_);
            let ch = |w: [f64; 3]| -> f64 {
                let r = w[0] * lv + w[1] * mv + w[2] * sv - 1.0;
                let r1 = w[0] * ldt + w[1] * mdt + w[2] * sdt;
                let r2 = w[0] * ldt2 + w[1] * mdt2 + w[2] * sdt2;
                let u = r1 / (r1 * r1 - 0.5 * r * r2);
                if u >= 0.0 { -r * u } else { f64::MAX }
            };
            let tr = ch(OK_LMS_TO_LIN[0]);
            let tg = ch(OK_LMS_TO_LIN[1]);
            let tb = ch(OK_LMS_TO_LIN[2]);
            t += tr.min(tg.min(tb));
        }
    }
    t
}
fn get_st_mid(a: f64, b: f64) -> (f64, f64) {
    let s = 0.11516993 + 1.0 / (7.44778970 + 4.15901240 * b + a * (-2.19557347 + 1.75198401 * b + a * (-2.13704948 - 10.02301043 * b + a * (-4.24894561 + 5.38770819 * b + 4.69891013 * a))));
    let t = 0.11239642 + 1.0 / (1.61320320 - 0.68124379 * b + a * (0.40370612 + 0.90148123 * b + a * (-0.27087943 + 0.61223990 * b + a * (0.00299215 - 0.45399568 * b - 0.14661872 * a))));
    (s, t)
}
/// (C_0, C_mid, C_max)
pub fn get_cs(l: f64, a: f64, b: f64) -> (f64, f64, f64) {
    let cusp = find_cusp(a, b);
    let c_max = find_gamut_intersection(a, b, l, 1.0, l, cusp);
    let (s_max, t_max) = (cusp.1 / cusp.0, cusp.1 / (1.0 - cusp.0));
    let k = c_max / (l * s_max).min((1.0 - l) * t_max);
    let c_mid = {
        let (s, t) = get_st_mid(a, b);
        let (ca, cb) = (l * s, (1.0 - l) * t);
        0.9 * k * (1.0 / (1.0 / ca.powi(4) + 1.0 / cb.powi(4))).sqrt().sqrt()
    };
    let c_0 = {
        let (ca, cb) = (l * 0.4, (1.0 - l) * 0.8);
        (1.0 / (1.0 / (ca * ca) + 1.0 / (cb * cb))).sqrt()
    };
    (c_0, c_mid, c_max)
}
/// Okhsl (h degrees, s, l) -> Oklab
pub fn okhsl_to_oklab(c: V3) -> V3 {
    let (h, s, l) = (c[0], c[1], c[2]);
    if l >= 1.0 {
        return [1.0, 0.0, 0.0];
    }
    if l <= 0.0 {
        return [0.0, 0.0, 0.0];
    }
    let (a_, b_) = (h.to_radians().cos(), h.to_radians().sin());
    let big_l = toe_inv(l);
    let (c_0, c_mid, c_max) = get_cs(big_l, a_, b_);
    let (mid, mid_inv) = (0.8, 1.25);
    let ch = if s < mid {
        let t = mid_inv * s;
        let k1 = mid * c_0;
        let k2 = 1.0 - k1 / c_mid;
        t * k1 / (1.0 - k2 * t)
    } else {
        let t = (s - mid) / (1.0 - mid);
        let k0 = c_mid;
        let k1 = (1.0 - mid) * c_mid * c_mid * mid_inv * mid_inv / c_0;
        let k2 = 1.0 - k1 / (c_max - c_mid);
        k0 + t * k1 / (1.0 - k2 * t)
    };
    [big_l, ch * a_, ch * b_]
}
pub fn oklab_to_okhsl(lab: V3) -> V3 {
    let ch = lab[1].hypot(lab[2]);
    let (a_, b_) = (lab[1] / ch, lab[2] / ch);
    let big_l = lab[0];
    let h = (0.5 + 0.5 * (-lab[2]).atan2(-lab[1]) / std::f64::consts::PI) * 360.0;
    let (c_0, c_mid, c_max) = get_cs(big_l, a_, b_);
    let (mid, mid_inv) = (0.8, 1.25);
    let s = if ch < c_mid {
        let k1 = mid * c_0;
        let k2 = 1.0 - k1 / c_mid;
        let t = ch / (k1 + k2 * ch);
        t * mid
    } else {
        let k0 = c_mid;
        let k1 = (1.0 - mid) * c_mid * c_mid * mid_inv * mid_inv / c_0;
        let k2 = 1.0 - k1 / (c_max - c_mid);
        let t = (ch - k0) / (k1 + k2 * (ch - k0));
        mid + (1.0 - mid) * t
    };
    [h, s, toe(big_l)]
}
pub fn okhsv_to_oklab(c: V3) -> V3 {
    let (h, s, v) = (c[0], c[1], c[2]);
    let (a_, b_) = (h.to_radians().cos(), h.to_radians().sin());
    let cusp = find_cusp(a_, b_);
    let (s_max, t_max) = (cusp.1 / cusp.0, cusp.1 / (1.0 - cusp.0));
    let s_0 = 0.5;
    let k = 1.0 - s_0 / s_max;
    let l_v = 1.0 - s * s_0 / (s_0 + t_max - t_max * k * s);
    let c_v = s * t_max * s_0 / (s_0 + t_max - t_max * k * s);
    let mut l = v * l_v;
    let mut ch = v * c_v;
    let l_vt = toe_inv(l_v);
    let c_vt = c_v * l_vt / l_v;
    let l_new = toe_inv(l);
    ch = ch * l_new / l;
    l = l_new;
    let rgb = oklab_to_linsrgb([l_vt, a_ * c_vt, b_ * c_vt]);
    let scale = (1.0 / rgb[0].max(rgb[1]).max(rgb[2].max(0.0))).cbrt();
    l *= scale;
    ch *= scale;
    [l, ch * a_, ch * b_]
}
pub fn oklab_to_okhsv(lab: V3) -> V3 {
    let mut ch = lab[1].hypot(lab[2]);
    let (a_, b_) = (lab[1] / ch, lab[2] / ch);
    let mut l = lab[0];
    let h = (0.5 + 0.5 * (-lab[2]).atan2(-lab[1]) / std::f64::consts::PI) * 360.0;
    let cusp = find_cusp(a_, b_);
    let (s_max, t_max) = (cusp.1 / cusp.0, cusp.1 / (1.0 - cusp.0));
    let s_0 = 0.5;
    let k = 1.0 - s_0 / s_max;
    let t = t_max / (ch + l * t_max);
    let l_v = t * l;
    let c_v = t * ch;
    let l_vt = toe_inv(l_v);
    let c_vt = c_v * l_vt / l_v;
    let rgb = oklab_to_linsrgb([l_vt, a_ * c_vt, b_ * c_vt]);
    let scale = (1.0 / rgb[0].max(rgb[1]).max(rgb[2].max(0.0))).cbrt();
    l /= scale;
    ch /= scale;
    ch = ch * toe(l) / l;
    l = toe(l);
    let _ = ch;
    let v = l / l_v;
    let s = (s_0 + t_max) * c_v / ((t_max * s_0) + t_max * k * c_v);
    [h, s, v]
}
pub fn okhsv_to_okhwb(c: V3) -> V3 {
    [c[0], (1.0 - c[1]) * c[2], 1.0 - c[2]]
}
pub fn okhwb_to_okhsv(c: V3) -> V3 {
    let v = 1.0 - c[2];
    [c[0], if v == 0.0 { 0.0 } else { 1.0 - c[1] / v }, v]
}

// ------------------------------------------------------------------------------------------
// HSLuv (reference implementation, rev 4): bounds of the sRGB gamut in the L*u*v* chroma plane
const HSLUV_M: M3 = [[3.240969941904521, -1.537383177570093, -0.498610760293], [-0.96924363628087, 1.87596750150772, 0.041555057407175], [0.055630079696993, -0.20397695888897, 1.056971514242878]];
pub fn hsluv_max_chroma(l: f64, h: f64) -> f64 {
    let sub1 = (l + 16.0).powi(3) / 1560896.0;
    let sub2 = if sub1 > 0.0088564516 { sub1 } else { l / 903.2962962 };
    let hr = h.to_radians();
    let mut best = f64::MAX;
    for c in 0..3 {
        let (m1, m2, m3) = (HSLUV_M[c][0], HSLUV_M[c][1], HSLUV_M[c][2]);
        for t in [0.0, 1.0] {
            let top1 = (284517.0 * m1 - 94839.0 * m3) * sub2;
            let top2 = (838422.0 * m3 + 769860.0 * m2 + 731718.0 * m1) * l * sub2 - 769860.0 * t * l;
            let bottom = (632260.0 * m3 - 126452.0 * m2) * sub2 + 126452.0 * t;
            let (slope, intercept) = (top1 / bottom, top2 / bottom);
            let len = intercept / (hr.sin() - slope * hr.cos());
            if len >= 0.0 && len < best {
                best = len;
            }
        }
    }
    best
}
/// Hsluv (h, s, l) -> Lchuv (l, c, h)
pub fn hsluv_to_lchuv(c: V3) -> V3 {
    let (h, s, l) = (c[0], c[1], c[2]);
    if l > 99.9999999 {
        return [100.0, 0.0, h];
    }
    if l < 0.00000001 {
        return [0.0, 0.0, h];
    }
    [l, hsluv_max_chroma(l, h) / 100.0 * s, h]
}
pub fn lchuv_to_hsluv(c: V3) -> V3 {
    let (l, ch, h) = (c[0], c[1], c[2]);
    if l > 99.9999999 {
        return [h, 0.0, 100.0];
    }
    if l < 0.00000001 {
        return [h, 0.0, 0.0];
    }
    [h, ch / hsluv_max_chroma(l, h) * 100.0, l]
}

// ------------------------------------------------------------------------------------------
// cone fundamentals used for chromatic adaptation
pub const VON_KRIES: M3 = [[0.40024, 0.7076, -0.08081], [-0.2263, 1.16532, 0.0457], [0.0, 0.0, 0.91822]];
pub const BRADFORD: M3 = [[0.8951, 0.2664, -0.1614], [-0.7502, 1.7135, 0.0367], [0.0389, -0.0685, 1.0296]];
pub const UNIT: M3 = [[1.0, 0.0, 0.0], [0.0, 1.0, 0.0], [0.0, 0.0, 1.0]];

/// von Kries style adaptation matrix M^-1 diag(dst/src) M
pub fn adaptation_matrix(cone: &M3, src: V3, dst: V3) -> M3 {
    let s = mul(cone, src);
    let d = mul(cone, dst);
    let diag = [[d[0] / s[0], 0.0, 0.0], [0.0, d[1] / s[1], 0.0], [0.0, 0.0, d[2] / s[2]]];
    matmul(&inv(cone), &matmul(&diag, cone))
}

/// self-check of the ports against a few published values
pub fn self_check() -> Result<(), String> {
    let close = |a: f64, b: f64, t: f64| (a - b).abs() <= t;
    // Lindbloom's sRGB matrix
    let m = rgb_to_xyz_matrix(&standard("Srgb"));
    if !(close(m[0][0], 0.4124564, 1e-6) && close(m[1][1], 0.7151522, 1e-6) && close(m[2][2], 0.9503041, 1e-6)) {
        return Err(format!("derived sRGB matrix {:?} differs from Lindbloom's", m));
    }
    // Ottosson's Oklab examples: XYZ (0.950, 1.000, 1.089) -> (1.000, 0.000, 0.000); (1,0,0) -> (0.450, 1.236, -0.019)
    let l = xyz_to_oklab([0.950, 1.0, 1.089]);
    if !(close(l[0], 1.0, 1e-3) && close(l[1], 0.0, 1e-3) && close(l[2], 0.0, 1e-3)) {
        return Err(format!("Oklab of the published white example = {:?}", l));
    }
    let l = xyz_to_oklab([1.0, 0.0, 0.0]);
    if !(close(l[0], 0.450, 1e-3) && close(l[1], 1.236, 1e-3) && close(l[2], -0.019, 1e-3)) {
        return Err(format!("Oklab of XYZ (1,0,0) = {:?}", l));
    }
    // sRGB red: Lab (53.24, 80.09, 67.20), HSLuv (12.177, 100, 53.237)
    let red = rgb_to_xyz(&standard("Srgb"), [1.0, 0.0, 0.0]);
    let lab = xyz_to_lab(red, D65);
    if !(close(lab[0], 53.24, 0.02) && close(lab[1], 80.09, 0.02) && close(lab[2], 67.20, 0.02)) {
        return Err(format!("Lab of sRGB red = {:?}", lab));
    }
    let luv = xyz_to_luv(red, D65);
    let lch = lab_to_lch(luv);
    let hs = lchuv_to_hsluv(lch);
    // (the HSLuv project derives its own sRGB matrix from the xy white; ours uses the tabulated XYZ white: 4e-3 in L)
    if !(close(hs[0], 12.177, 0.01) && close(hs[1], 100.0, 0.05) && close(hs[2], 53.237, 0.01)) {
        return Err(format!("HSLuv of sRGB red = {:?}", hs));
    }
    // Okhsl / Okhsv of sRGB red: Ottosson's picker gives okhsl(29.23, 1, 0.568), okhsv(29.23, 1, 1)
    let ok = linsrgb_to_oklab([1.0, 0.0, 0.0]);
    let hsl = oklab_to_okhsl(ok);
    let hsv = oklab_to_okhsv(ok);
    if !(close(hsl[0], 29.23, 0.01) && close(hsl[1], 1.0, 2e-3) && close(hsl[2], 0.568, 1e-3)) {
        return Err(format!("Okhsl of sRGB red = {:?}", hsl));
    }
    if !(close(hsv[0], 29.23, 0.01) && close(hsv[1], 1.0, 2e-3) && close(hsv[2], 1.0, 2e-3)) {
        return Err(format!("Okhsv of sRGB red = {:?}", hsv));
    }
    // round trips of the ports themselves
    for c in [[30.0, 0.5, 0.4], [200.0, 0.9, 0.7], [310.0, 0.2, 0.9]] {
        let b = oklab_to_okhsl(okhsl_to_oklab(c));
        let d = oklab_to_okhsv(okhsv_to_oklab(c));
        if !(close(b[0], c[0], 1e-6) && close(b[1], c[1], 1e-6) && close(b[2], c[2], 1e-6) && close(d[1], c[1], 1e-6) && close(d[2], c[2], 1e-6)) {
            return Err(format!("ok ports do not invert each other at {:?}: {:?} / {:?}", c, b, d));
        }
    }
    Ok(())
}
