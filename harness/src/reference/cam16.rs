//! CAM16 forward model in the form of Li, Li, Wang, Zu, Luo, Cui, Melgosa, Brill, Pointer (2017),
//! "Comprehensive color solutions: CAM16, CAT16, and CAM16-UCS" (with the +0.1 / -0.305 terms).
//! XYZ in, white and all, are on the 0..100 scale inside; the API takes the 0..1 scale.

#[derive(Debug, Clone, Copy)]
pub struct Conditions {
    pub white: [f64; 3],
    /// adapting luminance cd/m^2
    pub la: f64,
    /// relative background luminance (0..1, white Y = 1)
    pub yb: f64,
    /// surround as percent 0..20 (dark 0, dim 10, average 20); rows interpolated linearly (CIE 159)
    pub surround_percent: f64,
    /// None = automatic degree of adaptation
    pub discount: Option<f64>,
}

#[derive(Debug, Clone, Copy)]
pub struct Derived {
    pub f: f64,
    pub c: f64,
    pub nc: f64,
    pub fl: f64,
    pub n: f64,
    pub z: f64,
    pub nbb: f64,
    pub ncb: f64,
    pub d: f64,
    pub d_rgb: [f64; 3],
    pub aw: f64,
}

#[derive(Debug, Clone, Copy)]
pub struct Appearance {
    pub j: f64,
    pub c: f64,
    pub h: f64,
    pub q: f64,
    pub m: f64,
    pub s: f64,
    /// achromatic response before the lightness exponent (negative for some imaginary colours)
    pub a: f64,
}

const M16: [[f64; 3]; 3] = [[0.401288, 0.650173, -0.051461], [-0.250268, 1.204414, 0.045854], [-0.002079, 0.048952, 0.953127]];

fn m16(x: [f64; 3]) -> [f64; 3] {
    [
        M16[0][0] * x[0] + M16[0][1] * x[1] + M16[0][2] * x[2],
        M16[1][0] * x[0] + M16[1][1] * x[1] + M16[1][2] * x[2],
        M16[2][0] * x[0] + M16[2][1] * x[1] + M16[2][2] * x[2],
    ]
}

fn lerp(a: f64, b: f64, t: f64) -> f64 {
    a + (b - a) * t
}

fn adapt(fl: f64, c: f64) -> f64 {
    let x = (fl * c.abs() / 100.0).powf(0.42);
    c.signum() * 400.0 * x / (27.13 + x) + 0.1
}

pub fn derive(vc: &Conditions) -> Derived {
    let w = [vc.white[0] * 100.0, vc.white[1] * 100.0, vc.white[2] * 100.0];
    let yw = w[1];
    let p = vc.surround_percent.clamp(0.0, 20.0);
    // table rows: dark (0.8, 0.525, 0.8), dim (0.9, 0.59, 0.9), average (1.0, 0.69, 1.0)
    let (f, c) = if p >= 10.0 { (lerp(0.9, 1.0, (p - 10.0) / 10.0), lerp(0.59, 0.69, (p - 10.0) / 10.0)) } else { (lerp(0.8, 0.9, p / 10.0), lerp(0.525, 0.59, p / 10.0)) };
    let nc = f;
    let k = 1.0 / (5.0 * vc.la + 1.0);
    let k4 = k.powi(4);
    let fl = 0.2 * k4 * (5.0 * vc.la) + 0.1 * (1.0 - k4).powi(2) * (5.0 * vc.la).cbrt();
    let n = vc.yb * 100.0 / yw;
    let z = 1.48 + n.sqrt();
    let nbb = 0.725 * (1.0 / n).powf(0.2);
    let d = match vc.discount {
        Some(d) => d,
        None => f * (1.0 - (1.0 / 3.6) * ((-vc.la - 42.0) / 92.0).exp()),
    }
    .clamp(0.0, 1.0);
    let rgb_w = m16(w);
    let d_rgb = [d * yw / rgb_w[0] + 1.0 - d, d * yw / rgb_w[1] + 1.0 - d, d * yw / rgb_w[2] + 1.0 - d];
    let rgb_aw = [adapt(fl, d_rgb[0] * rgb_w[0]), adapt(fl, d_rgb[1] * rgb_w[1]), adapt(fl, d_rgb[2] * rgb_w[2])];
    let aw = (2.0 * rgb_aw[0] + rgb_aw[1] + rgb_aw[2] / 20.0 - 0.305) * nbb;
    Derived { f, c, nc, fl, n, z, nbb, ncb: nbb, d, d_rgb, aw }
}

pub fn forward(xyz: [f64; 3], vc: &Conditions) -> Appearance {
    let dp = derive(vc);
    let x = [xyz[0] * 100.0, xyz[1] * 100.0, xyz[2] * 100.0];
    let rgb = m16(x);
    let ra = [adapt(dp.fl, dp.d_rgb[0] * rgb[0]), adapt(dp.fl, dp.d_rgb[1] * rgb[1]), adapt(dp.fl, dp.d_rgb[2] * rgb[2])];
    let a = ra[0] - 12.0 * ra[1] / 11.0 + ra[2] / 11.0;
    let b = (ra[0] + ra[1] - 2.0 * ra[2]) / 9.0;
    let mut h = b.atan2(a).to_degrees();
    if h < 0.0 {
        h += 360.0;
    }
    let et = 0.25 * ((h.to_radians() + 2.0).cos() + 3.8);
    let big_a = (2.0 * ra[0] + ra[1] + ra[2] / 20.0 - 0.305) * dp.nbb;
    let j = 100.0 * (big_a / dp.aw).powf(dp.c * dp.z);
    let q = (4.0 / dp.c) * (j / 100.0).sqrt() * (dp.aw + 4.0) * dp.fl.powf(0.25);
    let t = (50000.0 / 13.0) * dp.nc * dp.ncb * et * (a * a + b * b).sqrt() / (ra[0] + ra[1] + 21.0 / 20.0 * ra[2]);
    let c = t.powf(0.9) * (j / 100.0).sqrt() * (1.64 - 0.29f64.powf(dp.n)).powf(0.73);
    let m = c * dp.fl.powf(0.25);
    let s = 100.0 * (m / q).sqrt();
    Appearance { j, c, h, q, m, s, a: big_a }
}

/// CAM16-UCS from (J, M, h)
pub fn ucs(j: f64, m: f64, h: f64) -> (f64, f64, f64, f64) {
    let jp = 1.7 * j / (1.0 + 0.007 * j);
    let mp = (1.0 + 0.0228 * m).ln() / 0.0228;
    (jp, mp, mp * h.to_radians().cos(), mp * h.to_radians().sin())
}

/// which correlates are given to the inverse model
#[derive(Debug, Clone, Copy)]
pub enum Lum {
    J(f64),
    Q(f64),
}
#[derive(Debug, Clone, Copy)]
pub enum Chr {
    C(f64),
    M(f64),
    S(f64),
}

/// Inverse model (Li et al. 2017, appendix; CIECAM02 inverse with CAT16). Returns XYZ on the 0..1
/// scale and the largest post-adaptation response magnitude |R'a - 0.1| (the inverse non-linearity
/// is undefined from 400 on).
pub fn inverse(lum: Lum, chr: Chr, h: f64, vc: &Conditions) -> ([f64; 3], f64) {
    let dp = derive(vc);
    let fl4 = dp.fl.powf(0.25);
    let (j, q) = match lum {
        Lum::J(j) => (j, (4.0 / dp.c) * (j / 100.0).sqrt() * (dp.aw + 4.0) * fl4),
        Lum::Q(q) => (6.25 * (dp.c * q / ((dp.aw + 4.0) * fl4)).powi(2), q),
    };
    let c = match chr {
        Chr::C(c) => c,
        Chr::M(m) => m / fl4,
        Chr::S(s) => (s / 100.0).powi(2) * q / fl4,
    };
    if j == 0.0 {
        return ([0.0; 3], 0.0);
    }
    let t = (c / ((j / 100.0).sqrt() * (1.64 - 0.29f64.powf(dp.n)).powf(0.73))).powf(1.0 / 0.9);
    let hr = h.to_radians();
    let et = 0.25 * ((hr + 2.0).cos() + 3.8);
    let a_resp = dp.aw * (j / 100.0).powf(1.0 / (dp.c * dp.z));
    let p2 = a_resp / dp.nbb + 0.305;
    let (a, b) = if t == 0.0 || !t.is_finite() {
        (0.0, 0.0)
    } else {
        let p1 = (50000.0 / 13.0) * dp.nc * dp.ncb * et / t;
        // gamma = 23 (p2) t-form (Schlomer's simplification of the two-branch CIECAM02 step)
        let gamma = 23.0 * p2 / (23.0 * p1 + 11.0 * hr.cos() + 108.0 * hr.sin());
        (gamma * hr.cos(), gamma * hr.sin())
    };
    let ra = [
        (460.0 * p2 + 451.0 * a + 288.0 * b) / 1403.0,
        (460.0 * p2 - 891.0 * a - 261.0 * b) / 1403.0,
        (460.0 * p2 - 220.0 * a - 6300.0 * b) / 1403.0,
    ];
    let mut worst: f64 = 0.0;
    let mut rgb = [0.0; 3];
    for i in 0..3 {
        let v = ra[i] - 0.1;
        worst = worst.max(v.abs());
        rgb[i] = v.signum() * 100.0 / dp.fl * (27.13 * v.abs() / (400.0 - v.abs())).powf(1.0 / 0.42) / dp.d_rgb[i];
    }
    // inverse of M16
    let m = M16;
    let det = m[0][0] * (m[1][1] * m[2][2] - m[1][2] * m[2][1]) - m[0][1] * (m[1][0] * m[2][2] - m[1][2] * m[2][0]) + m[0][2] * (m[1][0] * m[2][1] - m[1][1] * m[2][0]);
    let inv = [
        [(m[1][1] * m[2][2] - m[1][2] * m[2][1]) / det, (m[0][2] * m[2][1] - m[0][1] * m[2][2]) / det, (m[0][1] * m[1][2] - m[0][2] * m[1][1]) / det],
        [(m[1][2] * m[2][0] - m[1][0] * m[2][2]) / det, (m[0][0] * m[2][2] - m[0][2] * m[2][0]) / det, (m[0][2] * m[1][0] - m[0][0] * m[1][2]) / det],
        [(m[1][0] * m[2][1] - m[1][1] * m[2][0]) / det, (m[0][1] * m[2][0] - m[0][0] * m[2][1]) / det, (m[0][0] * m[1][1] - m[0][1] * m[1][0]) / det],
    ];
    let x = [
        (inv[0][0] * rgb[0] + inv[0][1] * rgb[1] + inv[0][2] * rgb[2]) / 100.0,
        (inv[1][0] * rgb[0] + inv[1][1] * rgb[1] + inv[1][2] * rgb[2]) / 100.0,
        (inv[2][0] * rgb[0] + inv[2][1] * rgb[1] + inv[2][2] * rgb[2]) / 100.0,
    ];
    (x, worst)
}
