//! Runner shared by all property binaries: seeded proptest workers, exhaustive sweeps,
//! known findings, replay files, evidence.

use proptest::strategy::Strategy;
use proptest::test_runner::{Config, RngSeed, TestCaseError, TestError, TestRunner};
use serde::de::DeserializeOwned;
use serde::Serialize;
use serde_json::{json, Value};
use std::cell::RefCell;
use std::collections::{BTreeMap, HashMap, HashSet};
use std::hash::{Hash, Hasher};
use std::panic::{catch_unwind, AssertUnwindSafe};
use std::path::PathBuf;
use std::sync::atomic::{AtomicUsize, Ordering};
use std::sync::Mutex;
use std::time::Instant;

pub const DEFAULT_SEED: u64 = 0x5EED_0A1E_77E5;
pub const WORKERS: usize = 16;

#[derive(Clone, Copy, PartialEq, Eq, Debug)]
pub enum Tier {
    Quick,
    Thorough,
}

#[derive(Debug, Clone)]
pub struct Fail {
    /// Signature of the root cause. Only failures whose key is listed as `open` in
    /// known_findings.txt are tolerated; everything else is a violation.
    pub key: Option<String>,
    pub msg: String,
}

impl Fail {
    pub fn new(msg: impl Into<String>) -> Fail {
        Fail { key: None, msg: msg.into() }
    }
    pub fn keyed(key: impl Into<String>, msg: impl Into<String>) -> Fail {
        Fail { key: Some(key.into()), msg: msg.into() }
    }
}

pub type PropResult = Result<(), Fail>;

#[macro_export]
macro_rules! fail {
    ($($arg:tt)*) => { return Err($crate::runner::Fail::new(format!($($arg)*))) };
}
#[macro_export]
macro_rules! fail_keyed {
    ($key:expr, $($arg:tt)*) => { return Err($crate::runner::Fail::keyed($key, format!($($arg)*))) };
}
#[macro_export]
macro_rules! ensure {
    ($cond:expr, $($arg:tt)*) => { if !($cond) { return Err($crate::runner::Fail::new(format!($($arg)*))) } };
}

thread_local! {
    static LAST_PANIC: RefCell<Option<String>> = RefCell::new(None);
}

fn install_panic_hook() {
    let verbose = std::env::var("PV_VERBOSE").is_ok();
    std::panic::set_hook(Box::new(move |info| {
        let msg = format!("{}", info);
        if verbose {
            eprintln!("[panic] {}", msg);
        }
        LAST_PANIC.with(|p| *p.borrow_mut() = Some(msg));
    }));
}

pub fn take_panic() -> String {
    LAST_PANIC.with(|p| p.borrow_mut().take()).unwrap_or_else(|| "panic".to_string())
}

/// Run `f`, turning a panic into `Err(message)`.
pub fn no_panic<T>(f: impl FnOnce() -> T) -> Result<T, String> {
    match catch_unwind(AssertUnwindSafe(f)) {
        Ok(v) => Ok(v),
        Err(_) => Err(take_panic()),
    }
}

static INTERN: Mutex<Option<HashSet<&'static str>>> = Mutex::new(None);
pub fn intern(s: &str) -> &'static str {
    let mut g = INTERN.lock().unwrap();
    let set = g.get_or_insert_with(HashSet::new);
    if let Some(x) = set.get(s) {
        return x;
    }
    let l: &'static str = Box::leak(s.to_string().into_boxed_str());
    set.insert(l);
    l
}

/// Per-worker observation record.
pub struct Obs {
    pub evals: u64,
    nontrivial_now: bool,
    classes: HashMap<&'static str, u64>,
    errs: HashMap<&'static str, f64>,
    err_updated: Vec<&'static str>,
    worst: HashMap<&'static str, Value>,
    frozen: bool,
    nontrivial_hashes: HashSet<u64>,
    /// sweep-only: inputs that were non-trivial (distinct by construction)
    pub sweep_nontrivial: u64,
    samples: Vec<Value>,
    known_hits: BTreeMap<String, u64>,
    fails: Vec<(Value, Fail)>,
    fail_count: u64,
    open_keys: Vec<String>,
    pub tier: Tier,
}

impl Obs {
    fn new(open_keys: Vec<String>, tier: Tier) -> Obs {
        Obs {
            evals: 0,
            nontrivial_now: false,
            classes: HashMap::new(),
            errs: HashMap::new(),
            err_updated: Vec::new(),
            worst: HashMap::new(),
            frozen: false,
            nontrivial_hashes: HashSet::new(),
            sweep_nontrivial: 0,
            samples: Vec::new(),
            known_hits: BTreeMap::new(),
            fails: Vec::new(),
            fail_count: 0,
            open_keys,
            tier,
        }
    }
    #[inline]
    pub fn class(&mut self, c: &'static str) {
        if !self.frozen {
            *self.classes.entry(c).or_insert(0) += 1;
        }
    }
    #[inline]
    pub fn class_n(&mut self, c: &'static str, n: u64) {
        if !self.frozen {
            *self.classes.entry(c).or_insert(0) += n;
        }
    }
    #[inline]
    pub fn nontrivial(&mut self) {
        self.nontrivial_now = true;
    }
    /// Sweep mode: read and reset the per-case non-trivial flag set by a point function.
    #[inline]
    pub fn take_nontrivial(&mut self) -> bool {
        let b = self.nontrivial_now;
        self.nontrivial_now = false;
        b
    }
    #[inline]
    pub fn nontrivial_if(&mut self, b: bool) {
        if b {
            self.nontrivial_now = true;
        }
    }
    /// Track the maximum of a named error measure (NaN counts as +inf).
    #[inline]
    pub fn err(&mut self, name: &'static str, v: f64) {
        if self.frozen {
            return;
        }
        let v = if v.is_nan() { f64::INFINITY } else { v };
        match self.errs.get_mut(name) {
            Some(old) => {
                if v > *old {
                    *old = v;
                    self.err_updated.push(name);
                }
            }
            None => {
                self.errs.insert(name, v);
                self.err_updated.push(name);
            }
        }
    }
    /// Sweep mode: attach the case that produced the current maximum.
    pub fn err_with<C: Serialize>(&mut self, name: &'static str, v: f64, case: impl FnOnce() -> C) {
        let v = if v.is_nan() { f64::INFINITY } else { v };
        let better = match self.errs.get(name) {
            Some(old) => v > *old,
            None => true,
        };
        if better {
            self.errs.insert(name, v);
            self.worst.insert(name, serde_json::to_value(case()).unwrap_or(Value::Null));
        }
    }
    pub fn sample<C: Serialize>(&mut self, case: &C) {
        if self.samples.len() < 4 {
            self.samples.push(serde_json::to_value(case).unwrap_or(Value::Null));
        }
    }
    fn is_open(&self, key: &Option<String>) -> bool {
        match key {
            Some(k) => self.open_keys.iter().any(|o| o == k),
            None => false,
        }
    }
    /// Sweep mode: report a failing case. Known (open) findings are counted, not reported.
    pub fn report<C: Serialize>(&mut self, case: &C, fail: Fail) {
        if self.is_open(&fail.key) {
            *self.known_hits.entry(fail.key.clone().unwrap()).or_insert(0) += 1;
            return;
        }
        self.fail_count += 1;
        if self.fails.len() < 8 {
            self.fails.push((serde_json::to_value(case).unwrap_or(Value::Null), fail));
        }
    }
    /// A failure with a known-finding key: if the key is listed as open it is counted and the
    /// property function carries on with its remaining clauses; otherwise it is returned as an error.
    pub fn known_or_fail(&mut self, fail: Fail) -> PropResult {
        if self.is_open(&fail.key) {
            if !self.frozen {
                *self.known_hits.entry(fail.key.clone().unwrap()).or_insert(0) += 1;
            }
            Ok(())
        } else {
            Err(fail)
        }
    }
    pub fn has_failures(&self) -> bool {
        self.fail_count > 0
    }
}

/// An observer whose records are discarded (for re-deriving a failure message).
pub fn scratch_obs() -> Obs {
    Obs::new(Vec::new(), Tier::Quick)
}

#[derive(Default)]
struct SubReport {
    name: String,
    evaluations: u64,
    distinct_nontrivial: u64,
    classes: BTreeMap<String, u64>,
    max_error: BTreeMap<String, f64>,
    worst: BTreeMap<String, Value>,
    samples: Vec<Value>,
    exhaustive: bool,
    known_hits: BTreeMap<String, u64>,
    failing_evaluations: u64,
    wall_s: f64,
}

struct Known {
    status: String,
    property: String,
    key: String,
    what: String,
}

enum Mode {
    Run,
    Replay { sub: String, case: Value, path: String },
}

pub struct Harness {
    pub id: &'static str,
    pub tier: Tier,
    pub seed: u64,
    mode: Mode,
    known: Vec<Known>,
    start: Instant,
    subs: Vec<SubReport>,
    violations: Vec<(String, String)>, // (replay path, msg)
    only: Option<String>,
    root: PathBuf,
    rule: String,
    assumptions: Vec<String>,
    extra: BTreeMap<String, Value>,
    replay_ran: bool,
    scale: f64,
}

fn hash64<T: Hash>(t: &T) -> u64 {
    let mut h = std::collections::hash_map::DefaultHasher::new();
    t.hash(&mut h);
    h.finish()
}

pub fn mix_seed(seed: u64, name: &str, idx: u64) -> u64 {
    // splitmix over (seed, fnv(name), idx); no dependence on process state
    let mut f: u64 = 0xcbf29ce484222325;
    for b in name.bytes() {
        f ^= b as u64;
        f = f.wrapping_mul(0x100000001b3);
    }
    let mut z = seed ^ f.rotate_left(17) ^ idx.wrapping_mul(0x9E3779B97F4A7C15);
    z = z.wrapping_add(0x9E3779B97F4A7C15);
    z = (z ^ (z >> 30)).wrapping_mul(0xBF58476D1CE4E5B9);
    z = (z ^ (z >> 27)).wrapping_mul(0x94D049BB133111EB);
    z ^ (z >> 31)
}

impl Harness {
    pub fn new(id: &'static str) -> Harness {
        install_panic_hook();
        let args: Vec<String> = std::env::args().collect();
        let mut tier = match std::env::var("VERIF_TIER").ok().as_deref() {
            Some("thorough") => Tier::Thorough,
            _ => Tier::Quick,
        };
        let mut mode = Mode::Run;
        let mut only = None;
        let mut i = 1;
        while i < args.len() {
            match args[i].as_str() {
                "quick" => tier = Tier::Quick,
                "thorough" => tier = Tier::Thorough,
                "--replay" => {
                    let path = args.get(i + 1).expect("--replay <file>").clone();
                    let txt = std::fs::read_to_string(&path).unwrap_or_else(|e| {
                        eprintln!("cannot read replay {}: {}", path, e);
                        std::process::exit(2)
                    });
                    let v: Value = serde_json::from_str(&txt).unwrap_or_else(|e| {
                        eprintln!("bad replay {}: {}", path, e);
                        std::process::exit(2)
                    });
                    mode = Mode::Replay {
                        sub: v["subcheck"].as_str().unwrap_or("").to_string(),
                        case: v["case"].clone(),
                        path,
                    };
                    i += 1;
                }
                "--only" => {
                    only = args.get(i + 1).cloned();
                    i += 1;
                }
                _ => {}
            }
            i += 1;
        }
        let seed = match std::env::var("VERIF_SEED").ok().and_then(|s| s.trim().parse::<i128>().ok()) {
            Some(0) | None => DEFAULT_SEED,
            Some(n) => n as u64,
        };
        let root = PathBuf::from(std::env::var("PV_ROOT").unwrap_or_else(|_| "/verif".to_string()));
        let known = load_known(&root);
        let scale = std::env::var("PV_SCALE").ok().and_then(|s| s.parse().ok()).unwrap_or(1.0);
        // watchdog: a run that exceeds its budget is inconclusive (exit 2), never a violation
        let limit = match tier {
            Tier::Quick => 25 * 60,
            Tier::Thorough => 5 * 3600,
        };
        let limit = std::env::var("PV_WATCHDOG_S").ok().and_then(|s| s.parse().ok()).unwrap_or(limit);
        std::thread::spawn(move || {
            std::thread::sleep(std::time::Duration::from_secs(limit));
            println!("INCONCLUSIVE property={} watchdog after {} s", id, limit);
            std::process::exit(2);
        });
        Harness {
            id,
            tier,
            seed,
            mode,
            known,
            start: Instant::now(),
            subs: Vec::new(),
            violations: Vec::new(),
            only,
            root,
            rule: String::new(),
            assumptions: Vec::new(),
            extra: BTreeMap::new(),
            replay_ran: false,
            scale,
        }
    }

    pub fn rule(&mut self, r: &str) {
        self.rule = r.to_string();
    }
    pub fn assume(&mut self, a: &str) {
        self.assumptions.push(a.to_string());
    }
    pub fn extra(&mut self, k: &str, v: Value) {
        self.extra.insert(k.to_string(), v);
    }
    pub fn is_thorough(&self) -> bool {
        self.tier == Tier::Thorough
    }
    /// replaying one saved case: sub-checks that only exist in the thorough tier must be registered as well
    pub fn is_replay(&self) -> bool {
        matches!(self.mode, Mode::Replay { .. })
    }
    /// pick a count by tier
    pub fn n(&self, quick: u64, thorough: u64) -> u64 {
        let n = match self.tier {
            Tier::Quick => quick,
            Tier::Thorough => thorough,
        };
        ((n as f64) * self.scale).max(1.0) as u64
    }

    fn open_keys(&self) -> Vec<String> {
        self.known
            .iter()
            .filter(|k| k.status == "open" && k.property == self.id)
            .map(|k| k.key.clone())
            .collect()
    }

    fn skip(&self, name: &str) -> bool {
        if let Some(o) = &self.only {
            if !name.contains(o.as_str()) {
                return true;
            }
        }
        false
    }

    fn committed_replays(&self, name: &str) -> Vec<(String, Value)> {
        let mut out = Vec::new();
        let dir = self.root.join("replays");
        let prefix = format!("{}-{}-", self.id, name);
        if let Ok(rd) = std::fs::read_dir(&dir) {
            let mut names: Vec<_> = rd.filter_map(|e| e.ok()).map(|e| e.path()).collect();
            names.sort();
            for p in names {
                let f = p.file_name().unwrap().to_string_lossy().to_string();
                if f.starts_with(&prefix) && f.ends_with(".json") {
                    if let Ok(txt) = std::fs::read_to_string(&p) {
                        if let Ok(v) = serde_json::from_str::<Value>(&txt) {
                            if v["subcheck"].as_str() == Some(name) {
                                out.push((p.to_string_lossy().to_string(), v["case"].clone()));
                            }
                        }
                    }
                }
            }
        }
        out
    }

    fn write_replay(&mut self, name: &str, case: &Value, fail: &Fail) -> String {
        let dir = self.root.join("replays");
        let _ = std::fs::create_dir_all(&dir);
        let body = json!({
            "property": self.id,
            "subcheck": name,
            "key": fail.key,
            "msg": fail.msg,
            "seed": self.seed,
            "case": case,
        });
        let h = hash64(&serde_json::to_string(case).unwrap_or_default());
        let path = dir.join(format!("{}-{}-{:016x}.json", self.id, name, h));
        let _ = std::fs::write(&path, serde_json::to_string_pretty(&body).unwrap());
        path.to_string_lossy().to_string()
    }

    fn violation(&mut self, name: &str, case: &Value, fail: &Fail) {
        // de-duplicate by (subcheck, key-or-message prefix)
        // (numbers are removed from un-keyed messages so that one root cause gives one replay)
        let sig = format!(
            "{}|{}|",
            name,
            fail.key.clone().unwrap_or_else(|| fail.msg.chars().filter(|c| !c.is_ascii_digit() && *c != '-' && *c != '.').take(48).collect())
        );
        if self.violations.iter().any(|(_, m)| m.starts_with(&sig)) {
            return;
        }
        if self.violations.iter().filter(|(_, m)| m.starts_with(&format!("{}|", name))).count() >= 4 {
            return;
        }
        let path = self.write_replay(name, case, fail);
        println!("VIOLATION property={} replay={}", self.id, path);
        println!("  subcheck={} key={:?}", name, fail.key);
        println!("  {}", fail.msg.replace('\n', "\n  "));
        let cs = serde_json::to_string(case).unwrap_or_default();
        println!("  case={}", if cs.len() > 600 { &cs[..600] } else { &cs });
        self.violations.push((path, format!("{}{}", sig, fail.msg)));
    }

    /// A generated-input sub-check. `prop` is evaluated on `cases` generated values spread over
    /// up to 16 deterministic workers; the first failure of each worker is shrunk by proptest.
    pub fn prop<C, S, F, P>(&mut self, name: &'static str, cases: u64, strat: F, prop: P)
    where
        C: std::fmt::Debug + Clone + Serialize + DeserializeOwned + Send,
        S: Strategy<Value = C>,
        F: Fn() -> S + Sync,
        P: Fn(&C, &mut Obs) -> PropResult + Sync,
    {
        if self.skip(name) {
            return;
        }
        let open = self.open_keys();
        // replay mode
        if let Mode::Replay { sub, case, path } = &self.mode {
            if sub != name {
                return;
            }
            self.replay_ran = true;
            let path = path.clone();
            let c: C = match serde_json::from_value(case.clone()) {
                Ok(c) => c,
                Err(e) => {
                    println!("replay case does not deserialize for {}: {}", name, e);
                    std::process::exit(2);
                }
            };
            let mut obs = Obs::new(open, self.tier);
            let r = run_one(&prop, &c, &mut obs);
            match r {
                Ok(()) => println!("REPLAY-PASS property={} subcheck={} file={}", self.id, name, path),
                Err(f) => {
                    if obs.is_open(&f.key) {
                        self.print_known(&f.key.clone().unwrap());
                    } else {
                        println!("VIOLATION property={} replay={}", self.id, path);
                        println!("  subcheck={} key={:?}\n  {}", name, f.key, f.msg);
                        self.violations.push((path, f.msg));
                    }
                }
            }
            return;
        }
        let t0 = Instant::now();
        let mut rep = SubReport { name: name.to_string(), ..Default::default() };
        // committed replays first (regression tier)
        for (path, case) in self.committed_replays(name) {
            if let Ok(c) = serde_json::from_value::<C>(case.clone()) {
                let mut obs = Obs::new(open.clone(), self.tier);
                if let Err(f) = run_one(&prop, &c, &mut obs) {
                    if obs.is_open(&f.key) {
                        *rep.known_hits.entry(f.key.clone().unwrap()).or_insert(0) += 1;
                    } else {
                        println!("VIOLATION property={} replay={}", self.id, path);
                        println!("  (committed replay) subcheck={} key={:?}\n  {}", name, f.key, f.msg);
                        self.violations.push((path, format!("{}|replay|{}", name, f.msg)));
                    }
                }
                rep.evaluations += 1;
            }
        }
        let cases = ((cases as f64) * self.scale).max(1.0) as u64;
        let workers = ((cases / 64).max(1) as usize).min(WORKERS);
        let seed = self.seed;
        let tier = self.tier;
        let results: Vec<(Obs, Option<(C, Fail)>)> = std::thread::scope(|s| {
            let mut hs = Vec::new();
            for w in 0..workers {
                let open = open.clone();
                let strat = &strat;
                let prop = &prop;
                let n = cases / workers as u64 + if (w as u64) < cases % workers as u64 { 1 } else { 0 };
                hs.push(s.spawn(move || {
                    let mut obs = Obs::new(open, tier);
                    let cfg = Config {
                        cases: n as u32,
                        failure_persistence: None,
                        rng_seed: RngSeed::Fixed(mix_seed(seed, name, w as u64)),
                        max_shrink_iters: 20_000,
                        max_global_rejects: 1 << 30,
                        ..Config::default()
                    };
                    let mut runner = TestRunner::new(cfg);
                    let strategy = strat();
                    let obs_cell = RefCell::new(&mut obs);
                    let trace = std::env::var("PV_TRACE").is_ok();
                    let res = runner.run(&strategy, |case| {
                        if trace {
                            eprintln!("[trace w{}] {:?}", w, case);
                        }
                        let mut o = obs_cell.borrow_mut();
                        let o: &mut Obs = &mut **o;
                        match run_one(prop, &case, o) {
                            Ok(()) => {
                                finish_case(o, &case);
                                Ok(())
                            }
                            Err(f) => {
                                if o.is_open(&f.key) {
                                    if !o.frozen {
                                        *o.known_hits.entry(f.key.clone().unwrap()).or_insert(0) += 1;
                                    }
                                    finish_case(o, &case);
                                    Ok(())
                                } else {
                                    finish_case(o, &case);
                                    o.frozen = true;
                                    Err(TestCaseError::fail(f.msg))
                                }
                            }
                        }
                    });
                    drop(obs_cell);
                    let failure = match res {
                        Ok(()) => None,
                        Err(TestError::Fail(_, minimal)) => {
                            let mut o2 = Obs::new(obs.open_keys.clone(), tier);
                            let f = match run_one(prop, &minimal, &mut o2) {
                                Err(f) => f,
                                Ok(()) => Fail::new("shrunk case passes on re-run (non-deterministic property?)"),
                            };
                            Some((minimal, f))
                        }
                        Err(TestError::Abort(r)) => {
                            println!("INCONCLUSIVE property=? generator aborted in {}: {}", name, r);
                            std::process::exit(2);
                        }
                    };
                    (obs, failure)
                }));
            }
            hs.into_iter().map(|h| h.join().expect("worker thread")).collect()
        });
        let mut hashes: HashSet<u64> = HashSet::new();
        for (obs, failure) in results {
            merge_obs(&mut rep, &obs);
            hashes.extend(obs.nontrivial_hashes.iter());
            if let Some((c, f)) = failure {
                rep.failing_evaluations += 1;
                let v = serde_json::to_value(&c).unwrap_or(Value::Null);
                self.violation(name, &v, &f);
            }
        }
        rep.distinct_nontrivial += hashes.len() as u64;
        rep.wall_s = t0.elapsed().as_secs_f64();
        self.log_sub(&rep);
        self.subs.push(rep);
    }

    /// An enumerating sub-check: `chunk(i, obs)` enumerates chunk `i` of `nchunks` and reports
    /// failing cases with `obs.report`; `point` re-checks one case (used for replay files).
    pub fn sweep<C, P, K>(&mut self, name: &'static str, exhaustive: bool, nchunks: usize, point: P, chunk: K)
    where
        C: std::fmt::Debug + Clone + Serialize + DeserializeOwned + Send,
        P: Fn(&C, &mut Obs) -> PropResult + Sync,
        K: Fn(usize, &mut Obs) + Sync,
    {
        if self.skip(name) {
            return;
        }
        let open = self.open_keys();
        if let Mode::Replay { sub, case, path } = &self.mode {
            if sub != name {
                return;
            }
            self.replay_ran = true;
            let path = path.clone();
            let c: C = match serde_json::from_value(case.clone()) {
                Ok(c) => c,
                Err(e) => {
                    println!("replay case does not deserialize for {}: {}", name, e);
                    std::process::exit(2);
                }
            };
            let mut obs = Obs::new(open, self.tier);
            match run_one(&point, &c, &mut obs) {
                Ok(()) => println!("REPLAY-PASS property={} subcheck={} file={}", self.id, name, path),
                Err(f) => {
                    if obs.is_open(&f.key) {
                        self.print_known(&f.key.clone().unwrap());
                    } else {
                        println!("VIOLATION property={} replay={}", self.id, path);
                        println!("  subcheck={} key={:?}\n  {}", name, f.key, f.msg);
                        self.violations.push((path, f.msg));
                    }
                }
            }
            return;
        }
        let t0 = Instant::now();
        let mut rep = SubReport { name: name.to_string(), exhaustive, ..Default::default() };
        for (path, case) in self.committed_replays(name) {
            if let Ok(c) = serde_json::from_value::<C>(case.clone()) {
                let mut obs = Obs::new(open.clone(), self.tier);
                if let Err(f) = run_one(&point, &c, &mut obs) {
                    if obs.is_open(&f.key) {
                        *rep.known_hits.entry(f.key.clone().unwrap()).or_insert(0) += 1;
                    } else {
                        println!("VIOLATION property={} replay={}", self.id, path);
                        println!("  (committed replay) subcheck={} key={:?}\n  {}", name, f.key, f.msg);
                        self.violations.push((path, format!("{}|replay|{}", name, f.msg)));
                    }
                }
                rep.evaluations += 1;
            }
        }
        let next = AtomicUsize::new(0);
        let tier = self.tier;
        let threads = WORKERS.min(nchunks.max(1));
        let results: Vec<Obs> = std::thread::scope(|s| {
            let mut hs = Vec::new();
            for _ in 0..threads {
                let open = open.clone();
                let next = &next;
                let chunk = &chunk;
                hs.push(s.spawn(move || {
                    let mut obs = Obs::new(open, tier);
                    loop {
                        let i = next.fetch_add(1, Ordering::Relaxed);
                        if i >= nchunks {
                            break;
                        }
                        if let Err(_) = catch_unwind(AssertUnwindSafe(|| chunk(i, &mut obs))) {
                            let msg = take_panic();
                            obs.report(&json!({"chunk": i}), Fail::keyed("panic-in-sweep", msg));
                        }
                    }
                    obs
                }));
            }
            hs.into_iter().map(|h| h.join().expect("sweep thread")).collect()
        });
        let mut all_fails: Vec<(Value, Fail)> = Vec::new();
        for obs in results {
            merge_obs(&mut rep, &obs);
            rep.distinct_nontrivial += obs.sweep_nontrivial;
            rep.failing_evaluations += obs.fail_count;
            all_fails.extend(obs.fails.into_iter());
        }
        // deterministic order irrespective of thread scheduling
        all_fails.sort_by(|a, b| serde_json::to_string(&a.0).unwrap().cmp(&serde_json::to_string(&b.0).unwrap()));
        for (v, f) in all_fails.iter().take(16) {
            self.violation(name, v, f);
        }
        rep.wall_s = t0.elapsed().as_secs_f64();
        self.log_sub(&rep);
        self.subs.push(rep);
    }

    fn log_sub(&self, rep: &SubReport) {
        // the twelve largest worst-errors on the console (all of them are in the evidence file)
        let mut ranked: Vec<(&String, &f64)> = rep.max_error.iter().collect();
        ranked.sort_by(|a, b| b.1.partial_cmp(a.1).unwrap_or(std::cmp::Ordering::Equal).then(a.0.cmp(b.0)));
        let mut errs: Vec<String> = ranked.iter().take(12).map(|(k, v)| format!("{}={:.3e}", k, v)).collect();
        if ranked.len() > 12 {
            errs.push(format!("(+{} more in the evidence file)", ranked.len() - 12));
        }
        println!(
            "[{}] {:<34} evals={:<11} nontrivial={:<10} known_hits={} failing={} {:.1}s {}{}",
            self.id,
            rep.name,
            rep.evaluations,
            rep.distinct_nontrivial,
            rep.known_hits.values().sum::<u64>(),
            rep.failing_evaluations,
            rep.wall_s,
            if rep.exhaustive { "exhaustive " } else { "" },
            errs.join(" ")
        );
        if std::env::var("PV_CLASSES").is_ok() {
            for (k, v) in &rep.classes {
                println!("      class {:<40} {}", k, v);
            }
        }
    }

    fn print_known(&self, key: &str) {
        for k in &self.known {
            if k.key == key && k.status == "open" {
                println!("KNOWN-FINDING: property={} {} [{}]", k.property, k.what, k.key);
            }
        }
    }

    /// Require that a class was generated at least `min` times in sub-check `sub` (generator health).
    pub fn require_class(&mut self, sub: &str, class: &str, min: u64) {
        if let Mode::Replay { .. } = self.mode {
            return;
        }
        if self.only.is_some() || !self.violations.is_empty() {
            // workers stop at their first failure, so class counts are not meaningful then
            return;
        }
        let got = self
            .subs
            .iter()
            .filter(|s| s.name == sub)
            .map(|s| s.classes.get(class).copied().unwrap_or(0))
            .sum::<u64>();
        if got < min {
            println!(
                "INCONCLUSIVE property={} generator health: class '{}' in '{}' occurred {} < {} times",
                self.id, class, sub, got, min
            );
            self.write_evidence();
            std::process::exit(2);
        }
    }

    fn write_evidence(&self) {
        let evaluations: u64 = self.subs.iter().map(|s| s.evaluations).sum();
        let dn: u64 = self.subs.iter().map(|s| s.distinct_nontrivial).sum();
        let mut samples: Vec<Value> = Vec::new();
        let mut subs = serde_json::Map::new();
        let mut known_total: BTreeMap<String, u64> = BTreeMap::new();
        for s in &self.subs {
            for smp in s.samples.iter().take(3) {
                samples.push(json!({"subcheck": s.name, "case": smp}));
            }
            for (k, v) in &s.known_hits {
                *known_total.entry(k.clone()).or_insert(0) += v;
            }
            // the input behind each worst error - for the 40 largest errors only (a sub-check with thousands of error names,
            // one per table entry, would otherwise make the evidence file several MB)
            let mut worst = serde_json::Map::new();
            let mut ranked: Vec<(&String, f64)> = s.worst.keys().map(|k| (k, s.max_error.get(k).copied().unwrap_or(0.0))).collect();
            ranked.sort_by(|a, b| b.1.partial_cmp(&a.1).unwrap_or(std::cmp::Ordering::Equal).then(a.0.cmp(b.0)));
            for (k, _) in ranked.iter().take(40) {
                worst.insert((*k).clone(), s.worst[*k].clone());
            }
            let worst_omitted = ranked.len().saturating_sub(40);
            subs.insert(
                s.name.clone(),
                json!({
                    "evaluations": s.evaluations,
                    "distinct_nontrivial": s.distinct_nontrivial,
                    "exhaustive": s.exhaustive,
                    "classes": s.classes,
                    "max_error": s.max_error.iter().map(|(k,v)| (k.clone(), if v.is_finite() { json!(v) } else { json!(format!("{}", v)) })).collect::<serde_json::Map<_,_>>(),
                    "worst_case": worst,
                    "worst_case_omitted": worst_omitted,
                    "known_finding_hits": s.known_hits,
                    "failing_evaluations": s.failing_evaluations,
                    "wall_s": s.wall_s,
                }),
            );
        }
        if samples.is_empty() {
            samples.push(json!("no sample recorded"));
        }
        let all_exh = !self.subs.is_empty() && self.subs.iter().all(|s| s.exhaustive);
        let mut coverage = serde_json::Map::new();
        coverage.insert("evaluations".into(), json!(evaluations));
        coverage.insert("distinct_nontrivial".into(), json!(dn));
        coverage.insert("rule".into(), json!(self.rule));
        coverage.insert("samples".into(), Value::Array(samples));
        coverage.insert("exhaustive".into(), json!(all_exh));
        coverage.insert(
            "exhaustive_subchecks".into(),
            json!(self.subs.iter().filter(|s| s.exhaustive).map(|s| s.name.clone()).collect::<Vec<_>>()),
        );
        coverage.insert("subchecks".into(), Value::Object(subs));
        coverage.insert("known_finding_hits".into(), json!(known_total));
        for (k, v) in &self.extra {
            coverage.insert(k.clone(), v.clone());
        }
        let ev = json!({
            "property_id": self.id,
            "tier": match self.tier { Tier::Quick => "quick", Tier::Thorough => "thorough" },
            "seed": self.seed as i64,
            "level": "exploration",
            "coverage": Value::Object(coverage),
            "assumptions": self.assumptions,
            "wall_s": self.start.elapsed().as_secs_f64(),
            "violations": self.violations.len(),
        });
        let dir = self.root.join("evidence");
        let _ = std::fs::create_dir_all(&dir);
        // a stage that re-runs the binary under another executor (Miri) writes its own file and leaves the main one alone
        let suffix = std::env::var("PV_EVIDENCE_SUFFIX").unwrap_or_default();
        let path = dir.join(format!("{}{}.json", self.id, suffix));
        std::fs::write(&path, serde_json::to_string_pretty(&ev).unwrap()).expect("write evidence");
    }

    pub fn finish(mut self) -> ! {
        if let Mode::Replay { sub, .. } = &self.mode {
            if !self.replay_ran {
                println!("replay: no sub-check named '{}' in {}", sub, self.id);
                std::process::exit(2);
            }
            std::process::exit(if self.violations.is_empty() { 0 } else { 1 });
        }
        // known findings that were hit
        let mut hit: BTreeMap<String, u64> = BTreeMap::new();
        for s in &self.subs {
            for (k, v) in &s.known_hits {
                *hit.entry(k.clone()).or_insert(0) += v;
            }
        }
        for (k, n) in &hit {
            for kn in &self.known {
                if &kn.key == k && kn.status == "open" {
                    println!("KNOWN-FINDING: property={} {} [{}; {} generated cases hit it]", kn.property, kn.what, kn.key, n);
                }
            }
        }
        if self.only.is_none() {
            self.write_evidence();
        }
        let evals: u64 = self.subs.iter().map(|s| s.evaluations).sum();
        let dn: u64 = self.subs.iter().map(|s| s.distinct_nontrivial).sum();
        println!(
            "[{}] done: tier={:?} seed={} evaluations={} distinct_nontrivial={} violations={} wall={:.1}s",
            self.id,
            self.tier,
            self.seed,
            evals,
            dn,
            self.violations.len(),
            self.start.elapsed().as_secs_f64()
        );
        self.subs.clear();
        std::process::exit(if self.violations.is_empty() { 0 } else { 1 });
    }
}

fn run_one<C, P>(prop: &P, case: &C, obs: &mut Obs) -> PropResult
where
    P: Fn(&C, &mut Obs) -> PropResult,
{
    obs.nontrivial_now = false;
    obs.err_updated.clear();
    match catch_unwind(AssertUnwindSafe(|| prop(case, obs))) {
        Ok(r) => r,
        Err(_) => Err(Fail::keyed("panic", format!("panicked: {}", take_panic()))),
    }
}

fn finish_case<C: Serialize>(o: &mut Obs, case: &C) {
    if o.frozen {
        return;
    }
    o.evals += 1;
    let need_json = o.nontrivial_now || !o.err_updated.is_empty();
    if need_json {
        let bytes = serde_json::to_vec(case).unwrap_or_default();
        if o.nontrivial_now {
            o.nontrivial_hashes.insert(hash64(&bytes));
            if o.samples.len() < 3 {
                if let Ok(v) = serde_json::from_slice::<Value>(&bytes) {
                    o.samples.push(v);
                }
            }
        }
        if !o.err_updated.is_empty() {
            if let Ok(v) = serde_json::from_slice::<Value>(&bytes) {
                let names: Vec<&'static str> = o.err_updated.drain(..).collect();
                for n in names {
                    o.worst.insert(n, v.clone());
                }
            }
        }
    }
}

fn merge_obs(rep: &mut SubReport, obs: &Obs) {
    rep.evaluations += obs.evals;
    for (k, v) in &obs.classes {
        *rep.classes.entry(k.to_string()).or_insert(0) += v;
    }
    for (k, v) in &obs.errs {
        let e = rep.max_error.entry(k.to_string()).or_insert(f64::NEG_INFINITY);
        if *v > *e || !rep.worst.contains_key(*k) {
            if *v >= *e {
                *e = *v;
                if let Some(w) = obs.worst.get(k) {
                    rep.worst.insert(k.to_string(), w.clone());
                }
            }
        }
    }
    for (k, v) in &obs.known_hits {
        *rep.known_hits.entry(k.clone()).or_insert(0) += v;
    }
    for s in &obs.samples {
        if rep.samples.len() < 6 {
            rep.samples.push(s.clone());
        }
    }
}

fn load_known(root: &PathBuf) -> Vec<Known> {
    let mut out = Vec::new();
    let path = root.join("known_findings.txt");
    if let Ok(txt) = std::fs::read_to_string(path) {
        for line in txt.lines() {
            let line = line.trim();
            if line.is_empty() || line.starts_with('#') {
                continue;
            }
            // open: property=C07 key=<key> <what>
            // fixed: property=C03 <commit> <what>
            let (status, rest) = match line.split_once(':') {
                Some((s, r)) => (s.trim().to_string(), r.trim()),
                None => continue,
            };
            let mut property = String::new();
            let mut key = String::new();
            let mut what = Vec::new();
            for tok in rest.split_whitespace() {
                if property.is_empty() && tok.starts_with("property=") {
                    property = tok["property=".len()..].to_string();
                } else if key.is_empty() && tok.starts_with("key=") {
                    key = tok["key=".len()..].to_string();
                } else {
                    what.push(tok);
                }
            }
            out.push(Known { status, property, key, what: what.join(" ") });
        }
    }
    out
}
