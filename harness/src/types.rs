//! The concrete type matrix (DESIGN 3.1), colour embeddings (3.3) and per-space generators (3.2).
#![allow(clippy::type_complexity)]
use palette::convert::{FromColorUnclamped, TryFromColor};
use palette::encoding::{AdobeRgb, DciP3, DisplayP3, Linear, ProPhotoRgb, Rec2020, Rec709};
use palette::lms::matrix::{Bradford, VonKries, WithLmsMatrix};
use palette::rgb::Rgb;
use palette::white_point::{D50, D65};
use palette::{Alpha, FromColor};
use proptest::prelude::*;

type ESrgb = palette::encoding::Srgb;

pub trait Tri<T>: Sized + Copy {
    fn from3(a: [T; 3]) -> Self;
    fn to3(self) -> [T; 3];
}

macro_rules! tri3 {
    ($ty:ty, $t:ty) => {
        impl Tri<$t> for $ty {
            #[inline]
            fn from3(a: [$t; 3]) -> Self {
                a.into()
            }
            #[inline]
            fn to3(self) -> [$t; 3] {
                self.into()
            }
        }
    };
}
macro_rules! tri1 {
    ($ty:ty, $t:ty) => {
        impl Tri<$t> for $ty {
            #[inline]
            fn from3(a: [$t; 3]) -> Self {
                [a[0]].into()
            }
            #[inline]
            fn to3(self) -> [$t; 3] {
                let [l]: [$t; 1] = self.into();
                [l, 0.0, 0.0]
            }
        }
    };
}

pub struct Conv {
    pub a: usize,
    pub b: usize,
    pub k18: bool,
    pub u64_: fn([f64; 3]) -> [f64; 3],
    pub u32_: fn([f32; 3]) -> [f32; 3],
    pub c64: fn([f64; 3]) -> [f64; 3],
    pub c32: fn([f32; 3]) -> [f32; 3],
    pub t64: fn([f64; 3]) -> (bool, [f64; 3]),
    pub t32: fn([f32; 3]) -> (bool, [f32; 3]),
    pub a64: fn([f64; 4]) -> [f64; 4],
    pub a32: fn([f32; 4]) -> [f32; 4],
    pub drop64: fn([f64; 4]) -> [f64; 3],
    pub add64: fn([f64; 3]) -> [f64; 4],
    pub ac64: fn([f64; 4]) -> [f64; 4],
}

pub fn cu<A, B, T>(a: [T; 3]) -> [T; 3]
where
    A: Tri<T>,
    B: Tri<T> + FromColorUnclamped<A>,
{
    B::from_color_unclamped(A::from3(a)).to3()
}
pub fn cc<A, B, T>(a: [T; 3]) -> [T; 3]
where
    A: Tri<T>,
    B: Tri<T> + FromColor<A>,
{
    B::from_color(A::from3(a)).to3()
}
pub fn ct<A, B, T>(a: [T; 3]) -> (bool, [T; 3])
where
    A: Tri<T>,
    B: Tri<T> + TryFromColor<A>,
{
    match B::try_from_color(A::from3(a)) {
        Ok(v) => (true, v.to3()),
        Err(e) => (false, e.color().to3()),
    }
}
pub fn ca<A, B, T: Copy>(a: [T; 4]) -> [T; 4]
where
    A: Tri<T>,
    B: Tri<T>,
    Alpha<B, T>: FromColorUnclamped<Alpha<A, T>>,
{
    let r = <Alpha<B, T>>::from_color_unclamped(Alpha { color: A::from3([a[0], a[1], a[2]]), alpha: a[3] });
    let c = r.color.to3();
    [c[0], c[1], c[2], r.alpha]
}
pub fn cac<A, B, T: Copy>(a: [T; 4]) -> [T; 4]
where
    A: Tri<T>,
    B: Tri<T>,
    Alpha<B, T>: FromColor<Alpha<A, T>>,
{
    let r = <Alpha<B, T>>::from_color(Alpha { color: A::from3([a[0], a[1], a[2]]), alpha: a[3] });
    let c = r.color.to3();
    [c[0], c[1], c[2], r.alpha]
}
pub fn cdrop<A, B, T: Copy>(a: [T; 4]) -> [T; 3]
where
    A: Tri<T>,
    B: Tri<T> + FromColorUnclamped<Alpha<A, T>>,
{
    B::from_color_unclamped(Alpha { color: A::from3([a[0], a[1], a[2]]), alpha: a[3] }).to3()
}
pub fn cadd<A, B, T: Copy>(a: [T; 3]) -> [T; 4]
where
    A: Tri<T>,
    B: Tri<T>,
    Alpha<B, T>: FromColorUnclamped<A>,
{
    let r = <Alpha<B, T>>::from_color_unclamped(A::from3(a));
    let c = r.color.to3();
    [c[0], c[1], c[2], r.alpha]
}

macro_rules! conv {
    ($a:expr, $b:expr, $k:expr, $A64:ty, $B64:ty, $A32:ty, $B32:ty) => {
        Conv {
            a: $a,
            b: $b,
            k18: $k,
            u64_: cu::<$A64, $B64, f64>,
            u32_: cu::<$A32, $B32, f32>,
            c64: cc::<$A64, $B64, f64>,
            c32: cc::<$A32, $B32, f32>,
            t64: ct::<$A64, $B64, f64>,
            t32: ct::<$A32, $B32, f32>,
            a64: ca::<$A64, $B64, f64>,
            a32: ca::<$A32, $B32, f32>,
            drop64: cdrop::<$A64, $B64, f64>,
            add64: cadd::<$A64, $B64, f64>,
            ac64: cac::<$A64, $B64, f64>,
        }
    };
}

include!("types_gen.rs");

// ------------------------------------------------------------------------------------------
// per-space description: component kinds (nominal ranges) and the cartesian embedding
#[derive(Clone, Copy, Debug, PartialEq)]
pub enum Comp {
    /// linear component with nominal range [min, max]
    Lin(f64, f64),
    Hue,
    /// unused slot (single-channel luma)
    None,
}

#[derive(Clone, Copy, Debug, PartialEq)]
pub enum Shape {
    Rect,
    /// [l, chroma, hue]
    Lch,
    /// [hue, s, l] bicone with s relative to the chroma available at l
    Hsl,
    /// [hue, s, v] cone
    Hsv,
    /// [hue, whiteness, blackness]
    Hwb,
    /// [x, y, luma]
    Yxy,
    Luma,
}

#[derive(Clone, Copy, Debug)]
pub struct SpaceInfo {
    pub name: &'static str,
    pub comps: [Comp; 3],
    pub shape: Shape,
    /// the space only represents colours inside an RGB gamut (nominal box == gamut)
    pub gamut_bounded: bool,
}

pub fn space_info(i: usize) -> SpaceInfo {
    let name = SPACE_NAMES[i];
    let base = name.split('<').next().unwrap();
    use Comp::*;
    let u = Lin(0.0, 1.0);
    let (comps, shape, gb) = match base {
        "Srgb" | "LinSrgb" | "AdobeRgb" | "LinAdobeRgb" | "Rec709" | "Rec2020" | "LinRec2020" | "DisplayP3" | "LinDisplayP3" | "DciP3" | "LinDciP3" | "ProPhoto" | "LinProPhoto" => ([u, u, u], Shape::Rect, true),
        "Xyz" => ([Lin(0.0, 0.96), Lin(0.0, 1.0), Lin(0.0, 1.09)], Shape::Rect, false),
        "Yxy" => ([Lin(0.0, 1.0), Lin(0.0, 1.0), Lin(0.0, 1.0)], Shape::Yxy, false),
        "Lab" => ([Lin(0.0, 100.0), Lin(-128.0, 127.0), Lin(-128.0, 127.0)], Shape::Rect, false),
        "Lch" => ([Lin(0.0, 100.0), Lin(0.0, 128.0), Hue], Shape::Lch, false),
        "Luv" => ([Lin(0.0, 100.0), Lin(-84.0, 176.0), Lin(-135.0, 108.0)], Shape::Rect, false),
        "Lchuv" => ([Lin(0.0, 100.0), Lin(0.0, 180.0), Hue], Shape::Lch, false),
        "Hsluv" => ([Hue, Lin(0.0, 100.0), Lin(0.0, 100.0)], Shape::Hsl, true),
        "Hsl" => ([Hue, u, u], Shape::Hsl, true),
        "Hsv" => ([Hue, u, u], Shape::Hsv, true),
        "Hwb" => ([Hue, u, u], Shape::Hwb, true),
        "Oklab" => ([Lin(0.0, 1.0), Lin(-0.4, 0.4), Lin(-0.4, 0.4)], Shape::Rect, false),
        "Oklch" => ([Lin(0.0, 1.0), Lin(0.0, 0.4), Hue], Shape::Lch, false),
        "Okhsl" => ([Hue, u, u], Shape::Hsl, true),
        "Okhsv" => ([Hue, u, u], Shape::Hsv, true),
        "Okhwb" => ([Hue, u, u], Shape::Hwb, true),
        "Lms" => ([u, u, u], Shape::Rect, false),
        "Luma" | "LinLuma" => ([u, None, None], Shape::Luma, true),
        _ => panic!("no info for {}", name),
    };
    SpaceInfo { name, comps, shape, gamut_bounded: gb }
}

fn range(c: Comp) -> f64 {
    match c {
        Comp::Lin(a, b) => (b - a).abs().max(a.abs()).max(b.abs()),
        _ => 1.0,
    }
}

/// Cartesian embedding in which equal colours have equal images (DESIGN 3.3).
pub fn embed(info: &SpaceInfo, c: [f64; 3]) -> [f64; 3] {
    let r = |i: usize| range(info.comps[i]);
    match info.shape {
        Shape::Rect => [c[0] / r(0), c[1] / r(1), c[2] / r(2)],
        Shape::Luma => [c[0], 0.0, 0.0],
        Shape::Yxy => [c[0] * c[2], c[1] * c[2], c[2]],
        Shape::Lch => {
            let h = c[2].to_radians();
            [c[0] / r(0), c[1] * h.cos() / r(1), c[1] * h.sin() / r(1)]
        }
        Shape::Hsl => {
            let (s, l) = (c[1] / r(1), c[2] / r(2));
            let w = 1.0 - (2.0 * l - 1.0).abs();
            let h = c[0].to_radians();
            [s * w * h.cos(), s * w * h.sin(), l]
        }
        Shape::Hsv => {
            let h = c[0].to_radians();
            [c[1] * c[2] * h.cos(), c[1] * c[2] * h.sin(), c[2]]
        }
        Shape::Hwb => {
            let v = 1.0 - c[2];
            let ch = v - c[1];
            let h = c[0].to_radians();
            [ch * h.cos(), ch * h.sin(), v]
        }
    }
}

pub fn embed_dist(info: &SpaceInfo, a: [f64; 3], b: [f64; 3]) -> f64 {
    let ea = embed(info, a);
    let eb = embed(info, b);
    let mut d: f64 = 0.0;
    for i in 0..3 {
        let x = (ea[i] - eb[i]).abs();
        d = if x.is_nan() { f64::INFINITY } else { d.max(x) };
    }
    d
}

/// chroma-like magnitude in the embedding (0 on the grey axis)
pub fn embed_chroma(info: &SpaceInfo, c: [f64; 3]) -> f64 {
    let e = embed(info, c);
    match info.shape {
        Shape::Rect if info.name.contains("Lab") || info.name.contains("Luv") || info.name.starts_with("Oklab") => e[1].hypot(e[2]),
        Shape::Rect | Shape::Luma | Shape::Yxy => {
            let m = (c[0] + c[1] + c[2]) / 3.0;
            ((c[0] - m).abs()).max((c[1] - m).abs()).max((c[2] - m).abs())
        }
        _ => e[0].hypot(e[1]),
    }
}

// ------------------------------------------------------------------------------------------
// generators

/// in-gamut RGB with class mixing: grey, faces, edges, corners, dark, interior
pub fn in_gamut_rgb() -> BoxedStrategy<[f64; 3]> {
    let u = crate::gen::unit;
    prop_oneof![
        2 => u().prop_map(|g| [g, g, g]),
        2 => (u(), u(), 0usize..3, any::<bool>()).prop_map(|(a, b, i, hi)| { let mut c = [a, b, a]; c[(i + 1) % 3] = b; c[i] = if hi { 1.0 } else { 0.0 }; c }),
        2 => (u(), 0usize..3, any::<bool>(), any::<bool>()).prop_map(|(a, i, h1, h2)| { let mut c = [a; 3]; c[(i + 1) % 3] = if h1 { 1.0 } else { 0.0 }; c[(i + 2) % 3] = if h2 { 1.0 } else { 0.0 }; c }),
        1 => (any::<bool>(), any::<bool>(), any::<bool>()).prop_map(|(r, g, b)| [r as u8 as f64, g as u8 as f64, b as u8 as f64]),
        2 => (u(), u(), u()).prop_map(|(r, g, b)| [0.01 * r, 0.01 * g, 0.01 * b]),
        1 => (u(), -1e-3..=1e-3f64, -1e-3..=1e-3f64).prop_map(|(g, d, e)| [g, (g + d).clamp(0.0, 1.0), (g + e).clamp(0.0, 1.0)]),
        10 => (u(), u(), u()).prop_map(|(r, g, b)| [r, g, b]),
        6 => (0.0..=1.0f64, 0.0..=1.0f64, 0.0..=1.0f64).prop_map(|(r, g, b)| [r, g, b]),
    ]
    .boxed()
}

/// a colour inside the nominal box of a space (Hwb-like: whiteness + blackness <= 1 by construction)
pub fn nominal_box(info: SpaceInfo) -> BoxedStrategy<[f64; 3]> {
    let comp = move |c: Comp| -> BoxedStrategy<f64> {
        match c {
            Comp::Lin(a, b) => crate::gen::unit().prop_map(move |t| a + (b - a) * t).boxed(),
            Comp::Hue => crate::gen::hue(),
            Comp::None => Just(0.0).boxed(),
        }
    };
    let s = (comp(info.comps[0]), comp(info.comps[1]), comp(info.comps[2]));
    if info.shape == Shape::Hwb {
        s.prop_map(|(h, w, b)| if w + b > 1.0 { [h, w / (w + b), 1.0 - w / (w + b)] } else { [h, w, b] }).boxed()
    } else {
        s.prop_map(|(a, b, c)| [a, b, c]).boxed()
    }
}

/// the property's boundary lattice for one component: exactly on a bound / zero, or >= 1e-9 range away
pub fn lattice_values(c: Comp) -> Vec<f64> {
    match c {
        Comp::Lin(a, b) => {
            let r = b - a;
            let mut v = vec![a, b, a + 1e-9 * r, b - 1e-9 * r, a + 0.5 * r, a + 0.25 * r, a + 0.75 * r, a + 1e-4 * r, b - 1e-4 * r];
            if a < 0.0 && b > 0.0 {
                v.extend([0.0, 1e-9 * r, -1e-9 * r]);
            }
            v
        }
        Comp::Hue => vec![0.0, 60.0, 120.0, 180.0, 240.0, 300.0, 360.0, -180.0, 1e-7, 59.9999999, 60.0000001, 90.0, 30.0, 270.0, 359.99999, 137.5],
        Comp::None => vec![0.0],
    }
}

pub fn lattice(info: &SpaceInfo) -> Vec<[f64; 3]> {
    let (a, b, c) = (lattice_values(info.comps[0]), lattice_values(info.comps[1]), lattice_values(info.comps[2]));
    let mut out = Vec::new();
    for x in &a {
        for y in &b {
            for z in &c {
                if info.shape == Shape::Hwb && y + z > 1.0 {
                    continue;
                }
                out.push([*x, *y, *z]);
            }
        }
    }
    out
}

pub fn conv_index(convs: &[Conv], a: usize, b: usize) -> Option<usize> {
    convs.iter().position(|c| c.a == a && c.b == b)
}
