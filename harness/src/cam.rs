//! CAM16 viewing conditions as data (shared by C07, C14, C16).
use palette::cam16::{BakedParameters, Discounting, Parameters, StaticWp, Surround};
use palette::white_point::{Any, D65};
use palette::Xyz;
use serde::{Deserialize, Serialize};

#[derive(Debug, Clone, Copy, Serialize, Deserialize, PartialEq)]
pub struct Vc {
    /// adapting luminance (cd/m^2)
    pub la: f64,
    /// relative background luminance (0..1)
    pub yb: f64,
    /// 0 dark, 1 dim, 2 average, 3 percent(sp)
    pub surround: u8,
    pub sp: f64,
    /// 0 auto, 1 custom(dv)
    pub disc: u8,
    pub dv: f64,
}

impl Vc {
    pub const DEFAULT: Vc = Vc { la: 40.0, yb: 0.2, surround: 2, sp: 20.0, disc: 0, dv: 1.0 };
    pub fn is_default(&self) -> bool {
        self.surround == 2 && self.disc == 0 && self.yb == 0.2
    }
    /// effective surround percentage (documented clamp to 0..=20)
    pub fn surround_percent(&self) -> f64 {
        match self.surround {
            0 => 0.0,
            1 => 10.0,
            2 => 20.0,
            _ => self.sp.clamp(0.0, 20.0),
        }
    }
}

macro_rules! fill {
    ($p:ident, $vc:ident, $t:ty) => {{
        $p.background_luminance = $vc.yb as $t;
        $p.surround = match $vc.surround {
            0 => Surround::Dark,
            1 => Surround::Dim,
            2 => Surround::Average,
            _ => Surround::Percent($vc.sp as $t),
        };
        $p.discounting = match $vc.disc {
            0 => Discounting::Auto,
            _ => Discounting::Custom($vc.dv as $t),
        };
        $p
    }};
}

pub fn static64(vc: &Vc) -> Parameters<StaticWp<D65>, f64> {
    let mut p = Parameters::<StaticWp<D65>, f64>::default_static_wp(vc.la);
    fill!(p, vc, f64)
}
pub fn static32(vc: &Vc) -> Parameters<StaticWp<D65>, f32> {
    let mut p = Parameters::<StaticWp<D65>, f32>::default_static_wp(vc.la as f32);
    fill!(p, vc, f32)
}
pub fn dynamic64(vc: &Vc, wp: [f64; 3]) -> Parameters<Xyz<Any, f64>, f64> {
    let mut p = Parameters::default_dynamic_wp(Xyz::new(wp[0], wp[1], wp[2]), vc.la);
    fill!(p, vc, f64)
}
pub fn dynamic32(vc: &Vc, wp: [f64; 3]) -> Parameters<Xyz<Any, f32>, f32> {
    let mut p = Parameters::default_dynamic_wp(Xyz::new(wp[0] as f32, wp[1] as f32, wp[2] as f32), vc.la as f32);
    fill!(p, vc, f32)
}
pub fn baked64(vc: &Vc) -> BakedParameters<StaticWp<D65>, f64> {
    static64(vc).bake()
}
pub fn baked32(vc: &Vc) -> BakedParameters<StaticWp<D65>, f32> {
    static32(vc).bake()
}
