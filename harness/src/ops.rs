//! Operator table: every colour operator in all its variants (by value, assigning, slice,
//! Alpha-wrapped), as data. Used by C07 (finiteness) and C10 (algebra + variant agreement).
use crate::types::Tri;
use palette::color_theory::{Analogous, Complementary, SplitComplementary, Tetradic, Triadic};
use palette::{
    Alpha, Darken, DarkenAssign, Desaturate, DesaturateAssign, GetHue, Lighten, LightenAssign, Mix, MixAssign, Saturate, SaturateAssign, SetHue, ShiftHue, ShiftHueAssign, WithHue,
};

pub trait Flt: Copy + std::fmt::Debug + PartialOrd + Send + Sync + 'static {
    fn from64(v: f64) -> Self;
    fn to64(self) -> f64;
    const NAME: &'static str;
}
impl Flt for f32 {
    fn from64(v: f64) -> f32 {
        v as f32
    }
    fn to64(self) -> f64 {
        self as f64
    }
    const NAME: &'static str = "f32";
}
impl Flt for f64 {
    fn from64(v: f64) -> f64 {
        v
    }
    fn to64(self) -> f64 {
        self
    }
    const NAME: &'static str = "f64";
}

/// arguments of one operator application (all in f64; cast to the component type inside)
#[derive(Clone, Copy, Debug)]
pub struct Args {
    pub a: [f64; 3],
    pub b: [f64; 3],
    pub f: f64,
    pub alpha_a: f64,
    pub alpha_b: f64,
}

/// result of one variant: label + all components (colour components, then alpha if any), widened to f64
pub type Variant = (&'static str, Vec<f64>);

fn v3<C: Tri<T>, T: Flt>(c: C) -> Vec<f64> {
    c.to3().iter().map(|x| x.to64()).collect()
}
fn v4<C: Tri<T>, T: Flt>(c: Alpha<C, T>) -> Vec<f64> {
    let mut v = v3::<C, T>(c.color);
    v.push(c.alpha.to64());
    v
}
fn mk<C: Tri<T>, T: Flt>(a: [f64; 3]) -> C {
    C::from3([T::from64(a[0]), T::from64(a[1]), T::from64(a[2])])
}
fn mka<C: Tri<T>, T: Flt>(a: [f64; 3], al: f64) -> Alpha<C, T> {
    Alpha { color: mk::<C, T>(a), alpha: T::from64(al) }
}

#[derive(Clone, Copy, Debug, PartialEq, Eq)]
pub enum Kind {
    Mix,
    Lighten,
    LightenFixed,
    Darken,
    DarkenFixed,
    Saturate,
    SaturateFixed,
    Desaturate,
    DesaturateFixed,
    ShiftHue,
    WithHue,
    GetHue,
    Add,
    Sub,
    Mul,
    Div,
    AddScalar,
    SubScalar,
    MulScalar,
    DivScalar,
    Complementary,
    SplitComplementary,
    Analogous,
    AnalogousSecondary,
    Triadic,
    Tetradic,
}

pub struct Op {
    pub space: usize,
    pub kind: Kind,
    pub f64_: fn(&Args) -> Vec<Variant>,
    pub f32_: fn(&Args) -> Vec<Variant>,
}

// ---- operator families (variant 0 is always the by-value form on the bare colour) ----
pub fn op_mix<C, T>(x: &Args) -> Vec<Variant>
where
    T: Flt,
    C: Tri<T> + Mix<Scalar = T> + MixAssign<Scalar = T>,
    Alpha<C, T>: Mix<Scalar = T> + MixAssign<Scalar = T> + Copy,
{
    let (a, b, f) = (mk::<C, T>(x.a), mk::<C, T>(x.b), T::from64(x.f));
    let mut out = vec![("value", v3(a.mix(b, f)))];
    let mut m = a;
    m.mix_assign(b, f);
    out.push(("assign", v3(m)));
    let (aa, ab) = (mka::<C, T>(x.a, x.alpha_a), mka::<C, T>(x.b, x.alpha_b));
    out.push(("alpha", v4(aa.mix(ab, f))));
    let mut m = aa;
    m.mix_assign(ab, f);
    out.push(("alpha-assign", v4(m)));
    out
}

macro_rules! unary_family {
    ($fname:ident, $Tr:ident, $TrA:ident, $m:ident, $ma:ident) => {
        pub fn $fname<C, T>(x: &Args) -> Vec<Variant>
        where
            T: Flt,
            C: Tri<T> + $Tr<Scalar = T> + $TrA<Scalar = T>,
            [C]: $TrA<Scalar = T>,
            Alpha<C, T>: $Tr<Scalar = T> + $TrA<Scalar = T> + Copy,
        {
            let (a, f) = (mk::<C, T>(x.a), T::from64(x.f));
            let mut out = vec![("value", v3(a.$m(f)))];
            let mut m = a;
            m.$ma(f);
            out.push(("assign", v3(m)));
            let mut sl = [a, mk::<C, T>(x.b), a];
            sl[..].$ma(f);
            out.push(("slice[0]", v3(sl[0])));
            out.push(("slice[2]", v3(sl[2])));
            let aa = mka::<C, T>(x.a, x.alpha_a);
            out.push(("alpha", v4(aa.$m(f))));
            let mut m = aa;
            m.$ma(f);
            out.push(("alpha-assign", v4(m)));
            out
        }
    };
}
unary_family!(op_lighten, Lighten, LightenAssign, lighten, lighten_assign);
unary_family!(op_lighten_fixed, Lighten, LightenAssign, lighten_fixed, lighten_fixed_assign);
unary_family!(op_saturate, Saturate, SaturateAssign, saturate, saturate_assign);
unary_family!(op_saturate_fixed, Saturate, SaturateAssign, saturate_fixed, saturate_fixed_assign);

macro_rules! unary_family_noslice {
    ($fname:ident, $Tr:ident, $TrA:ident, $m:ident, $ma:ident) => {
        pub fn $fname<C, T>(x: &Args) -> Vec<Variant>
        where
            T: Flt,
            C: Tri<T> + $Tr<Scalar = T> + $TrA<Scalar = T>,
            Alpha<C, T>: $Tr<Scalar = T> + $TrA<Scalar = T> + Copy,
        {
            let (a, f) = (mk::<C, T>(x.a), T::from64(x.f));
            let mut out = vec![("value", v3(a.$m(f)))];
            let mut m = a;
            m.$ma(f);
            out.push(("assign", v3(m)));
            let aa = mka::<C, T>(x.a, x.alpha_a);
            out.push(("alpha", v4(aa.$m(f))));
            let mut m = aa;
            m.$ma(f);
            out.push(("alpha-assign", v4(m)));
            out
        }
    };
}
unary_family_noslice!(op_darken, Darken, DarkenAssign, darken, darken_assign);
unary_family_noslice!(op_darken_fixed, Darken, DarkenAssign, darken_fixed, darken_fixed_assign);
unary_family_noslice!(op_desaturate, Desaturate, DesaturateAssign, desaturate, desaturate_assign);
unary_family_noslice!(op_desaturate_fixed, Desaturate, DesaturateAssign, desaturate_fixed, desaturate_fixed_assign);

pub fn op_shift_hue<C, T>(x: &Args) -> Vec<Variant>
where
    T: Flt,
    C: Tri<T> + ShiftHue<Scalar = T> + ShiftHueAssign<Scalar = T>,
    [C]: ShiftHueAssign<Scalar = T>,
    Alpha<C, T>: ShiftHue<Scalar = T> + ShiftHueAssign<Scalar = T> + Copy,
{
    let (a, f) = (mk::<C, T>(x.a), T::from64(x.f));
    let mut out = vec![("value", v3(a.shift_hue(f)))];
    let mut m = a;
    m.shift_hue_assign(f);
    out.push(("assign", v3(m)));
    let mut sl = [a, mk::<C, T>(x.b)];
    sl[..].shift_hue_assign(f);
    out.push(("slice[0]", v3(sl[0])));
    let aa = mka::<C, T>(x.a, x.alpha_a);
    out.push(("alpha", v4(aa.shift_hue(f))));
    let mut m = aa;
    m.shift_hue_assign(f);
    out.push(("alpha-assign", v4(m)));
    out
}

pub fn op_with_hue<C, T, H>(x: &Args) -> Vec<Variant>
where
    T: Flt,
    H: From<T> + Clone,
    C: Tri<T> + WithHue<H> + SetHue<H> + WithHue<T> + SetHue<T>,
    [C]: SetHue<H>,
    Alpha<C, T>: WithHue<H> + SetHue<H> + Copy,
{
    let (a, f) = (mk::<C, T>(x.a), T::from64(x.f));
    let h: H = f.into();
    let mut out = vec![("value", v3(WithHue::<H>::with_hue(a, h.clone())))];
    let mut m = a;
    SetHue::<H>::set_hue(&mut m, h.clone());
    out.push(("assign", v3(m)));
    out.push(("value-raw-angle", v3(WithHue::<T>::with_hue(a, f))));
    let mut m = a;
    SetHue::<T>::set_hue(&mut m, f);
    out.push(("assign-raw-angle", v3(m)));
    let mut sl = [a, mk::<C, T>(x.b)];
    sl[..].set_hue(h.clone());
    out.push(("slice[0]", v3(sl[0])));
    let aa = mka::<C, T>(x.a, x.alpha_a);
    out.push(("alpha", v4(aa.with_hue(h.clone()))));
    let mut m = aa;
    m.set_hue(h);
    out.push(("alpha-assign", v4(m)));
    out
}

pub fn op_get_hue<C, T, H>(x: &Args) -> Vec<Variant>
where
    T: Flt,
    H: Into<T>,
    C: Tri<T> + GetHue<Hue = H>,
    Alpha<C, T>: GetHue<Hue = H>,
{
    let a = mk::<C, T>(x.a);
    let h: T = a.get_hue().into();
    let ha: T = mka::<C, T>(x.a, x.alpha_a).get_hue().into();
    vec![("value", vec![h.to64()]), ("alpha", vec![ha.to64()])]
}

macro_rules! arith_family {
    ($fname:ident, $fscalar:ident, $Tr:ident, $TrA:ident, $m:ident, $ma:ident) => {
        pub fn $fname<C, T>(x: &Args) -> Vec<Variant>
        where
            T: Flt,
            C: Tri<T> + core::ops::$Tr<C, Output = C> + core::ops::$TrA<C>,
            Alpha<C, T>: core::ops::$Tr<Alpha<C, T>, Output = Alpha<C, T>> + core::ops::$TrA<Alpha<C, T>> + Copy,
        {
            let (a, b) = (mk::<C, T>(x.a), mk::<C, T>(x.b));
            let mut out = vec![("value", v3(core::ops::$Tr::$m(a, b)))];
            let mut m = a;
            core::ops::$TrA::$ma(&mut m, b);
            out.push(("assign", v3(m)));
            let (aa, ab) = (mka::<C, T>(x.a, x.alpha_a), mka::<C, T>(x.b, x.alpha_b));
            out.push(("alpha", v4(core::ops::$Tr::$m(aa, ab))));
            let mut m = aa;
            core::ops::$TrA::$ma(&mut m, ab);
            out.push(("alpha-assign", v4(m)));
            out
        }
        pub fn $fscalar<C, T>(x: &Args) -> Vec<Variant>
        where
            T: Flt,
            C: Tri<T> + core::ops::$Tr<T, Output = C> + core::ops::$TrA<T>,
            Alpha<C, T>: core::ops::$Tr<T, Output = Alpha<C, T>> + core::ops::$TrA<T> + Copy,
        {
            let (a, f) = (mk::<C, T>(x.a), T::from64(x.f));
            let mut out = vec![("value", v3(core::ops::$Tr::$m(a, f)))];
            let mut m = a;
            core::ops::$TrA::$ma(&mut m, f);
            out.push(("assign", v3(m)));
            let aa = mka::<C, T>(x.a, x.alpha_a);
            out.push(("alpha", v4(core::ops::$Tr::$m(aa, f))));
            let mut m = aa;
            core::ops::$TrA::$ma(&mut m, f);
            out.push(("alpha-assign", v4(m)));
            out
        }
    };
}
arith_family!(op_add, op_add_scalar, Add, AddAssign, add, add_assign);
arith_family!(op_sub, op_sub_scalar, Sub, SubAssign, sub, sub_assign);
arith_family!(op_mul, op_mul_scalar, Mul, MulAssign, mul, mul_assign);
arith_family!(op_div, op_div_scalar, Div, DivAssign, div, div_assign);

pub fn op_complementary<C, T>(x: &Args) -> Vec<Variant>
where
    T: Flt,
    C: Tri<T> + Complementary,
    Alpha<C, T>: Complementary,
{
    vec![("value", v3(mk::<C, T>(x.a).complementary())), ("alpha", v4(mka::<C, T>(x.a, x.alpha_a).complementary()))]
}
pub fn op_split_complementary<C, T>(x: &Args) -> Vec<Variant>
where
    T: Flt,
    C: Tri<T> + SplitComplementary,
    Alpha<C, T>: SplitComplementary,
{
    let (p, q) = mk::<C, T>(x.a).split_complementary();
    let (pa, qa) = mka::<C, T>(x.a, x.alpha_a).split_complementary();
    let mut v = v3(p);
    v.extend(v3(q));
    let mut w = v3(pa.color);
    w.extend(v3(qa.color));
    w.push(pa.alpha.to64());
    w.push(qa.alpha.to64());
    vec![("value", v), ("alpha", w)]
}
pub fn op_analogous<C, T>(x: &Args) -> Vec<Variant>
where
    T: Flt,
    C: Tri<T> + Analogous,
    Alpha<C, T>: Analogous,
{
    let (p, q) = mk::<C, T>(x.a).analogous();
    let (pa, qa) = mka::<C, T>(x.a, x.alpha_a).analogous();
    let mut v = v3(p);
    v.extend(v3(q));
    let mut w = v3(pa.color);
    w.extend(v3(qa.color));
    w.push(pa.alpha.to64());
    w.push(qa.alpha.to64());
    vec![("value", v), ("alpha", w)]
}
pub fn op_analogous_secondary<C, T>(x: &Args) -> Vec<Variant>
where
    T: Flt,
    C: Tri<T> + Analogous,
    Alpha<C, T>: Analogous,
{
    let (p, q) = mk::<C, T>(x.a).analogous_secondary();
    let (pa, qa) = mka::<C, T>(x.a, x.alpha_a).analogous_secondary();
    let mut v = v3(p);
    v.extend(v3(q));
    let mut w = v3(pa.color);
    w.extend(v3(qa.color));
    w.push(pa.alpha.to64());
    w.push(qa.alpha.to64());
    vec![("value", v), ("alpha", w)]
}
pub fn op_triadic<C, T>(x: &Args) -> Vec<Variant>
where
    T: Flt,
    C: Tri<T> + Triadic,
    Alpha<C, T>: Triadic,
{
    let (p, q) = mk::<C, T>(x.a).triadic();
    let (pa, qa) = mka::<C, T>(x.a, x.alpha_a).triadic();
    let mut v = v3(p);
    v.extend(v3(q));
    let mut w = v3(pa.color);
    w.extend(v3(qa.color));
    w.push(pa.alpha.to64());
    w.push(qa.alpha.to64());
    vec![("value", v), ("alpha", w)]
}
pub fn op_tetradic<C, T>(x: &Args) -> Vec<Variant>
where
    T: Flt,
    C: Tri<T> + Tetradic,
    Alpha<C, T>: Tetradic,
{
    let (p, q, r) = mk::<C, T>(x.a).tetradic();
    let (pa, qa, ra) = mka::<C, T>(x.a, x.alpha_a).tetradic();
    let mut v = v3(p);
    v.extend(v3(q));
    v.extend(v3(r));
    let mut w = v3(pa.color);
    w.extend(v3(qa.color));
    w.extend(v3(ra.color));
    w.push(pa.alpha.to64());
    w.push(qa.alpha.to64());
    w.push(ra.alpha.to64());
    vec![("value", v), ("alpha", w)]
}

macro_rules! op {
    ($s:expr, $k:expr, $f:ident, $C64:ty, $C32:ty) => {
        Op { space: $s, kind: $k, f64_: $f::<$C64, f64>, f32_: $f::<$C32, f32> }
    };
    ($s:expr, $k:expr, $f:ident, $C64:ty, $C32:ty, $H64:ty, $H32:ty) => {
        Op { space: $s, kind: $k, f64_: $f::<$C64, f64, $H64>, f32_: $f::<$C32, f32, $H32> }
    };
}

include!("ops_gen.rs");
