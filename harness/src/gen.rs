//! Shared proptest strategies (all randomness stays inside proptest so shrinking/replay work).
use proptest::prelude::*;

/// ulp of an f64 at |x| (x finite)
pub fn ulp64(x: f64) -> f64 {
    let x = x.abs();
    if x == 0.0 {
        return f64::from_bits(1);
    }
    let b = x.to_bits();
    f64::from_bits(b + 1) - x
}
pub fn ulp32(x: f32) -> f32 {
    let x = x.abs();
    if x == 0.0 {
        return f32::from_bits(1);
    }
    let b = x.to_bits();
    f32::from_bits(b + 1) - x
}
pub fn next_up64(x: f64, n: i64) -> f64 {
    // move n representable steps (n may be negative); x finite
    if n == 0 {
        return x;
    }
    let mut i = x.to_bits() as i64;
    if i < 0 {
        i = i64::MIN - i;
    }
    let j = i.saturating_add(n);
    let b = if j < 0 { (i64::MIN - j) as u64 } else { j as u64 };
    f64::from_bits(b)
}
pub fn next_up32(x: f32, n: i32) -> f32 {
    if n == 0 {
        return x;
    }
    let mut i = x.to_bits() as i32;
    if i < 0 {
        i = i32::MIN - i;
    }
    let j = i.saturating_add(n);
    let b = if j < 0 { (i32::MIN - j) as u32 } else { j as u32 };
    f32::from_bits(b)
}

/// Thresholds of the piecewise curves used across palette (see DESIGN §3.2).
pub const THRESHOLDS: &[f64] = &[
    0.0031308,
    0.04045,
    0.018053968510807,
    0.081242858298635,
    0.018,
    0.081,
    0.001953125,
    0.03125,
    0.008856451679035631,
    0.20689655172413793,
    0.08,
    0.5,
    0.25,
    0.75,
];

/// A value in [0,1] with weight on the places where code branches.
pub fn unit() -> BoxedStrategy<f64> {
    prop_oneof![
        3 => Just(0.0),
        3 => Just(1.0),
        2 => Just(0.5),
        3 => (0..THRESHOLDS.len(), -2i64..=2).prop_map(|(i, n)| next_up64(THRESHOLDS[i], n).clamp(0.0, 1.0)),
        2 => (0..THRESHOLDS.len(), prop_oneof![Just(-1e-9), Just(1e-9)]).prop_map(|(i, d)| (THRESHOLDS[i] + d).clamp(0.0, 1.0)),
        1 => Just(1e-9),
        1 => Just(1.0 - 1e-9),
        14 => 0.0..=1.0f64,
        3 => (-8.0..=-2.0f64).prop_map(|e| 10f64.powf(e)),
        2 => (0u32..=255).prop_map(|k| k as f64 / 255.0),
    ]
    .boxed()
}

/// Hue in degrees, with sector edges and wraps.
pub fn hue() -> BoxedStrategy<f64> {
    prop_oneof![
        2 => Just(0.0),
        3 => (0i32..=6).prop_map(|k| 60.0 * k as f64),
        3 => (0i32..=6, prop_oneof![Just(-1e-7), Just(1e-7), Just(-1e-12), Just(1e-12)]).prop_map(|(k, d)| 60.0 * k as f64 + d),
        2 => (0i32..=12).prop_map(|k| 30.0 * k as f64),
        1 => prop_oneof![Just(180.0), Just(-180.0), Just(359.99999), Just(360.0), Just(-360.0)],
        14 => 0.0..360.0f64,
        3 => -720.0..=720.0f64,
        1 => (-50i32..=50, 0.0..360.0f64).prop_map(|(n, x)| 360.0 * n as f64 + x),
    ]
    .boxed()
}

/// Monotone index map (keeps shrinking effective): i in 0..65536 -> 0..len
pub fn idx(i: u16, len: usize) -> usize {
    ((i as usize) * len) >> 16
}
