#!/bin/sh
# extra stages of C13 (thorough tier only): see stages/miri.sh and stages/fuzz.sh
[ "$1" = "thorough" ] || exit 0
ROOT=$(cd "$(dirname "$0")/.." && pwd)
rc=0
"$ROOT/stages/fuzz.sh" C13 c13_guard 1000000 1024 || rc=$?
[ $rc -eq 1 ] && exit 1
"$ROOT/stages/miri.sh" C13 || rc=$?
exit $rc
