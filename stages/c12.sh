#!/bin/sh
# extra stage of C12 (thorough tier only): coverage-guided fuzzing of the string parsers against the model parser
[ "$1" = "thorough" ] || exit 0
ROOT=$(cd "$(dirname "$0")/.." && pwd)
exec "$ROOT/stages/fuzz.sh" C12 c12_parse 3000000 64
