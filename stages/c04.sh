#!/bin/sh
# extra stages of C04 (thorough tier only): see stages/miri.sh and stages/fuzz.sh
[ "$1" = "thorough" ] || exit 0
ROOT=$(cd "$(dirname "$0")/.." && pwd)
rc=0
"$ROOT/stages/miri.sh" C04 || rc=$?
exit $rc
