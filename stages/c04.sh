#!/bin/sh
# extra stages of C04 (thorough tier only): see stages/fuzz.sh and stages/miri.sh
[ "$1" = "thorough" ] || exit 0
ROOT=$(cd "$(dirname "$0")/.." && pwd)
rc=0
"$ROOT/stages/fuzz.sh" C04 c04_cast 2000000 512 || rc=$?
[ $rc -eq 1 ] && exit 1
"$ROOT/stages/miri.sh" C04 || rc=$?
exit $rc
