#!/bin/sh
# stages/miri.sh <Cxx>: run the property binary's generated cases under Miri (thorough tier only).
# Miri is the oracle for what a value comparison cannot see: out-of-bounds or misaligned access, a wrong
# from_raw_parts length or capacity, double drop, use after free. exit 0 clean, 1 VIOLATION, 2 inconclusive.
ROOT=$(cd "$(dirname "$0")/.." && pwd)
id="$1"; bin=$(echo "$id" | tr 'A-Z' 'a-z')
cd "$ROOT/harness" || exit 2
log="$ROOT/harness/miri-$bin.log"
export PV_MIRI=1 PV_EVIDENCE_SUFFIX=.miri PV_ROOT="$ROOT" CARGO_NET_OFFLINE=true
# leaks are part of the programs (mem::forget of guards and drains); isolation off: the binary reads known_findings.txt
# deterministic floats: Miri otherwise perturbs the results of powf / cbrt / sin ... at random, and the oracles compare two
# evaluations of the same conversion bitwise
export MIRIFLAGS="-Zmiri-disable-isolation -Zmiri-ignore-leaks -Zmiri-deterministic-floats"
start=$(date +%s)
timeout "${PV_MIRI_TIMEOUT:-7200}" cargo +nightly miri run --offline -q --bin "$bin" -- thorough >"$log" 2>&1
rc=$?
secs=$(( $(date +%s) - start ))
if [ $rc -eq 0 ]; then
    evals=$(python3 -c "import json;print(json.load(open('$ROOT/evidence/$id.miri.json'))['coverage']['evaluations'])" 2>/dev/null || echo 0)
    python3 "$ROOT/tools/evidence_stage.py" "$id" miri result=clean evaluations="$evals" wall_s="$secs" executor="cargo +nightly miri run (leaks ignored, isolation off)"
    rm -f "$ROOT/evidence/$id.miri.json"
    echo "[$id] miri stage: $evals generated cases, no undefined behaviour reported (${secs}s)"
    exit 0
fi
rm -f "$ROOT/evidence/$id.miri.json"
if grep -q "Undefined Behavior\|^VIOLATION" "$log"; then
    mkdir -p "$ROOT/replays"
    out="$ROOT/replays/$id-miri-$(date +%s).log"
    cp "$log" "$out"
    grep "^VIOLATION" "$log" || echo "VIOLATION property=$id replay=$out"
    grep -A12 "Undefined Behavior" "$log" | head -30
    python3 "$ROOT/tools/evidence_stage.py" "$id" miri result=undefined-behaviour wall_s="$secs"
    exit 1
fi
echo "INCONCLUSIVE property=$id miri stage ended with status $rc (see harness/miri-$bin.log)"
tail -5 "$log"
python3 "$ROOT/tools/evidence_stage.py" "$id" miri result=inconclusive status="$rc" wall_s="$secs"
exit 2
