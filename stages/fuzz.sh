#!/bin/sh
# stages/fuzz.sh <Cxx> <target> <runs> <max_len>: a libFuzzer campaign (ASan build) whose target carries the property's
# own oracle. The campaign is pinned by -seed and -runs and starts from the committed corpus copied to a fresh directory;
# libFuzzer is only approximately reproducible, the saved failing input is the reproducible unit.
ROOT=$(cd "$(dirname "$0")/.." && pwd)
id="$1"; target="$2"; runs="${PV_FUZZ_RUNS:-$3}"; maxlen="$4"
# cargo-fuzz wants to start inside a cargo project and be told where the fuzz crate is
cd "$ROOT/harness" || exit 2
export CARGO_NET_OFFLINE=true PV_ROOT="$ROOT"
# the programs leak on purpose (mem::forget of guards and drains)
export ASAN_OPTIONS=detect_leaks=0:detect_odr_violation=0
log="$ROOT/fuzz/$target.log"
if ! cargo +nightly fuzz build --fuzz-dir "$ROOT/fuzz" "$target" >"$log" 2>&1; then
    echo "INCONCLUSIVE property=$id fuzz target $target does not build (see fuzz/$target.log)"; tail -5 "$log"
    python3 "$ROOT/tools/evidence_stage.py" "$id" "fuzz_$target" result=inconclusive reason="build failed"
    exit 2
fi
run="$ROOT/fuzz/corpus-run/$target"
rm -rf "$run"; mkdir -p "$run" "$ROOT/fuzz/artifacts/$target"
cp "$ROOT/fuzz/corpus/$target"/* "$run"/ 2>/dev/null
seed="${VERIF_SEED:-1}"; [ "$seed" = 0 ] && seed=1
start=$(date +%s)
cargo +nightly fuzz run --fuzz-dir "$ROOT/fuzz" "$target" "$run" -- -runs="$runs" -seed="$seed" -len_control=0 -max_len="$maxlen" -timeout=20 -rss_limit_mb=4096 -detect_leaks=0 -print_final_stats=1 >>"$log" 2>&1
rc=$?
secs=$(( $(date +%s) - start ))
execs=$(grep -o "stat::number_of_executed_units: [0-9]*" "$log" | tail -1 | grep -o "[0-9]*$")
cov=$(grep -o "cov: [0-9]*" "$log" | tail -1 | grep -o "[0-9]*$")
if grep -q "^VIOLATION" "$log"; then
    grep "^VIOLATION" "$log" | head -3; grep -A3 "^VIOLATION" "$log" | head -8
    python3 "$ROOT/tools/evidence_stage.py" "$id" "fuzz_$target" result=violation executions="${execs:-0}" wall_s="$secs"
    exit 1
fi
if [ $rc -ne 0 ]; then
    art=$(grep -o "Test unit written to .*" "$log" | tail -1 | sed 's/Test unit written to //')
    if grep -q "ERROR: AddressSanitizer\|ERROR: libFuzzer: deadly signal\|panicked at" "$log"; then
        # a crash that is not one of the oracle's own reports: memory error or a panic escaping palette
        echo "VIOLATION property=$id replay=${art:-$log}"
        grep -m1 -A6 "ERROR: AddressSanitizer\|panicked at" "$log" | head -10
        echo "  (re-run with: cd $ROOT/harness && cargo +nightly fuzz run --fuzz-dir $ROOT/fuzz $target ${art})"
        python3 "$ROOT/tools/evidence_stage.py" "$id" "fuzz_$target" result=crash executions="${execs:-0}" wall_s="$secs"
        exit 1
    fi
    echo "INCONCLUSIVE property=$id fuzz campaign $target ended with status $rc (see fuzz/$target.log)"; tail -3 "$log"
    python3 "$ROOT/tools/evidence_stage.py" "$id" "fuzz_$target" result=inconclusive status="$rc" wall_s="$secs"
    exit 2
fi
python3 "$ROOT/tools/evidence_stage.py" "$id" "fuzz_$target" result=clean executions="${execs:-0}" coverage_edges="${cov:-0}" corpus_files="$(ls "$run" | wc -l)" seed="$seed" wall_s="$secs" engine="libFuzzer + ASan via cargo-fuzz, oracle inside the target"
echo "[$id] fuzz stage $target: ${execs:-?} executions, cov ${cov:-?}, no failure (${secs}s)"
exit 0
