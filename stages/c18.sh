#!/bin/sh
# extra stages of C18 (thorough tier only): see stages/miri.sh and stages/fuzz.sh
[ "$1" = "thorough" ] || exit 0
ROOT=$(cd "$(dirname "$0")/.." && pwd)
rc=0
"$ROOT/stages/fuzz.sh" C18 c18_soa 400000 4096 || rc=$?
[ $rc -eq 1 ] && exit 1
"$ROOT/stages/miri.sh" C18 || rc=$?
exit $rc
