//! C13 fuzz target: a byte string is decoded into an in-place conversion program (guards nested up to depth 4, reads and
//! writes through the guard, restore / drop / forget) or an owned-container chain, and interpreted against the
//! out-of-place model (the same `run_program` / `owned_point` as the property binary); ASan watches the reinterpreting casts.
#![no_main]
#![allow(dead_code, unused_imports)]
use arbitrary::Unstructured;
use libfuzzer_sys::fuzz_target;

#[path = "../../harness/src/bin/c13.rs"]
mod c13;
mod common;
use c13::{GOp, OwnedCase, Program, Terminal};

fn colour(u: &mut Unstructured) -> arbitrary::Result<[f32; 3]> {
    let mut c = [0f32; 3];
    for v in c.iter_mut() {
        let b: u8 = u.arbitrary()?;
        // mostly inside the nominal ranges of all five types' first components, sometimes outside
        *v = match b {
            0..=219 => b as f32 / 219.0,
            220..=239 => (b as f32 - 220.0) * 18.0,
            _ => -(b as f32 - 239.0) / 8.0,
        };
    }
    Ok(c)
}
fn tag(u: &mut Unstructured) -> arbitrary::Result<usize> {
    Ok((u.arbitrary::<u8>()? % 5) as usize)
}

fuzz_target!(|data: &[u8]| {
    common::quiet_panics();
    let mut u = Unstructured::new(data);
    let mut obs = pv::runner::scratch_obs();
    let r: arbitrary::Result<()> = (|| {
        if u.arbitrary::<u8>()? % 4 == 0 {
            let from = tag(&mut u)?;
            let nchain = u.arbitrary::<u8>()? % 4;
            let chain = (0..nchain).map(|_| Ok((tag(&mut u)?, u.arbitrary()?))).collect::<arbitrary::Result<Vec<_>>>()?;
            let extra_cap = (u.arbitrary::<u8>()? % 9) as usize;
            let n = u.arbitrary::<u8>()? % 12;
            let buf = (0..n).map(|_| colour(&mut u)).collect::<arbitrary::Result<Vec<_>>>()?;
            let c = OwnedCase { from, chain, buf, extra_cap };
            if let Err(f) = c13::owned_point(&c, &mut obs) {
                common::report("C13", "owned_containers", &c, &f);
            }
            return Ok(());
        }
        let orig = tag(&mut u)?;
        let first = (tag(&mut u)?, u.arbitrary()?);
        let terminal = match u.arbitrary::<u8>()? % 3 { 0 => Terminal::Restore, 1 => Terminal::Drop, _ => Terminal::Forget };
        let n = u.arbitrary::<u8>()? % 24;
        let buf = (0..n).map(|_| colour(&mut u)).collect::<arbitrary::Result<Vec<_>>>()?;
        let mut ops = Vec::new();
        let mut thens = 0;
        while !u.is_empty() && ops.len() < 10 {
            ops.push(match u.arbitrary::<u8>()? % 4 {
                0 => GOp::Read,
                1 => GOp::Write((u.arbitrary::<u8>()? % 24) as usize, colour(&mut u)?),
                2 => {
                    thens += 1;
                    if thens > 3 { GOp::Read } else { GOp::Then(tag(&mut u)?, u.arbitrary()?) }
                }
                _ => GOp::SwitchKind,
            });
        }
        let p = Program { orig, first, buf, ops, terminal };
        if let Err(f) = c13::run_program(&p, &mut obs) {
            common::report("C13", "guard_programs", &p, &f);
        }
        Ok(())
    })();
    let _ = r;
});
