// shared by the fuzz targets: turn an oracle failure into a replay file + VIOLATION line, then abort the campaign
use std::io::Write;

pub fn report<C: serde::Serialize>(property: &str, subcheck: &str, case: &C, fail: &pv::runner::Fail) -> ! {
    let root = std::env::var("PV_ROOT").unwrap_or_else(|_| "/verif".into());
    let body = serde_json::json!({ "case": case, "key": fail.key, "msg": fail.msg, "property": property, "seed": 0, "subcheck": subcheck });
    let text = serde_json::to_string_pretty(&body).unwrap();
    let mut h: u64 = 0xcbf29ce484222325;
    for b in text.bytes() {
        h = (h ^ b as u64).wrapping_mul(0x100000001b3);
    }
    let _ = std::fs::create_dir_all(format!("{}/replays", root));
    let path = format!("{}/replays/{}-{}-fuzz{:016x}.json", root, property, subcheck, h);
    let _ = std::fs::write(&path, text);
    let out = std::io::stdout();
    let mut out = out.lock();
    let _ = writeln!(out, "VIOLATION property={} replay={}", property, path);
    let _ = writeln!(out, "  subcheck={} key={:?}\n  {}", subcheck, fail.key, fail.msg);
    let _ = out.flush();
    std::process::abort();
}

/// libfuzzer-sys installs a panic hook that aborts the process, which would turn every *expected* panic (the oracles
/// compare "panics exactly when the model panics" with catch_unwind) into a crash. Replace it once: panics unwind again;
/// one that escapes the target is still caught by libfuzzer-sys' own catch_unwind around the target and reported.
pub fn quiet_panics() {
    static ONCE: std::sync::Once = std::sync::Once::new();
    ONCE.call_once(|| std::panic::set_hook(Box::new(|_| {})));
}
