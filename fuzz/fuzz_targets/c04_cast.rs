//! C04 fuzz target: a byte string is decoded into a component buffer (type, length, spare capacity, raw bit patterns, one
//! write through a mutable view) and pushed through every cast form of that type with the property binary's own checks
//! (same address, exact length / capacity scaling, field order, rejection exactly when the length or capacity does not
//! divide); the ASan build watches the reinterpreting casts themselves.
#![no_main]
#![allow(dead_code, unused_imports)]
use arbitrary::Unstructured;
use libfuzzer_sys::fuzz_target;

#[path = "../../harness/src/bin/c04.rs"]
mod c04;
mod common;

fuzz_target!(|data: &[u8]| {
    common::quiet_panics();
    static ENTS: std::sync::OnceLock<Vec<c04::Entry>> = std::sync::OnceLock::new();
    let ents = ENTS.get_or_init(c04::entries);
    let mut u = Unstructured::new(data);
    let r: arbitrary::Result<()> = (|| {
        let ty = u.arbitrary::<u8>()? as usize % ents.len();
        let mask = if ents[ty].width >= 64 { u64::MAX } else { (1u64 << ents[ty].width) - 1 };
        let len = (u.arbitrary::<u8>()? % 41) as usize;
        let extra_cap = (u.arbitrary::<u8>()? % 10) as usize;
        let write_at = u.arbitrary::<u16>()? as usize;
        let write_val = u.arbitrary::<u64>()? & mask;
        let mut bits = Vec::with_capacity(len);
        for _ in 0..len {
            bits.push(u.arbitrary::<u64>().unwrap_or(0) & mask);
        }
        let c = c04::Case { ty, bits, extra_cap, write_at, write_val };
        let mut obs = pv::runner::scratch_obs();
        if let Err(f) = (ents[ty].f)(&c, &mut obs) {
            common::report("C04", "cast_forms", &c, &f);
        }
        Ok(())
    })();
    let _ = r;
});
