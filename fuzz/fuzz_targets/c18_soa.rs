//! C18 fuzz target: a byte string is decoded into a struct-of-arrays program and interpreted against the Vec model
//! (the same `run` as the property binary); the ASan build makes a wrong raw-parts length visible as well.
#![no_main]
#![allow(dead_code, unused_imports)]
use arbitrary::Unstructured;
use libfuzzer_sys::fuzz_target;

#[path = "../../harness/src/bin/c18.rs"]
mod c18;
mod common;
use c18::{Col, Op, Program, R};

fn col(u: &mut Unstructured) -> arbitrary::Result<Col> {
    let mut c = [0u32; 5];
    for w in c.iter_mut() {
        let b: u8 = u.arbitrary()?;
        *w = match b {
            0..=199 => ((b % 64) as f32).to_bits(),
            200..=249 => u.arbitrary()?,
            _ => f32::NAN.to_bits() | 5,
        };
    }
    Ok(c)
}
fn idx(u: &mut Unstructured) -> arbitrary::Result<usize> {
    let b: u8 = u.arbitrary()?;
    Ok(if b == 255 { usize::MAX } else { (b % 14) as usize })
}
fn range(u: &mut Unstructured) -> arbitrary::Result<R> {
    Ok(match u.arbitrary::<u8>()? % 6 {
        0 => R::Full,
        1 => R::To(idx(u)?),
        2 => R::ToIncl(idx(u)?),
        3 => R::From(idx(u)?),
        4 => R::Range(idx(u)?, idx(u)?),
        _ => R::RangeIncl(idx(u)?, idx(u)?),
    })
}
fn script(u: &mut Unstructured) -> arbitrary::Result<Vec<bool>> {
    let n = u.arbitrary::<u8>()? % 7;
    (0..n).map(|_| u.arbitrary()).collect()
}
fn cols(u: &mut Unstructured, max: u8) -> arbitrary::Result<Vec<Col>> {
    let n = u.arbitrary::<u8>()? % max;
    (0..n).map(|_| col(u)).collect()
}
fn op(u: &mut Unstructured) -> arbitrary::Result<Op> {
    Ok(match u.arbitrary::<u8>()? % 17 {
        0 => Op::Push(col(u)?),
        1 => Op::Pop,
        2 => Op::Extend(cols(u, 5)?),
        3 => Op::Collect(cols(u, 8)?),
        4 => Op::Clear,
        5 => Op::WithCapacity((u.arbitrary::<u8>()? % 6) as usize),
        6 => Op::Drain { r: range(u)?, script: script(u)?, forget: u.arbitrary::<u8>()? % 5 == 0 },
        7 => Op::Get(idx(u)?),
        8 => Op::GetRange(range(u)?),
        9 => Op::GetMutWrite(idx(u)?, col(u)?),
        10 => Op::GetMutRangeWrite(range(u)?, col(u)?),
        11 => Op::Iter(script(u)?),
        12 => Op::IterRev,
        13 => Op::IterMutWrite(u.arbitrary()?),
        14 => Op::IterMutRevWrite(u.arbitrary()?),
        15 => Op::IntoIterOwned(u.arbitrary()?),
        _ => Op::Views,
    })
}
fn program(u: &mut Unstructured) -> arbitrary::Result<Program> {
    let ty = (u.arbitrary::<u8>()? % 10) as usize;
    let init = cols(u, 8)?;
    let mut ops = Vec::new();
    while !u.is_empty() && ops.len() < 200 {
        ops.push(op(u)?);
    }
    Ok(Program { ty, init, ops })
}

fuzz_target!(|data: &[u8]| {
    common::quiet_panics();
    let mut u = Unstructured::new(data);
    let Ok(p) = program(&mut u) else { return };
    let mut obs = pv::runner::scratch_obs();
    if let Err(f) = c18::run(&p, &mut obs) {
        common::report("C18", "programs", &p, &f);
    }
});
