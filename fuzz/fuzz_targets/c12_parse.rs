//! C12 fuzz target: any string either parses to exactly the colour the model parser reads, or is rejected; never panics.
//! Input: first byte selects the target type (10 hex targets + named colours), the rest is the string (must be UTF-8;
//! invalid UTF-8 is repaired lossily so the fuzzer's mutations are not wasted).
#![no_main]
#![allow(dead_code, unused_imports)]
use libfuzzer_sys::fuzz_target;

#[path = "../../harness/src/bin/c12.rs"]
mod c12;
mod common;

fuzz_target!(|data: &[u8]| {
    common::quiet_panics();
    if data.is_empty() {
        return;
    }
    let sel = data[0] as usize % 12;
    let s = String::from_utf8_lossy(&data[1..]).into_owned();
    let mut obs = pv::runner::scratch_obs();
    if sel < 10 {
        let c = c12::StrCase { target: sel, s };
        if let Err(f) = c12::strict_point(&c, &mut obs) {
            common::report("C12", "strict_generated_strings", &c, &f);
        }
    } else {
        let c = c12::NameCase { s };
        if let Err(f) = c12::name_point(&c, &mut obs) {
            common::report("C12", "names_generated", &c, &f);
        }
    }
});
