#!/usr/bin/env python3
"""Apply every seeded change in /verif/seeded to /repo in turn, run the check of the property it breaks (quick tier),
undo it, and record what the check reported in seeded/<id>/meta.json (key "detection") and seeded/RESULTS.md."""
import json, os, re, subprocess, sys, time
ROOT = "/verif"
only = sys.argv[1:]
rows = []
assert subprocess.run(["git", "-C", "/repo", "diff", "--quiet"]).returncode == 0, "/repo has uncommitted changes"
for d in sorted(os.listdir(f"{ROOT}/seeded")):
    p = f"{ROOT}/seeded/{d}/patch.diff"
    if not os.path.exists(p) or (only and d not in only):
        continue
    prop = re.search(r"C\d\d", d).group(0)
    if subprocess.run(["git", "-C", "/repo", "apply", "--check", p]).returncode != 0:
        rows.append((d, prop, "patch does not apply to the current tree", "")); continue
    subprocess.run(["git", "-C", "/repo", "apply", p], check=True)
    t0 = time.time()
    try:
        r = subprocess.run([f"{ROOT}/check", prop, "quick"], cwd=ROOT, capture_output=True, text=True, timeout=3600)
        out, rc = r.stdout + r.stderr, r.returncode
    finally:
        subprocess.run(["git", "-C", "/repo", "checkout", "--", "."], check=True)
        subprocess.run(["git", "-C", ROOT, "clean", "-fdq", "replays/"])
    viol = [l for l in out.split("\n") if l.startswith("VIOLATION")]
    first = ""
    m = re.search(r"^VIOLATION.*\n((?:  .*\n){1,3})", out, re.M)
    if m:
        first = " ".join(x.strip() for x in m.group(1).split("\n"))[:400]
    verdict = "caught" if rc == 1 and viol else ("inconclusive (exit %d)" % rc if rc not in (0, 1) else "missed")
    rows.append((d, prop, verdict, first))
    mp = f"{ROOT}/seeded/{d}/meta.json"
    meta = json.load(open(mp)) if os.path.exists(mp) else {"id": d, "breaks_property": prop, "origin": "revert of a fix: commit made in /repo during this work (the pinned tree's behaviour)"}
    meta["detection"] = {"check": f"./check {prop} quick", "verdict": verdict, "violations_reported": len(viol), "first_report": first, "wall_s": round(time.time() - t0, 1)}
    json.dump(meta, open(mp, "w"), indent=1)
    print(d, verdict, round(time.time() - t0, 1), flush=True)
# evidence files were rewritten by mutated runs: restore them
subprocess.run(["git", "-C", ROOT, "checkout", "--", "evidence/"])
# the table covers every stored change (from the detection entries of all meta.json files), not just this run's
with open(f"{ROOT}/seeded/RESULTS.md", "w") as f:
    f.write("| seeded change | property | quick check | first report |\n|---|---|---|---|\n")
    for d in sorted(os.listdir(f"{ROOT}/seeded")):
        mp = f"{ROOT}/seeded/{d}/meta.json"
        if not os.path.exists(mp):
            continue
        det = json.load(open(mp)).get("detection")
        if det:
            prop = re.search(r"C\d\d", d).group(0)
            f.write("| %s | %s | %s | %s |\n" % (d, prop, det["verdict"], det["first_report"][:260].replace("|", "\\|")))
