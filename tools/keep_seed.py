#!/usr/bin/env python3
"""tools/keep_seed.py <Cxx> <A|B>: store a confirmed seeded change under /verif/seeded/<Cxx>-<v>/"""
import json, os, shutil, sys, re
pid, v = sys.argv[1], sys.argv[2]
rnd = os.environ.get("SEED_ROUND", "")
src = f"/tmp/seedout{rnd}-{pid}/{v}"
log = f"/tmp/confirm{rnd}-{pid}-{v}.log"
# second-round changes are stored as variants C and D, third-round ones as E and F
name = {"2": {"A": "C", "B": "D"}, "3": {"A": "E", "B": "F"}, "4": {"A": "G", "B": "H"}, "5": {"A": "I", "B": "J"}}[rnd][v] if rnd in ("2", "3", "4", "5") else v
res = open(log).read().strip().splitlines()[-1]
m = re.search(r"suite_rc=(\d+) passed=(\d+) failed=(\d+) demo_with_change_rc=(\d+) demo_without_change_rc=(\d+)", res)
assert m, res
suite_rc, passed, failed, demo_mut, demo_clean = map(int, m.groups())
ok = suite_rc == 0 and failed == 0 and demo_mut != 0 and demo_clean == 0
if not ok:
    print("NOT CONFIRMED:", res); sys.exit(1)
dst = f"/verif/seeded/{pid}-{name}"
os.makedirs(dst, exist_ok=True)
shutil.copy(f"{src}/patch.diff", f"{dst}/patch.diff")
shutil.copy(f"{src}/demo.rs", f"{dst}/demo.rs")
notes = open(f"{src}/notes.txt").read()
open(f"{dst}/notes.txt", "w").write(notes)
meta = {
    "id": f"{pid}-{name}",
    "breaks_property": pid,
    "origin": "fresh sub-agent given only the property text and a scratch worktree of /repo (no access to /verif)",
    "needs_to_manifest": notes.strip(),
    "confirmed_by_me": {
        "worktree": f"/tmp/seed{rnd}-{pid} (scratch git worktree of /repo HEAD, removed afterwards)",
        "commands": [
            "git apply patch.diff",
            "CARGO_NET_OFFLINE=true cargo test --workspace --no-fail-fast --offline",
            "cp demo.rs palette/tests/demo.rs && cargo test -p palette --offline --features 'random serializing wide gamma_lut_u16' --test demo   (with the change)",
            "git checkout -- . && same demo command (without the change)",
        ],
        "suite_with_change": {"exit": suite_rc, "passed": passed, "failed": failed},
        "demo_with_change_exit": demo_mut,
        "demo_without_change_exit": demo_clean,
    },
}
json.dump(meta, open(f"{dst}/meta.json", "w"), indent=1)
print("kept", dst)
