#!/usr/bin/env python3
import json, sys
pid = sys.argv[1]
wt = sys.argv[2]
out = sys.argv[3]
focus = sys.argv[4] if len(sys.argv) > 4 else ""
focus_txt = ("\n\nFor this round, aim BOTH changes at this part of the property (other parts have been studied already): " + focus + "\n") if focus else ""
for l in open('/verif/properties.jsonl'):
    p = json.loads(l)
    if p['id'] == pid:
        break
print(f"""You are helping to evaluate a verification framework by mutation seeding. You work ONLY inside the git worktree {wt} (a checkout of the Rust crate workspace Ogeon/palette: a colour management library). Do not read or touch /verif or /repo; do not look for any verification harness. No network is available; cargo must be run offline (prefix commands with CARGO_NET_OFFLINE=true and pass --offline).

Here is a semantic property of the library that is supposed to hold for ALL inputs:

  id: {p['id']}
  title: {p['title']}
  statement: {p['statement']}
  quantified over: {p['quantifier']['text']}
  code it is anchored in: {', '.join(p['anchors']['files'])}
{focus_txt}
Your task: produce TWO independent source changes ("mutant A" and "mutant B", different mechanisms, ideally in different functions/files) to the library code under {wt}/palette (or palette_derive) such that each one, applied alone:
  1. still compiles (whole workspace),
  2. still passes the complete existing test suite unchanged:  cd {wt} && CARGO_NET_OFFLINE=true cargo test --workspace --no-fail-fast --offline   (all tests must pass; do not edit, delete or ignore existing tests),
  3. BREAKS the property above for some inputs -- a realistic bug a maintainer could plausibly introduce (wrong branch condition, off-by-one, swapped arguments, missed special case, wrong constant in one path, a fast path that skips a step, two sites that each look fine alone ...), NOT something that ordinary use would expose at once. Prefer changes that need something specific to manifest: an unusual input region, a particular type instantiation (e.g. only f32, only one RGB standard, only the Alpha-wrapped form, only the slice/assign variant, only SIMD), a multi-step sequence of operations, or a boundary value. Do not break the property for (nearly) every input. Do not change public signatures. Do not touch test code, doc tests, or anything under cfg(test).
  4. comes with a demonstration: a self-contained Rust integration test file that FAILS with the change applied and PASSES on the unmodified code. Write it so that it can be dropped in as {wt}/palette/tests/demo.rs and run with:  cd {wt} && CARGO_NET_OFFLINE=true cargo test -p palette --offline --features "random serializing wide gamma_lut_u16" --test demo    (it may only use palette's public API plus the dev-dependencies already present in palette/Cargo.toml: serde_json, ron, rand_mt, rand via palette's feature, wide via feature). Verify both directions yourself (fails with the mutant, passes after `git stash`/reverting the mutant).

Work one mutant at a time: make the edit, run the full test suite, run the demo, save results, then `git checkout -- .` (keep the worktree clean between mutants; never commit).

Deliver into the directory {out} (create it):
  {out}/A/patch.diff   -- output of `git diff` for mutant A (must apply with `git apply` on the unmodified worktree)
  {out}/A/demo.rs      -- the demonstration test for A
  {out}/A/notes.txt    -- 5-10 lines: what was changed, why it breaks the property, exactly what is needed for it to manifest (input region / type / sequence), and the commands you ran with their outcome (test suite pass count, demo fail/pass)
  {out}/B/...          -- the same for mutant B
Make sure that at the end the worktree has no leftover modifications (git -C {wt} status --short is empty; remove palette/tests/demo.rs too). Reply with a brief summary of both mutants.""")
