#!/usr/bin/env python3
"""No-false-alarm controls: apply each behaviour-preserving change in seeded/benign/ (different rounding, same semantics; each
passes the unedited suite) to /repo in turn, run EVERY check's quick tier, undo it. A check that reports a VIOLATION on one
of these demands more than its property. Results: seeded/benign/RESULTS.md."""
import os, re, subprocess, sys, time
ROOT = "/verif"
# PV_BENIGN_CHECKS=C01,C02,...  restricts the run to these checks and writes RESULTS-subset.md instead of RESULTS.md
ONLY = [c for c in os.environ.get("PV_BENIGN_CHECKS", "").split(",") if c]
assert subprocess.run(["git", "-C", "/repo", "diff", "--quiet"]).returncode == 0, "/repo has uncommitted changes"
rows = []
for f in sorted(os.listdir(f"{ROOT}/seeded/benign")):
    if not f.endswith(".diff"):
        continue
    p = f"{ROOT}/seeded/benign/{f}"
    subprocess.run(["git", "-C", "/repo", "apply", p], check=True)
    try:
        for i in range(1, 21):
            cid = "C%02d" % i
            if ONLY and cid not in ONLY:
                continue
            t0 = time.time()
            r = subprocess.run([f"{ROOT}/check", cid, "quick"], cwd=ROOT, capture_output=True, text=True, timeout=3600)
            out = r.stdout + r.stderr
            viol = [l for l in out.split("\n") if l.startswith("VIOLATION")]
            first = ""
            m = re.search(r"^VIOLATION.*\n((?:  .*\n){1,3})", out, re.M)
            if m:
                first = " ".join(x.strip() for x in m.group(1).split("\n"))[:300]
            rows.append((f, cid, r.returncode, len(viol), first))
            print(f, cid, r.returncode, len(viol), first[:200], round(time.time() - t0), flush=True)
    finally:
        subprocess.run(["git", "-C", "/repo", "checkout", "--", "."], check=True)
        subprocess.run(["git", "-C", ROOT, "clean", "-fdq", "replays/"])
subprocess.run(["git", "-C", ROOT, "checkout", "--", "evidence/"])
with open(f"{ROOT}/seeded/benign/" + ("RESULTS-subset.md" if ONLY else "RESULTS.md"), "w") as fh:
    fh.write("| behaviour-preserving change | checks silent | checks that raised an alarm |\n|---|---|---|\n")
    for f in sorted(set(r[0] for r in rows)):
        mine = [r for r in rows if r[0] == f]
        bad = [r for r in mine if r[2] != 0]
        fh.write("| %s | %d of %d | %s |\n" % (f, len(mine) - len(bad), len(mine), "; ".join("%s (exit %d): %s" % (r[1], r[2], r[4].replace("|", "\\|")) for r in bad) or "none"))
