#!/bin/sh
# tools/confirm_seed.sh <Cxx> <A|B>   confirm a seeded change in its scratch worktree /tmp/seed-<Cxx>:
#  (1) applies, (2) workspace builds and the existing suite passes, (3) demo fails with it, (4) demo passes without it.
id="$1"; v="$2"
r="${SEED_ROUND:-}"   # "" for the first round, 2 for the second (worktrees /tmp/seed2-Cxx, output /tmp/seedout2-Cxx)
wt=/tmp/seed$r-$id; src=/tmp/seedout$r-$id/$v
out=/tmp/confirm$r-$id-$v.log
: > $out
cd $wt || exit 2
git checkout -q -- . ; rm -rf palette/tests/demo.rs
git apply --check "$src/patch.diff" || { echo "RESULT $id-$v patch-does-not-apply" | tee -a $out; exit 1; }
git apply "$src/patch.diff"
export CARGO_NET_OFFLINE=true
cargo test --workspace --no-fail-fast --offline > $out.suite 2>&1; src_rc=$?
passed=$(grep -E "^test result" $out.suite | awk '{s+=$4} END {print s}')
failed=$(grep -E "^test result" $out.suite | awk '{s+=$6} END {print s}')
mkdir -p palette/tests && cp "$src/demo.rs" palette/tests/demo.rs
cargo test -p palette --offline --features "random serializing wide gamma_lut_u16" --test demo > $out.demo_mut 2>&1; demo_mut=$?
git checkout -q -- .
cargo test -p palette --offline --features "random serializing wide gamma_lut_u16" --test demo > $out.demo_clean 2>&1; demo_clean=$?
rm -rf palette/tests
echo "RESULT $id-$v suite_rc=$src_rc passed=$passed failed=$failed demo_with_change_rc=$demo_mut demo_without_change_rc=$demo_clean" | tee -a $out
