#!/usr/bin/env python3
"""Generates harness/src/types_gen.rs: the concrete type matrix (DESIGN 3.1).
Spaces are (name, rust type with {T}, family); pairs that do not exist in palette are listed in EXCLUDE."""
import itertools, os
ROOT = os.path.dirname(os.path.dirname(os.path.abspath(__file__)))

# name, type template, family
K18 = [
 ("Srgb", "palette::Srgb<{T}>"),
 ("LinSrgb", "palette::LinSrgb<{T}>"),
 ("Xyz", "palette::Xyz<D65, {T}>"),
 ("Yxy", "palette::Yxy<D65, {T}>"),
 ("Lab", "palette::Lab<D65, {T}>"),
 ("Lch", "palette::Lch<D65, {T}>"),
 ("Luv", "palette::Luv<D65, {T}>"),
 ("Lchuv", "palette::Lchuv<D65, {T}>"),
 ("Hsluv", "palette::Hsluv<D65, {T}>"),
 ("Hsl", "palette::Hsl<ESrgb, {T}>"),
 ("Hsv", "palette::Hsv<ESrgb, {T}>"),
 ("Hwb", "palette::Hwb<ESrgb, {T}>"),
 ("Oklab", "palette::Oklab<{T}>"),
 ("Oklch", "palette::Oklch<{T}>"),
 ("Okhsl", "palette::Okhsl<{T}>"),
 ("Okhsv", "palette::Okhsv<{T}>"),
 ("Okhwb", "palette::Okhwb<{T}>"),
 ("Lms", "palette::lms::Lms<WithLmsMatrix<D65, VonKries>, {T}>"),
]
EXT = [
 ("Luma", "palette::SrgbLuma<{T}>"),
 ("LinLuma", "palette::LinLuma<D65, {T}>"),
 ("AdobeRgb", "Rgb<AdobeRgb, {T}>"),
 ("LinAdobeRgb", "Rgb<Linear<AdobeRgb>, {T}>"),
 ("Rec709", "Rgb<Rec709, {T}>"),
 ("Rec2020", "Rgb<Rec2020, {T}>"),
 ("LinRec2020", "Rgb<Linear<Rec2020>, {T}>"),
 ("DisplayP3", "Rgb<DisplayP3, {T}>"),
 ("LinDisplayP3", "Rgb<Linear<DisplayP3>, {T}>"),
 ("DciP3", "Rgb<DciP3, {T}>"),
 ("LinDciP3", "Rgb<Linear<DciP3>, {T}>"),
 ("ProPhoto", "Rgb<ProPhotoRgb, {T}>"),
 ("LinProPhoto", "Rgb<Linear<ProPhotoRgb>, {T}>"),
 ("Xyz<D50>", "palette::Xyz<D50, {T}>"),
 ("Lab<D50>", "palette::Lab<D50, {T}>"),
 ("Lch<D50>", "palette::Lch<D50, {T}>"),
 ("Luv<D50>", "palette::Luv<D50, {T}>"),
 ("Yxy<D50>", "palette::Yxy<D50, {T}>"),
 ("Xyz<DciWhite>", "palette::Xyz<DciP3, {T}>"),
 ("Hsl<AdobeRgb>", "palette::Hsl<AdobeRgb, {T}>"),
 ("Hsv<AdobeRgb>", "palette::Hsv<AdobeRgb, {T}>"),
 ("Hwb<Rec2020>", "palette::Hwb<Rec2020, {T}>"),
 ("Hsl<LinSrgb>", "palette::Hsl<Linear<ESrgb>, {T}>"),
 ("Hsv<LinSrgb>", "palette::Hsv<Linear<ESrgb>, {T}>"),
 ("Hsv<Rec709>", "palette::Hsv<Rec709, {T}>"),
 ("Hwb<LinSrgb>", "palette::Hwb<Linear<ESrgb>, {T}>"),
 ("Lms<Bradford>", "palette::lms::Lms<WithLmsMatrix<D65, Bradford>, {T}>"),
 ("Lab<A>", "palette::Lab<palette::white_point::A, {T}>"),
 ("Xyz<A>", "palette::Xyz<palette::white_point::A, {T}>"),
 ("Luv<E>", "palette::Luv<palette::white_point::E, {T}>"),
 ("Xyz<E>", "palette::Xyz<palette::white_point::E, {T}>"),
 ("Lchuv<D50>", "palette::Lchuv<D50, {T}>"),
 ("Hsluv<D50>", "palette::Hsluv<D50, {T}>"),
 # luma of other standards / white points (cross-standard shortcut in luma/luma.rs, per-standard transfer functions)
 ("Luma<Rec709>", "palette::luma::Luma<Rec709, {T}>"),
 ("Luma<AdobeRgb>", "palette::luma::Luma<AdobeRgb, {T}>"),
 ("Luma<Rec2020>", "palette::luma::Luma<Rec2020, {T}>"),
 ("Luma<DciP3>", "palette::luma::Luma<DciP3, {T}>"),
 ("LinLuma<D50>", "palette::LinLuma<D50, {T}>"),
]
# every remaining built-in white point at least once (the CIE constants of white_point.rs are only observable through a
# space parametrised by them): Xyz<W> plus one or two CIE spaces relative to W
WP_EXTRA = {
    "B": ["Lab"], "C": ["Luv"], "D55": ["Lab", "Luv", "Yxy", "LinLuma"], "D75": ["Lab", "Lchuv"], "F2": ["Luv"], "F7": ["Lab"], "F11": ["Luv", "Yxy"],
    "D50Degree10": ["Lab"], "D55Degree10": ["Luv"], "D65Degree10": ["Lab", "Yxy"], "D75Degree10": ["Luv"],
}
WP_PAIRS = []
for w, kinds in WP_EXTRA.items():
    EXT.append(("Xyz<%s>" % w, "palette::Xyz<palette::white_point::%s, {T}>" % w))
    for k in kinds:
        EXT.append(("%s<%s>" % (k, w), "palette::%s<palette::white_point::%s, {T}>" % (k, w)))
        if k == "Lchuv":
            EXT.append(("Luv<%s>" % w, "palette::Luv<palette::white_point::%s, {T}>" % w))
            WP_PAIRS += [("Xyz<%s>" % w, "Luv<%s>" % w), ("Luv<%s>" % w, "Lchuv<%s>" % w)]
        else:
            WP_PAIRS.append(("Xyz<%s>" % w, "%s<%s>" % (k, w)))
SPACES = K18 + EXT
IDX = {n: i for i, (n, _) in enumerate(SPACES)}

# pairs of K18 that have no impl on the pinned tree (found by compiling)
EXCLUDE = set()
for a in ["LinSrgb"]:
    for b in ["Hsl", "Hsv", "Hwb"]:
        EXCLUDE.add((a, b)); EXCLUDE.add((b, a))
EXCLUDE.add(("Okhwb", "Okhwb"))

pairs = []
for (a, _), (b, _) in itertools.product(K18, K18):
    if (a, b) in EXCLUDE: continue
    pairs.append((a, b, "k18"))
def both(a, b, fam="ext"):
    pairs.append((a, b, fam)); pairs.append((b, a, fam))
# luma (target excluded from round trips by the property; conversions still exist)
for k in ["Srgb", "LinSrgb", "Xyz", "Yxy", "Lab", "Oklab", "Hsv"]:
    both(k, "Luma")
both("Luma", "LinLuma"); both("LinLuma", "Xyz"); both("LinLuma", "LinSrgb")
# RGB standards <-> their XYZ and linear forms
both("AdobeRgb", "Xyz"); both("LinAdobeRgb", "Xyz"); both("AdobeRgb", "LinAdobeRgb")
both("Rec709", "Xyz"); both("Rec709", "LinSrgb"); both("Rec709", "Srgb")
both("Rec2020", "Xyz"); both("LinRec2020", "Xyz"); both("Rec2020", "LinRec2020")
both("DisplayP3", "Xyz"); both("LinDisplayP3", "Xyz"); both("DisplayP3", "LinDisplayP3")
both("DciP3", "Xyz<DciWhite>"); both("LinDciP3", "Xyz<DciWhite>"); both("DciP3", "LinDciP3")
both("ProPhoto", "Xyz<D50>"); both("LinProPhoto", "Xyz<D50>"); both("ProPhoto", "LinProPhoto")
# same white point, different standard (same standard / same primaries / via XYZ branches)
d65 = ["Srgb", "LinSrgb", "AdobeRgb", "LinAdobeRgb", "Rec709", "Rec2020", "LinRec2020", "DisplayP3", "LinDisplayP3"]
for a, b in itertools.combinations(d65, 2):
    if (a, b, "ext") not in pairs and (a, b, "k18") not in pairs:
        both(a, b)
# cylindrical spaces of other standards
both("Hsl<AdobeRgb>", "AdobeRgb"); both("Hsv<AdobeRgb>", "AdobeRgb"); both("Hsl<AdobeRgb>", "Hsv<AdobeRgb>")
both("Hwb<Rec2020>", "Rec2020"); both("Hsl<LinSrgb>", "LinSrgb"); both("Hsv<LinSrgb>", "LinSrgb"); both("Hwb<LinSrgb>", "LinSrgb")
both("Hsl", "Hsl<AdobeRgb>"); both("Hsv", "Hsv<AdobeRgb>"); both("Hsl", "Hsl<LinSrgb>"); both("Hsv", "Hsv<LinSrgb>"); both("Hsv", "Hsv<Rec709>"); both("Hwb", "Hwb<LinSrgb>"); both("Hwb", "Hwb<Rec2020>")
both("Hsv<Rec709>", "Rec709"); both("Hsv<LinSrgb>", "Hsv<Rec709>")
both("Hsl<AdobeRgb>", "Xyz"); both("Hsv<LinSrgb>", "Lab")
# an XYZ hub for every cylindrical variant, so that each cross-standard Hsl/Hsv/Hwb pair has a step-by-step route to compare with
for v in ["Hsv<AdobeRgb>", "Hwb<Rec2020>", "Hsl<LinSrgb>", "Hsv<LinSrgb>", "Hwb<LinSrgb>", "Hsv<Rec709>"]:
    both(v, "Xyz")
# other white points
both("Xyz<D50>", "Lab<D50>"); both("Lab<D50>", "Lch<D50>"); both("Xyz<D50>", "Luv<D50>"); both("Xyz<D50>", "Yxy<D50>"); both("Lab<D50>", "ProPhoto"); both("Lch<D50>", "LinProPhoto")
both("Luv<D50>", "Lchuv<D50>"); both("Lchuv<D50>", "Hsluv<D50>"); both("Hsluv<D50>", "Xyz<D50>")
both("Xyz<A>", "Lab<A>"); both("Xyz<E>", "Luv<E>")
# Oklab <-> RGB standards (direct matrices for sRGB primaries, XYZ otherwise)
both("Oklab", "AdobeRgb"); both("Oklab", "LinRec2020"); both("Oklab", "Rec709"); both("Oklch", "DisplayP3"); both("Okhsv", "Rec709")
both("Lms<Bradford>", "Xyz"); both("Lms<Bradford>", "Srgb")
both("Luma<Rec709>", "Luma"); both("Luma<Rec709>", "Xyz"); both("Luma<Rec709>", "Rec709"); both("Luma<Rec709>", "LinLuma"); both("Luma<Rec709>", "Srgb")
both("Luma<AdobeRgb>", "AdobeRgb"); both("Luma<AdobeRgb>", "Luma"); both("Luma<AdobeRgb>", "Yxy"); both("Luma<AdobeRgb>", "LinAdobeRgb")
both("Luma<Rec2020>", "Rec2020"); both("Luma<Rec2020>", "LinRec2020"); both("Luma<Rec2020>", "Luma<Rec709>"); both("Luma<Rec2020>", "Lab")
both("Luma<DciP3>", "Xyz<DciWhite>"); both("Luma<DciP3>", "DciP3"); both("Luma<DciP3>", "LinDciP3")
both("LinLuma<D50>", "Xyz<D50>"); both("LinLuma<D50>", "ProPhoto"); both("LinLuma<D50>", "Lab<D50>"); both("LinLuma<D50>", "Yxy<D50>")
for a, b in WP_PAIRS:
    both(a, b)
both("Lab", "Rec2020"); both("Lch", "AdobeRgb"); both("Luv", "LinRec2020"); both("Hsluv", "AdobeRgb")

out = []
out.append("// GENERATED by tools/gen_types.py - do not edit by hand.")
out.append("pub const SPACE_NAMES: &[&str] = &[%s];" % ", ".join('"%s"' % n for n, _ in SPACES))
out.append("pub const N_K18: usize = %d;" % len(K18))
for n, t in SPACES:
    if n.split("<")[0] in ("Luma", "LinLuma"):
        for T in ("f32", "f64"):
            out.append("tri1!(%s, %s);" % (t.format(T=T), T))
    else:
        for T in ("f32", "f64"):
            out.append("tri3!(%s, %s);" % (t.format(T=T), T))
out.append("pub fn conversions() -> Vec<Conv> {\n    vec![")
seen = set()
for a, b, fam in pairs:
    if (a, b) in seen: continue
    seen.add((a, b))
    ta, tb = SPACES[IDX[a]][1], SPACES[IDX[b]][1]
    out.append("        conv!(%d, %d, %s, %s, %s, %s, %s)," % (IDX[a], IDX[b], "true" if fam == "k18" else "false",
               ta.format(T="f64"), tb.format(T="f64"), ta.format(T="f32"), tb.format(T="f32")))
out.append("    ]\n}")
open(os.path.join(ROOT, "harness", "src", "types_gen.rs"), "w").write("\n".join(out) + "\n")
print("spaces", len(SPACES), "conversions", len(seen))
