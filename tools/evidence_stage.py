#!/usr/bin/env python3
"""evidence_stage.py <Cxx> <stage> key=value ...   merge the result of an extra stage (fuzz, Miri) into evidence/<Cxx>.json
under coverage.stages.<stage>; numeric values are stored as numbers."""
import json, sys
cid, stage = sys.argv[1], sys.argv[2]
path = f"/verif/evidence/{cid}.json" if not sys.argv[0].startswith("/root/.vp") else f"evidence/{cid}.json"
import os
path = os.path.join(os.environ.get("PV_ROOT", os.path.dirname(os.path.dirname(os.path.abspath(__file__)))), "evidence", f"{cid}.json")
ev = json.load(open(path))
d = {}
for kv in sys.argv[3:]:
    k, v = kv.split("=", 1)
    try:
        v = int(v)
    except ValueError:
        try:
            v = float(v)
        except ValueError:
            pass
    d[k] = v
ev.setdefault("coverage", {}).setdefault("stages", {})[stage] = d
json.dump(ev, open(path, "w"), indent=2)
