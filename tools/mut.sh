#!/bin/sh
# tools/mut.sh <patch.diff> <Cxx> [quick|thorough]  -- apply a seeded change to /repo, run the check, undo it
patch="$1"; id="$2"; tier="${3:-quick}"
cd /repo || exit 2
git diff --quiet || { echo "/repo has uncommitted changes"; exit 2; }
git apply "$patch" || { echo "patch does not apply"; exit 2; }
cd /verif && ./check "$id" "$tier" > /tmp/mut-$id.log 2>&1; rc=$?
git -C /repo checkout -- . 
# drop replay files written while mutated (untracked ones only)
git -C /verif clean -fdq replays/ 2>/dev/null
echo "exit=$rc"; grep -E "^VIOLATION|INCONCLUSIVE" /tmp/mut-$id.log | head -5; grep -A3 "^VIOLATION" /tmp/mut-$id.log | head -12 | tail -8
exit 0
