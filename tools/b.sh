#!/bin/sh
# build one harness bin, print only errors (and warnings from the bin itself)
cd /verif/harness && cargo build --release --offline --bin "$1" 2>&1 | awk '/^error/{p=1} /^warning: unused|^warning: unreachable/{p=1} /^warning: (struct|unexpected|hiding|`palette)/{p=0} /^$/{if(p)print; p=p} p' | head -${2:-120}
