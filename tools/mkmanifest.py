#!/usr/bin/env python3
"""Regenerates /verif/MANIFEST.json from the table below (a property is claimed once its binary exists)."""
import json, os, sys
ROOT = os.path.dirname(os.path.dirname(os.path.abspath(__file__)))

P = {
 "C01": dict(tech="property-based testing: generated colours over a macro-generated type-pair matrix; round-trip, commutation (metamorphic) and alpha-transparency oracles in a cartesian embedding",
             text="Generated-input exploration of every existing ordered pair of the conversion group (f32 and f64, with and without Alpha): A->B->A round trip, direct vs. via-intermediate commutation, bitwise alpha transparency; tolerances by path tier (1e-10 / 2e-5 / 6e-4; f32 2e-3 after a conditioning filter), replaced by a measured-conditioning bound where a case exceeds its tier; every intermediate space of the 85-space matrix (RGB standards, luma standards, every built-in white point); three user-defined types converted through #[derive]. No absence claim.",
             note="Trusts the harness' embedding and the independent f64 reference used to place source colours; tolerances calibrated on the pinned tree; domain rules (knee sliver, L* < 1e-5 black flush, hexcone representability) in DESIGN 0.3.", ref="4/C01"),
 "C02": dict(tech="property-based differential testing against independent f64 reference formulas written from the publications, with threshold-straddling generators",
             text="Every directly implemented conversion step is compared with an independently written f64 reference (CIE 15, RGB standards with derived matrices, hexcone HSL/HSV/HWB, Ottosson ok_color, HSLuv reference) on generated and threshold-straddling inputs.",
             note="The references are the trusted base; they are self-checked at start-up against published sample values (Lindbloom's sRGB matrix, Ottosson's Oklab examples, Lab / HSLuv / Okhsl / Okhsv of sRGB red). Direct conversions are found mechanically: the table entries (of 601) for which a published relation exists.", ref="4/C02"),
 "C03": dict(tech="property-based testing with a model clamp derived from the public min/max accessors; far-out mixed-direction generators",
             text="Generated far-out-of-range colours for every Clamp/IsWithinBounds implementor (bare, Alpha, slices, integer components): clamp is within bounds, identity on in-bounds input, idempotent, equals the model clamp; from_color == unclamped+clamp, try_from_color Ok iff in bounds.",
             note="Model clamp written from the documented accessors; Okhsv's documented 1e-6 saturation slack is part of the model. Integer-component types and slices of SIMD colours included; the harness builds with overflow checks so an overflow inside palette is a reported panic.", ref="4/C03"),
 "C04": dict(tech="property-based testing of pointer/length/capacity/bit equality over generated buffers; Miri and ASan-libFuzzer as execution oracles in the thorough tier",
             text="Generated buffers (length and capacity independent, arbitrary bit patterns) through every cast form: same address, exact length/capacity scaling, declared field order, bitwise round trip, rejection iff length/capacity not a multiple with the buffer handed back.",
             note="Layout table written from the struct definitions; memory-safety half decided only by the Miri/ASan stages on the generated cases.", ref="4/C04"),
 "C05": dict(tech="exhaustive enumeration of all 2^32 f32 bit patterns and all integer codes plus generated threshold-straddling floats against independent reference curves",
             text="All f32 bit patterns through the five float->integer LUT encoders (no out-of-range index via the palette_verif hook, monotone, saturating, |code - curve*MAX| < 0.6, exact away from ties), every code through the decoders, float curves against the standards' formulas, mutual inverse, monotone apart from the <1e-6 knee step.",
             note="Reference curves written from the standards in f64; f64 encoder inputs are sampled, not enumerated.", ref="4/C05"),
 "C06": dict(tech="exhaustive enumeration of all 2^32 f32 bit patterns for all five unsigned targets and of all u8/u16(/u32) sources; generated boundary/tie/special f64, u64 and u128 values; exact integer oracle",
             text="Exhaustive over f32 sources and 8/16(/32)-bit integer sources, generated search elsewhere: saturation, nearest-integer within one rounding of the product, monotonicity against the neighbouring representable value, exact widening, widen/narrow and int->float->int identities for all 42 format pairs; into_format / from_format of every colour type (bare and Alpha) field by field.",
             note="Oracle arithmetic in f64/u128 written in the harness; f64/u64/u128 sources are sampled with boundary-weighted generators.", ref="4/C06"),
 "C07": dict(tech="complete enumeration of the boundary lattice per type plus generated in-range colours through every conversion pair, operator, blend and difference under catch_unwind; finiteness oracle",
             text="The property's own boundary lattice (each component at min/max/zero/+-1e-9 range/mid) is enumerated completely for every type and every existing conversion pair, operator, blend mode and difference measure, f32 and f64; oracle: finite components, no panic.",
             note="Finite-ness only; values are C02's job. Lattice spacing follows the property's 1e-9 carve-out.", ref="4/C07"),
 "C08": dict(tech="property-based differential testing against an independent W3C compositing reference plus algebraic identities",
             text="Generated source/backdrop colours and alphas in [0,1]^8 (branch points weighted) through 11 blend modes and 6 Porter-Duff operators for opaque, Alpha and PreAlpha inputs; compared with the W3C formulas, range, opaque reduction, over/transparent identities, symmetry, premultiply round trip.",
             note="W3C formulas re-implemented in f64 in the harness.", ref="4/C08"),
 "C09": dict(tech="property-based differential testing against an independent Sharma CIEDE2000 reference and closed forms; metric laws; structured pair generators at hue discontinuities",
             text="Generated colour pairs (hues straddling 0/360, achromatic, near-180 excluded as stated) compared with Sharma's CIEDE2000 reference, closed forms for DeltaE/HyAB/improved variants, polar == rectangular, non-negativity, symmetry, identity, WCAG contrast range and predicates (current and deprecated trait, 21 types).",
             note="Sharma reference and WCAG luminance re-implemented in f64 and self-checked against Sharma's 34 published pairs.", ref="4/C09"),
 "C10": dict(tech="property-based testing of algebraic laws and bitwise variant agreement (assign / slice / Alpha / by-value) for every operator trait implementor",
             text="Generated colours and factors in a superset of [-1,2]: mix end points, clamped factor, betweenness, shorter hue arc; lighten/saturate monotone toward the limit, range, other components untouched, darken == lighten(-x); assign/slice/Alpha forms bitwise equal to the by-value form.",
             note="Operator laws taken from the trait documentation.", ref="4/C10"),
 "C11": dict(tech="exhaustive enumeration of every f32 angle with |x| <= 2^20 and all 8-bit hues, generated f64 angles; exact modular arithmetic oracle",
             text="All f32 bit patterns up to 2^20 in magnitude for normalisation range and congruence, integer and dyadic angles for equality under whole turns, cartesian round trip on a dense circle, all 256 8-bit hues, every operator form (hue/scalar on either side, assigning, saturating) and float conversions, for the hue types.",
             note="Exact residues computed in f64/i128 in the harness.", ref="4/C11"),
 "C12": dict(tech="exhaustive enumeration (2^24 hex colours, packed words, all strings of <=4 symbols) plus generated strings against a model parser; libFuzzer target in the thorough tier",
             text="All 2^24 Rgb<u8> through hex formatting and parsing, packed integers for the four RGBA and two luma orders, every SVG name and near misses against the text file, and strings over an adversarial alphabet against a model of the documented grammar ('#'? HEX{n}); never a panic.",
             note="Model parser written from the documented grammar; the name table is a committed snapshot (harness/src/named_table.rs) of the 148 SVG names.", ref="4/C12"),
 "C13": dict(tech="model-based stateful property testing: generated guard-operation programs interpreted against an out-of-place reference model; libFuzzer (ASan) target with the same oracle and a Miri stage in the thorough tier",
             text="Generated buffers and programs over {deref, mutate, then_into, into_unclamped/clamped_guard, restore, drop, forget} for a closed universe of layout-compatible types, compared bitwise with plain out-of-place conversion; same address/length/capacity.",
             note="Reference model = Vec + ordinary from_color/from_color_unclamped.", ref="4/C13"),
 "C14": dict(tech="complete enumeration of the finite configuration axes (RGB standards, white-point pairs, cone matrices) with generated grey levels and XYZ colours against independent published tables",
             text="Every RGB standard, white point and ordered adaptation pair x Bradford/von Kries/XYZ scaling: white -> white point -> L*=100/zero chroma/Oklab(1,0,0)/CAM16 J=100, greys stay neutral, matrices are mutual inverses and equal the matrix derived from the primaries, adaptation maps white to white, identity and round trip; user-defined white points with Y != 1.",
             note="White points and primaries re-entered from the publications in the harness.", ref="4/C14"),
 "C15": dict(tech="property-based testing with dense hue/saturation/lightness grids and gamut-surface RGB generators; containment and round-trip oracles",
             text="Generated and gridded in-bounds colours of the seven gamut-bounded cylindrical spaces convert into [0,1]^3 within stated per-space tolerances; in-gamut RGB converts within bounds and back to the same colour.",
             note="Tolerances are about 2x the worst excursion found on the pinned tree (DESIGN 4/C15 as built): they are the explicit form of the statement's 'small tolerance'; three open findings at the tips of the Ok / HSLuv gamuts and at the blue hue are excluded by key.", ref="4/C15"),
 "C16": dict(tech="property-based testing: generated XYZ x viewing conditions; round-trip, partial/full consistency and differential check against the published CAM16 equations",
             text="Generated colours and viewing conditions (luminances, surround, discounting, static/dynamic white): XYZ->CAM16->XYZ for the full and six partial types, partial == full attributes, UCS Jab<->Jmh<->Jmh lossless, forward model vs. Li et al.'s equations.",
             note="CAM16 reference in the original Li et al. form written in the harness.", ref="4/C16"),
 "C17": dict(tech="property-based differential testing of SIMD lanes against scalar results with independently generated lanes; permutation metamorphism; mask semantics",
             text="Lanes filled independently (different branches per lane) for f32x4/f32x8/f64x2/f64x4: lane i == scalar op on input i (bitwise where no approximate kernel is involved), lane permutation commutes, pack/unpack identity, mask compare/select lane-wise, every numeric / angle trait method of the vector types lane by lane, f32 vs f64 agreement; 2644 generated (vector type, conversion or operator, incl. assigning forms) entries.",
             note="f32 SIMD tolerance reflects wide's approximate reciprocal/transcendentals (DESIGN 4/C17).", ref="4/C17"),
 "C18": dict(tech="model-based stateful property testing: generated operation sequences against Vec<Color>; libFuzzer (ASan) target with the same oracle and a Miri stage in the thorough tier",
             text="Generated programs over push/pop/extend/collect/clear/drain/get/get_mut/iter/iter_mut/rev/len for colour types with and without hue and alpha, compared step by step with a plain Vec of colours (contents, lengths, yielded items, panics).",
             note="Reference model = Vec<Color>.", ref="4/C18"),
 "C19": dict(tech="property-based testing over RNG seeds and generated end points; fixed-seed Kolmogorov-Smirnov statistics for volume uniformity",
             text="Standard-distribution samples are within bounds; uniform samplers stay between the ends (hue on the arc, HWB via equivalent HSV; Alpha-wrapped samplers for four alpha formats incl. coincident ends); cone/bicone volume uniformity decided by KS statistics of the transformed variates with fixed seeds and a wide margin.",
             note="Statistical clause decided at fixed seeds (pure function of tree + VERIF_SEED); residual false-alarm probability < 1e-6 per seed.", ref="4/C19"),
 "C20": dict(tech="property-based round-trip testing through serde_json, RON and an in-harness compact sequence format; shape oracle on the serialized value",
             text="Generated colours of every serialisable type (bare, Alpha, PreAlpha) through JSON, RON and a compact non-self-describing format: bitwise round trip, flat shape with alpha at the same level, bare-number hue, no metadata keys, optional alpha helpers, as_array/as_uint helpers.",
             note="Field-name table written from the struct definitions.", ref="4/C20"),
}

NOT_BUILT_REASON = "check not built yet in this round (work in progress; see DESIGN.md) - not claimed until its binary exists"

def main():
    checks, na = [], []
    engines = []
    for pid in sorted(P):
        b = pid.lower()
        src = os.path.join(ROOT, "harness", "src", "bin", b + ".rs")
        if not os.path.exists(src):
            na.append({"property_id": pid, "reason": NOT_BUILT_REASON})
            continue
        p = P[pid]
        checks.append({
            "property_id": pid,
            "quick_cmd": "./check %s quick" % pid,
            "thorough_cmd": "./check %s thorough" % pid,
            "evidence_file": "evidence/%s.json" % pid,
            "replay_cmd_template": "./check %s --replay {path}" % pid,
            "engine": b,
            "level_claimed": {"category": "exploration", "text": p["text"], "design_ref": "DESIGN.md section " + p["ref"]},
            "level_note": p["note"],
            "technique": p["tech"],
        })
        engines.append({"name": b, "path": "harness/src/bin/%s.rs" % b, "serves_properties": [pid],
                        "kind_free_text": "proptest TestRunner workers + enumerating sweeps (harness/src/runner.rs)"})
    hooks_file = os.path.join(ROOT, "tools", "hook_commits.txt")
    commits = [l.strip() for l in open(hooks_file)] if os.path.exists(hooks_file) else []
    m = {
        "version": 1,
        "setup_cmd": "cd /verif/harness && CARGO_NET_OFFLINE=true cargo build --release --offline --bins",
        "hooks": {
            "guard": "palette_verif",
            "enable": "rustc --cfg palette_verif, set through [build] rustflags in /verif/harness/.cargo/config.toml; off by default in /repo",
            "baseline_off_cmd": "cd /repo && cargo test --workspace --no-fail-fast --offline",
            "source_commits": commits,
            "add_only": True,
        },
        "engines": engines,
        "checks": checks,
        "notes": "All checks are property-based testing / exhaustive enumeration / fuzzing (see DESIGN.md). Exit 0 = held, 1 = VIOLATION line, 2 = inconclusive. Known findings: known_findings.txt.",
        "not_applicable": na,
    }
    json.dump(m, open(os.path.join(ROOT, "MANIFEST.json"), "w"), indent=1)
    print("checks:", len(checks), "not_applicable:", len(na))

main()
