#!/usr/bin/env python3
"""Generate harness/tables/c17_tables.rs: every conversion and operator that exists for wide vector components.

Usage: gen_simd.py            write the table (minus the entries listed in tools/c17_exclude.txt)
       gen_simd.py --prune    build c17 repeatedly, moving entries that do not compile (no impl for vector
                              components on this tree) to tools/c17_exclude.txt
"""
import os, re, subprocess, sys
ROOT = os.path.dirname(os.path.dirname(os.path.abspath(__file__)))
OUT = os.path.join(ROOT, "harness", "tables", "c17_tables.rs")
EXC = os.path.join(ROOT, "tools", "c17_exclude.txt")

VECS = [(0, "f32x4", "f32", 4), (1, "f32x8", "f32", 8), (2, "f64x2", "f64", 2), (3, "f64x4", "f64", 4)]
# name in types::SPACE_NAMES, generic alias
TYPES = [("Srgb", "TSrgb"), ("LinSrgb", "TLinSrgb"), ("Xyz", "TXyz"), ("Yxy", "TYxy"), ("Lab", "TLab"), ("Lch", "TLch"),
         ("Hsl", "THsl"), ("Hsv", "THsv"), ("Hwb", "THwb"), ("Oklab", "TOklab"), ("Oklch", "TOklch"), ("Lms", "TLms"),
         ("Luma", "TLuma"), ("LinLuma", "TLinLuma"), ("Luv", "TLuv"), ("Lchuv", "TLchuv"), ("Hsluv", "THsluv"),
         ("Okhsl", "TOkhsl"), ("Okhsv", "TOkhsv"), ("Okhwb", "TOkhwb")]
# other RGB standards: their own transfer functions and matrices under vector components
EXTRA = [("Rec709", "TRec709"), ("Rec2020", "TRec2020"), ("LinRec2020", "TLinRec2020"), ("AdobeRgb", "TAdobeRgb"), ("LinAdobeRgb", "TLinAdobeRgb"), ("DisplayP3", "TDisplayP3")]
HUE = {"Lch", "Hsl", "Hsv", "Hwb", "Oklch", "Lchuv", "Hsluv", "Okhsl", "Okhsv", "Okhwb"}
SAT = {"Lch", "Hsl", "Hsv", "Oklch", "Lchuv", "Hsluv", "Okhsl", "Okhsv"}
ARITH = {"Srgb", "LinSrgb", "Xyz", "Yxy", "Lab", "Oklab", "Lms", "Luma", "LinLuma", "Luv"}
BLEND = {"LinSrgb", "Xyz", "Lms", "LinLuma"}
DIFF = {"Lab": ["delta_e", "improved_delta_e", "ciede", "hyab", "euclid"], "Lch": ["ciede"], "Oklab": ["hyab", "euclid", "delta_e", "improved_delta_e"],
        "LinSrgb": ["euclid", "wcag"], "Srgb": ["euclid"], "Xyz": ["euclid"], "Luv": ["euclid", "hyab"], "Oklch": ["delta_e"]}
BLEND_MODES = ["multiply", "screen", "overlay", "darken", "lighten", "dodge", "burn", "hard_light", "soft_light", "difference", "exclusion"]
COMPOSE = ["over", "inside", "outside", "atop", "xor", "plus"]

def entries():
    out = []
    for (vi, v, s, n) in VECS:
        full = v in ("f32x4", "f64x2")
        for (an, at) in TYPES:
            for (bn, bt) in TYPES:
                if not full and not (an == "Srgb" or bn == "Srgb" or an == "Xyz" or bn == "Xyz"):
                    continue
                out.append('conv_e!(%d, %s, %s, %d, "%s", %s, "%s", %s),' % (vi, v, s, n, an, at, bn, bt))
        hub = [t for t in TYPES if t[0] in ("Srgb", "LinSrgb", "Xyz", "Lab", "Hsv")]
        for (an, at) in EXTRA:
            for (bn, bt) in hub + EXTRA:
                out.append('conv_e!(%d, %s, %s, %d, "%s", %s, "%s", %s),' % (vi, v, s, n, an, at, bn, bt))
                if (bn, bt) in hub:
                    out.append('conv_e!(%d, %s, %s, %d, "%s", %s, "%s", %s),' % (vi, v, s, n, bn, bt, an, at))
        for (an, at) in TYPES:
            a = (vi, v, s, n, an, at)
            for op in ["clamp", "within", "mix", "lighten", "darken", "lighten_fixed", "darken_fixed"]:
                out.append('op_e!(%s, %d, %s, %s, %d, "%s", %s),' % ((op,) + a))
            # assigning forms: two vector types (one per scalar type) are enough, the impls are generic over the vector
            assign = v in ("f32x8", "f64x2")
            if assign:
                for op in ["clamp_assign", "mix_assign", "lighten_assign", "darken_assign", "lighten_fixed_assign", "darken_fixed_assign"]:
                    out.append('op_e!(%s, %d, %s, %s, %d, "%s", %s),' % ((op,) + a))
                if an in HUE:
                    for op in ["shift_hue_assign", "set_hue"]:
                        out.append('op_e!(%s, %d, %s, %s, %d, "%s", %s),' % ((op,) + a))
                if an in SAT:
                    for op in ["saturate_assign", "desaturate_assign", "saturate_fixed_assign"]:
                        out.append('op_e!(%s, %d, %s, %s, %d, "%s", %s),' % ((op,) + a))
                if an in ARITH:
                    for op in ["add_assign", "sub_assign", "mul_assign", "div_assign", "mul_scalar_assign"]:
                        out.append('op_e!(%s, %d, %s, %s, %d, "%s", %s),' % ((op,) + a))
            if an in HUE:
                for op in ["shift_hue", "get_hue", "with_hue"]:
                    out.append('op_e!(%s, %d, %s, %s, %d, "%s", %s),' % ((op,) + a))
            if an in SAT:
                for op in ["saturate", "desaturate", "saturate_fixed"]:
                    out.append('op_e!(%s, %d, %s, %s, %d, "%s", %s),' % ((op,) + a))
            if an in ARITH:
                for op in ["add", "sub", "mul", "div", "mul_scalar", "add_scalar"]:
                    out.append('op_e!(%s, %d, %s, %s, %d, "%s", %s),' % ((op,) + a))
            if an in BLEND:
                for op in ["premultiply"]:
                    out.append('op_e!(%s, %d, %s, %s, %d, "%s", %s),' % ((op,) + a))
                for m in BLEND_MODES:
                    out.append('blend_e!(%s, %d, %s, %s, %d, "%s", %s),' % ((m,) + a))
                for m in COMPOSE:
                    out.append('blend_e!(%s, %d, %s, %s, %d, "%s", %s),' % ((m,) + a))
            for d in DIFF.get(an, []):
                out.append('diff_e!(%s, %d, %s, %s, %d, "%s", %s),' % ((d,) + a))
            out.append('alpha_e!(%d, %s, %s, %d, "%s", %s),' % a)
    return out

def write(excluded):
    lines = [e for e in entries() if e not in excluded]
    with open(OUT, "w") as f:
        f.write("// GENERATED by tools/gen_simd.py - do not edit by hand.\n")
        f.write(open(os.path.join(ROOT, "tools", "c17_prelude.rs")).read())
        f.write("pub fn table() -> Vec<Entry> {\n    vec![\n")
        for l in lines:
            f.write("        " + l + "\n")
        f.write("    ]\n}\n")
    return lines

def main():
    excluded = set(l.rstrip("\n") for l in open(EXC)) if os.path.exists(EXC) else set()
    lines = write(excluded)
    if "--prune" not in sys.argv:
        print("entries:", len(lines), "excluded:", len(excluded)); return
    import json
    PREFIXES = ("conv_e!", "op_e!", "blend_e!", "diff_e!", "alpha_e!")
    while True:
        r = subprocess.run(["cargo", "build", "--release", "--offline", "--bin", "c17", "--message-format=json"], cwd=os.path.join(ROOT, "harness"), capture_output=True, text=True)
        if r.returncode == 0:
            break
        src = open(OUT).read().split("\n")
        bad = set(); other = []
        def site(span):
            # walk the macro expansion chain up to the table line that invoked it
            while span is not None:
                if span["file_name"].endswith("c17_tables.rs"):
                    l = src[span["line_start"] - 1].strip()
                    if l.startswith(PREFIXES):
                        return l
                exp = span.get("expansion")
                span = exp["span"] if exp else None
            return None
        for line in r.stdout.split("\n"):
            if not line.startswith("{"): continue
            m = json.loads(line)
            if m.get("reason") != "compiler-message" or m["message"]["level"] != "error": continue
            found = False
            for sp in m["message"]["spans"]:
                l = site(sp)
                if l: bad.add(l); found = True
            if not found and m["message"]["spans"]:
                other.append(m["message"]["rendered"])
        if not bad:
            sys.stderr.write("\n".join(other)[-8000:]); sys.exit("errors outside the table entries")
        excluded |= bad
        open(EXC, "w").write("\n".join(sorted(excluded)) + "\n")
        lines = write(excluded)
        print("excluded %d more (total %d), %d entries left" % (len(bad), len(excluded), len(lines)), flush=True)
    print("entries:", len(lines), "excluded:", len(excluded))
main()
