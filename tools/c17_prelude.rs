// ---- prelude (tools/c17_prelude.rs) ----
use palette::blend::{Blend, Compose, PreAlpha};
use palette::cast::ArrayCast;
use palette::color_difference::{Ciede2000, DeltaE, EuclideanDistance, HyAb, ImprovedDeltaE, Wcag21RelativeContrast};
use palette::convert::FromColorUnclamped;
use palette::white_point::D65;
use palette::{Alpha, Clamp as ColorClamp, ClampAssign as ColorClampAssign, Darken, DarkenAssign, Desaturate, DesaturateAssign, GetHue, IsWithinBounds, Lighten, LightenAssign, Mix, MixAssign, Saturate, SaturateAssign, SetHue, ShiftHue, ShiftHueAssign, WithAlpha, WithHue};

type TSrgb<T> = palette::Srgb<T>;
type TLinSrgb<T> = palette::LinSrgb<T>;
type TXyz<T> = palette::Xyz<D65, T>;
type TYxy<T> = palette::Yxy<D65, T>;
type TLab<T> = palette::Lab<D65, T>;
type TLch<T> = palette::Lch<D65, T>;
type TLuv<T> = palette::Luv<D65, T>;
type TLchuv<T> = palette::Lchuv<D65, T>;
type THsluv<T> = palette::Hsluv<D65, T>;
type THsl<T> = palette::Hsl<palette::encoding::Srgb, T>;
type THsv<T> = palette::Hsv<palette::encoding::Srgb, T>;
type THwb<T> = palette::Hwb<palette::encoding::Srgb, T>;
type TOklab<T> = palette::Oklab<T>;
type TOklch<T> = palette::Oklch<T>;
type TOkhsl<T> = palette::Okhsl<T>;
type TOkhsv<T> = palette::Okhsv<T>;
type TOkhwb<T> = palette::Okhwb<T>;
type TLms<T> = palette::lms::Lms<palette::lms::matrix::WithLmsMatrix<D65, palette::lms::matrix::VonKries>, T>;
type TLuma<T> = palette::SrgbLuma<T>;
type TRec709<T> = palette::rgb::Rgb<palette::encoding::Rec709, T>;
type TRec2020<T> = palette::rgb::Rgb<palette::encoding::Rec2020, T>;
type TLinRec2020<T> = palette::rgb::Rgb<palette::encoding::Linear<palette::encoding::Rec2020>, T>;
type TAdobeRgb<T> = palette::rgb::Rgb<palette::encoding::AdobeRgb, T>;
type TLinAdobeRgb<T> = palette::rgb::Rgb<palette::encoding::Linear<palette::encoding::AdobeRgb>, T>;
type TDisplayP3<T> = palette::rgb::Rgb<palette::encoding::DisplayP3, T>;
type TLinLuma<T> = palette::LinLuma<D65, T>;

pub struct Out {
    pub lanes: Vec<Vec<f64>>,
    pub scalar: Vec<Vec<f64>>,
    pub pack_ok: bool,
}
pub struct Entry {
    pub v: u8,
    pub name: &'static str,
    pub kind: &'static str,
    /// the space whose embedding compares the results ("" = plain numbers)
    pub out_space: &'static str,
    pub tol_scale: f64,
    pub run: fn(&[[f64; 4]], &[[f64; 4]], &[f64]) -> Out,
}

fn arr<C, T>(c: C) -> Vec<f64>
where
    C: ArrayCast,
    C::Array: IntoIterator<Item = T>,
    T: Into<f64>,
{
    palette::cast::into_array(c).into_iter().map(|v| v.into()).collect()
}
fn bits(v: &[f64]) -> Vec<u64> {
    v.iter().map(|x| x.to_bits()).collect()
}

/// lane inputs are sRGB colours; the source colour of each lane is their scalar conversion into the source space
macro_rules! src {
    ($A:ident, $S:ty, $N:expr, $l:expr) => {{
        let s: [$A<$S>; $N] = core::array::from_fn(|i| <$A<$S>>::from_color_unclamped(palette::Srgb::<$S>::new($l[i][0] as $S, $l[i][1] as $S, $l[i][2] as $S)));
        s
    }};
}
macro_rules! pack_check {
    ($A:ident, $V:ty, $S:ty, $N:expr, $src:expr) => {{
        let packed: $A<$V> = $src.into();
        let back: [$A<$S>; $N] = packed.into();
        let ok = (0..$N).all(|i| bits(&arr(back[i])) == bits(&arr($src[i])));
        (packed, ok)
    }};
}

macro_rules! conv_e {
    ($v:expr, $V:ty, $S:ty, $N:expr, $an:expr, $A:ident, $bn:expr, $B:ident) => {
        Entry { v: $v, name: concat!($an, " -> ", $bn), kind: "conversion", out_space: $bn, tol_scale: 1.0, run: {
            fn f(l: &[[f64; 4]], _l2: &[[f64; 4]], _f: &[f64]) -> Out {
                let src = src!($A, $S, $N, l);
                let (packed, pack_ok) = pack_check!($A, $V, $S, $N, src);
                let out: $B<$V> = <$B<$V>>::from_color_unclamped(packed);
                let lanes: [$B<$S>; $N] = out.into();
                Out { lanes: lanes.iter().map(|c| arr(*c)).collect(), scalar: src.iter().map(|c| arr(<$B<$S>>::from_color_unclamped(*c))).collect(), pack_ok }
            }
            f
        } }
    };
}

/// unary / binary operators that return a colour of the same type
macro_rules! op_body {
    (clamp, $x:ident, $y:ident, $f:ident, $t:ident) => { ColorClamp::clamp($x) };
    (mix, $x:ident, $y:ident, $f:ident, $t:ident) => { Mix::mix($x, $y, $f) };
    (lighten, $x:ident, $y:ident, $f:ident, $t:ident) => { Lighten::lighten($x, $f) };
    (darken, $x:ident, $y:ident, $f:ident, $t:ident) => { Darken::darken($x, $f) };
    (lighten_fixed, $x:ident, $y:ident, $f:ident, $t:ident) => { Lighten::lighten_fixed($x, $f) };
    (darken_fixed, $x:ident, $y:ident, $f:ident, $t:ident) => { Darken::darken_fixed($x, $f) };
    (saturate, $x:ident, $y:ident, $f:ident, $t:ident) => { Saturate::saturate($x, $f) };
    (desaturate, $x:ident, $y:ident, $f:ident, $t:ident) => { Desaturate::desaturate($x, $f) };
    (saturate_fixed, $x:ident, $y:ident, $f:ident, $t:ident) => { Saturate::saturate_fixed($x, $f) };
    (shift_hue, $x:ident, $y:ident, $f:ident, $t:ident) => { ShiftHue::shift_hue($x, $f * $t) };
    (with_hue, $x:ident, $y:ident, $f:ident, $t:ident) => { WithHue::with_hue($x, $f * $t) };
    // the assigning forms (separately written macro output; a mask reduced to one bool instead of a lane-wise select
    // only shows here, and only when the factor lanes have different signs)
    (clamp_assign, $x:ident, $y:ident, $f:ident, $t:ident) => {{ let mut z = $x; ColorClampAssign::clamp_assign(&mut z); z }};
    (mix_assign, $x:ident, $y:ident, $f:ident, $t:ident) => {{ let mut z = $x; MixAssign::mix_assign(&mut z, $y, $f); z }};
    (lighten_assign, $x:ident, $y:ident, $f:ident, $t:ident) => {{ let mut z = $x; LightenAssign::lighten_assign(&mut z, $f); z }};
    (darken_assign, $x:ident, $y:ident, $f:ident, $t:ident) => {{ let mut z = $x; DarkenAssign::darken_assign(&mut z, $f); z }};
    (lighten_fixed_assign, $x:ident, $y:ident, $f:ident, $t:ident) => {{ let mut z = $x; LightenAssign::lighten_fixed_assign(&mut z, $f); z }};
    (darken_fixed_assign, $x:ident, $y:ident, $f:ident, $t:ident) => {{ let mut z = $x; DarkenAssign::darken_fixed_assign(&mut z, $f); z }};
    (saturate_assign, $x:ident, $y:ident, $f:ident, $t:ident) => {{ let mut z = $x; SaturateAssign::saturate_assign(&mut z, $f); z }};
    (desaturate_assign, $x:ident, $y:ident, $f:ident, $t:ident) => {{ let mut z = $x; DesaturateAssign::desaturate_assign(&mut z, $f); z }};
    (saturate_fixed_assign, $x:ident, $y:ident, $f:ident, $t:ident) => {{ let mut z = $x; SaturateAssign::saturate_fixed_assign(&mut z, $f); z }};
    (shift_hue_assign, $x:ident, $y:ident, $f:ident, $t:ident) => {{ let mut z = $x; ShiftHueAssign::shift_hue_assign(&mut z, $f * $t); z }};
    (set_hue, $x:ident, $y:ident, $f:ident, $t:ident) => {{ let mut z = $x; SetHue::set_hue(&mut z, $f * $t); z }};
    (add_assign, $x:ident, $y:ident, $f:ident, $t:ident) => {{ let mut z = $x; z += $y; z }};
    (sub_assign, $x:ident, $y:ident, $f:ident, $t:ident) => {{ let mut z = $x; z -= $y; z }};
    (mul_assign, $x:ident, $y:ident, $f:ident, $t:ident) => {{ let mut z = $x; z *= $y; z }};
    (div_assign, $x:ident, $y:ident, $f:ident, $t:ident) => {{ let mut z = $x; z /= $y; z }};
    (mul_scalar_assign, $x:ident, $y:ident, $f:ident, $t:ident) => {{ let mut z = $x; z *= $f; z }};
    (add, $x:ident, $y:ident, $f:ident, $t:ident) => { $x + $y };
    (sub, $x:ident, $y:ident, $f:ident, $t:ident) => { $x - $y };
    (mul, $x:ident, $y:ident, $f:ident, $t:ident) => { $x * $y };
    (div, $x:ident, $y:ident, $f:ident, $t:ident) => { $x / $y };
    (mul_scalar, $x:ident, $y:ident, $f:ident, $t:ident) => { $x * $f };
    (add_scalar, $x:ident, $y:ident, $f:ident, $t:ident) => { $x + $f };
}
macro_rules! op_e {
    // predicates and scalar-valued operators
    (within, $v:expr, $V:ty, $S:ty, $N:expr, $an:expr, $A:ident) => {
        Entry { v: $v, name: concat!($an, " is_within_bounds"), kind: "is_within_bounds", out_space: "", tol_scale: 0.0, run: {
            fn f(l: &[[f64; 4]], _l2: &[[f64; 4]], _f: &[f64]) -> Out {
                let src = src!($A, $S, $N, l);
                let (packed, pack_ok) = pack_check!($A, $V, $S, $N, src);
                let m: $V = IsWithinBounds::is_within_bounds(&packed);
                let ml: [$S; $N] = m.into();
                Out { lanes: ml.iter().map(|b| vec![(b.to_bits() != 0) as u8 as f64]).collect(), scalar: src.iter().map(|c| vec![IsWithinBounds::is_within_bounds(c) as u8 as f64]).collect(), pack_ok }
            }
            f
        } }
    };
    (get_hue, $v:expr, $V:ty, $S:ty, $N:expr, $an:expr, $A:ident) => {
        Entry { v: $v, name: concat!($an, " get_hue"), kind: "get_hue", out_space: "", tol_scale: 1.0, run: {
            fn f(l: &[[f64; 4]], _l2: &[[f64; 4]], _f: &[f64]) -> Out {
                let src = src!($A, $S, $N, l);
                let (packed, pack_ok) = pack_check!($A, $V, $S, $N, src);
                let h: $V = GetHue::get_hue(&packed).into_inner();
                let hl: [$S; $N] = h.into();
                // as a point on the unit circle: lanes may differ from the scalar hue by whole turns
                let circ = |d: f64| vec![d.to_radians().cos(), d.to_radians().sin()];
                Out { lanes: hl.iter().map(|d| circ(*d as f64)).collect(), scalar: src.iter().map(|c| circ(GetHue::get_hue(c).into_inner() as f64)).collect(), pack_ok }
            }
            f
        } }
    };
    ($op:ident, $v:expr, $V:ty, $S:ty, $N:expr, $an:expr, $A:ident) => {
        Entry { v: $v, name: concat!($an, " ", stringify!($op)), kind: stringify!($op), out_space: $an, tol_scale: 1.0, run: {
            fn f(l: &[[f64; 4]], l2: &[[f64; 4]], fac: &[f64]) -> Out {
                let src = src!($A, $S, $N, l);
                let src2 = src!($A, $S, $N, l2);
                let (x, pack_ok) = pack_check!($A, $V, $S, $N, src);
                let y: $A<$V> = src2.into();
                let fs: [$S; $N] = core::array::from_fn(|i| fac[i] as $S);
                let f: $V = fs.into();
                let _ = &f;
                let t: $V = <$V>::from(360.0 as $S);
                let _ = &t;
                let out: $A<$V> = op_body!($op, x, y, f, t);
                let lanes: [$A<$S>; $N] = out.into();
                let _ = &y;
                Out {
                    lanes: lanes.iter().map(|c| arr(*c)).collect(),
                    scalar: (0..$N).map(|i| { let (x, y, f, t) = (src[i], src2[i], fs[i], 360.0 as $S); let _ = (&y, &t, &f); let o: $A<$S> = op_body!($op, x, y, f, t); arr(o) }).collect(),
                    pack_ok,
                }
            }
            f
        } }
    };
}

macro_rules! blend_body {
    (multiply, $x:ident, $y:ident) => { Blend::multiply($x, $y) };
    (screen, $x:ident, $y:ident) => { Blend::screen($x, $y) };
    (overlay, $x:ident, $y:ident) => { Blend::overlay($x, $y) };
    (darken, $x:ident, $y:ident) => { Blend::darken($x, $y) };
    (lighten, $x:ident, $y:ident) => { Blend::lighten($x, $y) };
    (dodge, $x:ident, $y:ident) => { Blend::dodge($x, $y) };
    (burn, $x:ident, $y:ident) => { Blend::burn($x, $y) };
    (hard_light, $x:ident, $y:ident) => { Blend::hard_light($x, $y) };
    (soft_light, $x:ident, $y:ident) => { Blend::soft_light($x, $y) };
    (difference, $x:ident, $y:ident) => { Blend::difference($x, $y) };
    (exclusion, $x:ident, $y:ident) => { Blend::exclusion($x, $y) };
    (over, $x:ident, $y:ident) => { Compose::over($x, $y) };
    (inside, $x:ident, $y:ident) => { Compose::inside($x, $y) };
    (outside, $x:ident, $y:ident) => { Compose::outside($x, $y) };
    (atop, $x:ident, $y:ident) => { Compose::atop($x, $y) };
    (xor, $x:ident, $y:ident) => { Compose::xor($x, $y) };
    (plus, $x:ident, $y:ident) => { Compose::plus($x, $y) };
}
macro_rules! blend_e {
    ($mode:ident, $v:expr, $V:ty, $S:ty, $N:expr, $an:expr, $A:ident) => {
        Entry { v: $v, name: concat!($an, " blend ", stringify!($mode)), kind: concat!("blend ", stringify!($mode)), out_space: "", tol_scale: 2.0, run: {
            fn f(l: &[[f64; 4]], l2: &[[f64; 4]], _fac: &[f64]) -> Out {
                let src = src!($A, $S, $N, l);
                let src2 = src!($A, $S, $N, l2);
                let a1: [Alpha<$A<$S>, $S>; $N] = core::array::from_fn(|i| src[i].with_alpha(l[i][3].clamp(0.0, 1.0) as $S));
                let a2: [Alpha<$A<$S>, $S>; $N] = core::array::from_fn(|i| src2[i].with_alpha(l2[i][3].clamp(0.0, 1.0) as $S));
                let p1: [PreAlpha<$A<$S>>; $N] = core::array::from_fn(|i| a1[i].premultiply());
                let p2: [PreAlpha<$A<$S>>; $N] = core::array::from_fn(|i| a2[i].premultiply());
                let (x, y): (PreAlpha<$A<$V>>, PreAlpha<$A<$V>>) = (p1.into(), p2.into());
                let back: [PreAlpha<$A<$S>>; $N] = x.into();
                let flat = |p: &PreAlpha<$A<$S>>| { let mut v = arr(p.color); v.push(p.alpha as f64); v };
                let pack_ok = (0..$N).all(|i| bits(&flat(&back[i])) == bits(&flat(&p1[i])));
                let out: PreAlpha<$A<$V>> = blend_body!($mode, x, y);
                let lanes: [PreAlpha<$A<$S>>; $N] = out.into();
                Out { lanes: lanes.iter().map(|p| flat(p)).collect(), scalar: (0..$N).map(|i| { let (x, y) = (p1[i], p2[i]); let o: PreAlpha<$A<$S>> = blend_body!($mode, x, y); flat(&o) }).collect(), pack_ok }
            }
            f
        } }
    };
}

macro_rules! diff_body {
    (delta_e, $x:ident, $y:ident) => { DeltaE::delta_e($x, $y) };
    (improved_delta_e, $x:ident, $y:ident) => { ImprovedDeltaE::improved_delta_e($x, $y) };
    (ciede, $x:ident, $y:ident) => { Ciede2000::difference($x, $y) };
    (hyab, $x:ident, $y:ident) => { HyAb::hybrid_distance($x, $y) };
    (euclid, $x:ident, $y:ident) => { EuclideanDistance::distance($x, $y) };
    (wcag, $x:ident, $y:ident) => { Wcag21RelativeContrast::relative_contrast($x, $y) };
}
macro_rules! diff_e {
    ($d:ident, $v:expr, $V:ty, $S:ty, $N:expr, $an:expr, $A:ident) => {
        Entry { v: $v, name: concat!($an, " difference ", stringify!($d)), kind: concat!("difference ", stringify!($d)), out_space: "", tol_scale: 2.0, run: {
            fn f(l: &[[f64; 4]], l2: &[[f64; 4]], _fac: &[f64]) -> Out {
                let src = src!($A, $S, $N, l);
                let src2 = src!($A, $S, $N, l2);
                let (x, pack_ok) = pack_check!($A, $V, $S, $N, src);
                let y: $A<$V> = src2.into();
                let d: $V = diff_body!($d, x, y);
                let dl: [$S; $N] = d.into();
                Out { lanes: dl.iter().map(|v| vec![*v as f64]).collect(), scalar: (0..$N).map(|i| { let (x, y) = (src[i], src2[i]); let o: $S = diff_body!($d, x, y); vec![o as f64] }).collect(), pack_ok }
            }
            f
        } }
    };
}

/// Alpha: packing, field layout, premultiply / unpremultiply, conversion with alpha
macro_rules! alpha_e {
    ($v:expr, $V:ty, $S:ty, $N:expr, $an:expr, $A:ident) => {
        Entry { v: $v, name: concat!($an, " alpha pack / fields"), kind: "alpha packing", out_space: "", tol_scale: 0.0, run: {
            fn f(l: &[[f64; 4]], _l2: &[[f64; 4]], _fac: &[f64]) -> Out {
                let src = src!($A, $S, $N, l);
                let a1: [Alpha<$A<$S>, $S>; $N] = core::array::from_fn(|i| src[i].with_alpha(l[i][3] as $S));
                let packed: Alpha<$A<$V>, $V> = a1.into();
                let back: [Alpha<$A<$S>, $S>; $N] = packed.into();
                let flat = |p: &Alpha<$A<$S>, $S>| { let mut v = arr(p.color); v.push(p.alpha as f64); v };
                let pack_ok = (0..$N).all(|i| bits(&flat(&back[i])) == bits(&flat(&a1[i])));
                // field i of the vector colour holds component i of every lane
                let al: [$S; $N] = packed.alpha.into();
                let comps: Vec<[$S; $N]> = palette::cast::into_array(packed.color).into_iter().map(|c: $V| { let a: [$S; $N] = c.into(); a }).collect();
                let lanes: Vec<Vec<f64>> = (0..$N).map(|i| { let mut v: Vec<f64> = comps.iter().map(|c| c[i] as f64).collect(); v.push(al[i] as f64); v }).collect();
                Out { lanes, scalar: a1.iter().map(|p| flat(p)).collect(), pack_ok }
            }
            f
        } }
    };
}
// ---- end of prelude ----
