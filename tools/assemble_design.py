#!/usr/bin/env python3
"""Put the as-built parts into DESIGN.md (idempotent): tools/design_status.md as section 0 (with the seeded-change table from
seeded/RESULTS.md and the stages text), and the per-property paragraphs of tools/design_asbuilt.md at the end of each
section of chapter 4."""
import re, os
R = "/verif"
s = open(f"{R}/DESIGN.md").read()
status = open(f"{R}/tools/design_status.md").read()
table = open(f"{R}/seeded/RESULTS.md").read() if os.path.exists(f"{R}/seeded/RESULTS.md") else "(run tools/run_seeds.py)"
stages = open(f"{R}/tools/design_stages.md").read() if os.path.exists(f"{R}/tools/design_stages.md") else "(not written yet)"
status = status.replace("@@SEED_TABLE@@", table.strip()).replace("@@STAGES@@", stages.strip())
block = "<!-- STATUS -->\n" + status.strip() + "\n\n---------------------------------------------------------------------------------------------------\n<!-- /STATUS -->\n\n"
if "<!-- STATUS -->" in s:
    s = re.sub(r"<!-- STATUS -->.*?<!-- /STATUS -->\n\n", lambda m: block, s, flags=re.S)
else:
    s = s.replace("## 1. Why this reaches", block + "## 1. Why this reaches", 1)
parts = re.split(r"^@@(C\d\d)\n", open(f"{R}/tools/design_asbuilt.md").read(), flags=re.M)
asb = {parts[i]: parts[i + 1].strip() for i in range(1, len(parts), 2)}
for cid, text in asb.items():
    blk = f"<!-- AS-BUILT:{cid} -->\n{text}\n<!-- /AS-BUILT -->\n\n"
    pat = re.compile(rf"<!-- AS-BUILT:{cid} -->.*?<!-- /AS-BUILT -->\n\n", re.S)
    if pat.search(s):
        s = pat.sub(lambda m: blk, s)
    else:
        # end of the property's section = next "### C" heading or the chapter-5 separator
        m = re.search(rf"^### {cid} .*?(?=^### C\d\d |^-{{20,}}\n\n## 5\.|^## 5\.)", s, flags=re.S | re.M)
        assert m, cid
        s = s[:m.end()] + blk + s[m.end():]
open(f"{R}/DESIGN.md", "w").write(s)
print("assembled; as-built paragraphs:", len(asb))
